(* Proofs about the RESP model (model/Resp.v). *)
From Coq Require Import List NArith ZArith Bool Lia ZifyBool ZifyNat ZifyN.
From Coq Require Import DecimalN DecimalPos.
From Verif Require Import CheckLib Resp.
Import ListNotations.
Open Scope N_scope.

(* ================================================================== *)
(* small facts                                                        *)

Lemma eqb_eq_N (a b : N) : (a =? b) = true <-> a = b.
Proof. apply N.eqb_eq. Qed.

Lemma san_not_cr x : san x <> 13 /\ san x <> 10.
Proof.
  unfold san. destruct (x =? 13) eqn:E1; destruct (x =? 10) eqn:E2; cbn; try lia.
Qed.

Lemma san_id x : x <> 13 -> x <> 10 -> san x = x.
Proof.
  intros H1 H2. unfold san.
  destruct (x =? 13) eqn:E1; [lia|]. destruct (x =? 10) eqn:E2; [lia|]. reflexivity.
Qed.

Lemma map_san_clean s : clean_line s -> map san s = s.
Proof.
  induction 1 as [|x s [H1 H2] _ IH]; cbn; [reflexivity|].
  rewrite san_id by assumption. now rewrite IH.
Qed.

Lemma clean_map_san s : clean_line (map san s).
Proof. induction s as [|x s IH]; cbn; constructor; auto using san_not_cr. Qed.

(* ---------- UTF-8 ---------- *)
Lemma ustep_cr s : ustep s 13 = ustep s 32.
Proof. destruct s; reflexivity. Qed.
Lemma ustep_lf s : ustep s 10 = ustep s 32.
Proof. destruct s; reflexivity. Qed.

Lemma urun_san s l : urun s (map san l) = urun s l.
Proof.
  revert s; induction l as [|x l IH]; intros s; [reflexivity|].
  cbn [map urun]. unfold san at 1.
  destruct (x =? 13) eqn:E1.
  - apply N.eqb_eq in E1; subst x. cbn [orb]. rewrite ustep_cr.
    destruct (ustep s 32); [apply IH|reflexivity].
  - destruct (x =? 10) eqn:E2.
    + apply N.eqb_eq in E2; subst x. cbn [orb]. rewrite ustep_lf.
      destruct (ustep s 32); [apply IH|reflexivity].
    + cbn [orb]. destruct (ustep s x); [apply IH|reflexivity].
Qed.

Lemma utf8_san l : utf8_valid (map san l) = utf8_valid l.
Proof. apply urun_san. Qed.

Lemma utf8_ascii l : Forall (fun x => x <= 127) l -> utf8_valid l = true.
Proof.
  unfold utf8_valid. induction 1 as [|x l H _ IH]; [reflexivity|].
  cbn [urun ustep]. apply N.leb_le in H. now rewrite H.
Qed.

(* ---------- decimal text ---------- *)
Definition is_digit (x : N) : Prop := 48 <= x <= 57.

Lemma bytes_uint_of u : bytes_uint (uint_bytes u) = Some u.
Proof. induction u; cbn [uint_bytes bytes_uint]; try rewrite IHu; reflexivity. Qed.

Lemma uint_bytes_digits u : Forall is_digit (uint_bytes u).
Proof. induction u; cbn [uint_bytes]; constructor; auto; unfold is_digit; lia. Qed.

Lemma uint_bytes_nonnil u : u <> Decimal.Nil -> uint_bytes u <> [].
Proof. destruct u; cbn; congruence. Qed.

Lemma N_to_uint_nonnil n : N.to_uint n <> Decimal.Nil.
Proof.
  destruct n; cbn; [discriminate|]. apply DecimalPos.Unsigned.to_uint_nonnil.
Qed.

Lemma dec_N_nonnil n : dec_N n <> [].
Proof. apply uint_bytes_nonnil, N_to_uint_nonnil. Qed.

Lemma dec_N_digits n : Forall is_digit (dec_N n).
Proof. apply uint_bytes_digits. Qed.

Lemma digits_dec_N n : digits (dec_N n) = Some n.
Proof.
  unfold digits. pose proof (dec_N_nonnil n) as Hn.
  destruct (dec_N n) eqn:E; [congruence|]. rewrite <- E. unfold dec_N.
  rewrite bytes_uint_of. now rewrite DecimalN.Unsigned.of_to.
Qed.

Lemma dec_N_head n : exists x t, dec_N n = x :: t /\ is_digit x.
Proof.
  pose proof (dec_N_nonnil n) as Hn. pose proof (dec_N_digits n) as Hd.
  destruct (dec_N n) as [|x t]; [congruence|]. inversion Hd; subst. eauto.
Qed.

Lemma parse_i64_dec z : (I64_MIN <= z <= I64_MAX)%Z -> parse_i64 (dec_Z z) = Some z.
Proof.
  intros Hz. unfold dec_Z. destruct (z <? 0)%Z eqn:Es.
  - cbn [parse_i64]. change (45 =? 45) with true. cbv iota.
    rewrite digits_dec_N. rewrite Z2N.id by lia.
    replace (- - z)%Z with z by lia.
    destruct (I64_MIN <=? z)%Z eqn:E; [reflexivity|lia].
  - destruct (dec_N_head (Z.to_N z)) as (x & t & E & Hx). unfold parse_i64. rewrite E.
    unfold is_digit in Hx.
    destruct (x =? 45) eqn:E1; [lia|]. destruct (x =? 43) eqn:E2; [lia|].
    rewrite <- E, digits_dec_N. unfold upto. rewrite Z2N.id by lia.
    destruct (z <=? I64_MAX)%Z eqn:E3; [reflexivity|lia].
Qed.

Lemma parse_i64_dec_nat n :
  (Z.of_nat n <= I64_MAX)%Z -> parse_i64 (dec_nat n) = Some (Z.of_nat n).
Proof.
  intros H. pose proof (parse_i64_dec (Z.of_nat n)) as P. unfold dec_Z in P.
  destruct (Z.of_nat n <? 0)%Z eqn:E; [lia|].
  unfold dec_nat. replace (N.of_nat n) with (Z.to_N (Z.of_nat n)) by lia.
  apply P. unfold I64_MIN. lia.
Qed.

Lemma parse_usize_dec_nat n :
  (Z.of_nat n <= USIZE_MAX)%Z -> parse_usize (dec_nat n) = Some (Z.of_nat n).
Proof.
  intros H. unfold dec_nat.
  destruct (dec_N_head (N.of_nat n)) as (x & t & E & Hx). unfold parse_usize. rewrite E.
  unfold is_digit in Hx. destruct (x =? 43) eqn:E2; [lia|].
  rewrite <- E, digits_dec_N. unfold upto.
  replace (Z.of_N (N.of_nat n)) with (Z.of_nat n) by lia.
  destruct (Z.of_nat n <=? USIZE_MAX)%Z eqn:E3; [reflexivity|lia].
Qed.

Lemma upto_range m o z : upto m o = Some z -> (0 <= z <= m)%Z.
Proof.
  unfold upto. destruct o as [n|]; [|discriminate].
  destruct (Z.of_N n <=? m)%Z eqn:E; [|discriminate]. intros [= <-]. lia.
Qed.

Lemma parse_i64_range l z : parse_i64 l = Some z -> (I64_MIN <= z <= I64_MAX)%Z.
Proof.
  unfold parse_i64. destruct l as [|x t]; [discriminate|].
  destruct (x =? 45).
  - destruct (digits t) as [n|]; [|discriminate].
    destruct (I64_MIN <=? - Z.of_N n)%Z eqn:E; [|discriminate]. intros [= <-].
    unfold I64_MAX. lia.
  - destruct (x =? 43); intros H; apply upto_range in H; unfold I64_MIN; lia.
Qed.

Lemma parse_usize_range l z : parse_usize l = Some z -> (0 <= z <= USIZE_MAX)%Z.
Proof.
  unfold parse_usize. destruct l as [|x t]; [discriminate|].
  destruct (x =? 43); apply upto_range.
Qed.

Lemma digit_ascii l : Forall is_digit l -> Forall (fun x => x <= 127) l.
Proof. apply Forall_impl. unfold is_digit. intros; lia. Qed.

Lemma digit_no_cr l : Forall is_digit l -> Forall (fun x => x <> 13) l.
Proof. apply Forall_impl. unfold is_digit. intros; lia. Qed.

Lemma dec_Z_ok z : Forall (fun x => x <= 127 /\ x <> 13) (dec_Z z).
Proof.
  unfold dec_Z. destruct (z <? 0)%Z.
  - constructor; [lia|]. eapply Forall_impl; [|apply dec_N_digits]. unfold is_digit; intros; lia.
  - eapply Forall_impl; [|apply dec_N_digits]. unfold is_digit; intros; lia.
Qed.

Lemma dec_nat_ok n : Forall (fun x => x <= 127 /\ x <> 13) (dec_nat n).
Proof.
  unfold dec_nat. eapply Forall_impl; [|apply dec_N_digits]. unfold is_digit; intros; lia.
Qed.

(* ---------- lines ---------- *)
Lemma nocrlf_no_cr l : Forall (fun x => x <> 13) l -> nocrlf l = true.
Proof.
  induction 1 as [|x l H _ IH]; [reflexivity|].
  cbn [nocrlf]. destruct l as [|y l']; [reflexivity|].
  rewrite IH. destruct (x =? 13) eqn:E; [lia|]. reflexivity.
Qed.

Lemma split_line_app l r : nocrlf l = true -> split_line (l ++ 13 :: 10 :: r) = Some (l, r).
Proof.
  induction l as [|x l IH]; intros H.
  - reflexivity.
  - cbn [app split_line]. destruct l as [|y l'].
    + cbn [app]. destruct (x =? 13) eqn:E.
      * cbn. reflexivity.
      * cbn [andb]. cbn. reflexivity.
    + cbn [nocrlf] in H. apply andb_true_iff in H as [H1 H2].
      cbn [app]. cbn [app] in IH. apply negb_true_iff in H1. rewrite H1.
      rewrite IH by assumption. reflexivity.
Qed.

Lemma split_line_spec b l r :
  split_line b = Some (l, r) -> b = l ++ 13 :: 10 :: r /\ nocrlf l = true.
Proof.
  revert l r; induction b as [|x t IH]; intros l r H; [discriminate|].
  cbn [split_line] in H. destruct t as [|y t']; [discriminate|].
  destruct ((x =? 13) && (y =? 10)) eqn:E.
  - injection H as <- <-. apply andb_true_iff in E as [E1 E2].
    apply N.eqb_eq in E1, E2. subst. split; reflexivity.
  - destruct (split_line (y :: t')) as [[l' r']|] eqn:E'; [|discriminate].
    injection H as <- <-. destruct (IH _ _ eq_refl) as [Hb Hn]. split.
    + cbn [app]. f_equal. exact Hb.
    + cbn [nocrlf]. destruct l' as [|z l'']; [reflexivity|].
      cbn [app] in Hb. injection Hb as -> _. rewrite E. exact Hn.
Qed.

(* a strict prefix of "line CRLF" has no complete line *)
Lemma split_line_strict_prefix l : nocrlf l = true ->
  forall p t, p ++ t = l ++ [13; 10] -> t <> [] -> split_line p = None.
Proof.
  induction l as [|x l IH]; intros Hl p t E Ht.
  - destruct p as [|a [|b p']]; try reflexivity.
    cbn in E. injection E as -> -> E. destruct p'; [|discriminate]. cbn in E. congruence.
  - destruct p as [|a p']; [reflexivity|].
    cbn [app] in E. injection E as -> E.
    assert (Hl' : nocrlf l = true).
    { cbn [nocrlf] in Hl. destruct l; [reflexivity|]. now apply andb_true_iff in Hl. }
    specialize (IH Hl' p' t E Ht).
    cbn [split_line]. destruct p' as [|b p'']; [reflexivity|].
    rewrite IH.
    destruct l as [|y l'].
    + cbn in E. injection E as -> E. destruct (x =? 13); reflexivity.
    + cbn [app] in E. injection E as -> E. cbn [nocrlf] in Hl.
      apply andb_true_iff in Hl as [H1 _]. apply negb_true_iff in H1. now rewrite H1.
Qed.

(* ================================================================== *)
(* one unfolding of parse, with the recursive call abstracted          *)

Definition tagged (mb : Z) (rec : option (bytes -> pres)) (c : N) (l r : bytes) : pres :=
  if c =? 43 then (if utf8_valid l then PDone (SStr l) r else PFail EEnc r)
  else if c =? 45 then (if utf8_valid l then PDone (RErr l) r else PFail EEnc r)
  else if c =? 58 then
    (if utf8_valid l then
       match parse_i64 l with
       | Some z => PDone (RInt z) r
       | None => PFail EProto r
       end
     else PFail EEnc r)
  else if c =? 36 then parse_bulk mb l r
  else if c =? 42 then
    (if utf8_valid l then
       match parse_usize l with
       | None => PFail EProto r
       | Some n =>
           match rec with
           | None => PFail EProto r
           | Some p => elems p (S (length r)) (Z.to_N n) r []
           end
       end
     else PFail EEnc r)
  else match l with [] => PDone RNull r | _ => PFail EProto r end.

Definition parse_step (mb : Z) (rec : option (bytes -> pres)) (b : bytes) : pres :=
  match b with
  | [] => PMore false
  | c :: t =>
      if is_tag c then
        match split_line t with
        | None => PMore false
        | Some (l, r) => tagged mb rec c l r
        end
      else
        match split_line b with
        | None => PMore false
        | Some (l, r) => parse_inline l r
        end
  end.

Definition recd (mb : Z) (d : nat) : option (bytes -> pres) :=
  match d with O => None | S d' => Some (parse mb d') end.

Lemma parse_eq mb d b : parse mb d b = parse_step mb (recd mb d) b.
Proof. destruct d; reflexivity. Qed.

Lemma parse_tag_line mb d c l r :
  is_tag c = true -> nocrlf l = true ->
  parse mb d (c :: l ++ 13 :: 10 :: r) = tagged mb (recd mb d) c l r.
Proof.
  intros Hc Hl. rewrite parse_eq. unfold parse_step. rewrite Hc.
  now rewrite split_line_app.
Qed.

(* ================================================================== *)
(* induction principle for values                                      *)

Fixpoint rv_ind' (P : rv -> Prop)
  (Hs : forall s, P (SStr s)) (He : forall s, P (RErr s)) (Hi : forall z, P (RInt z))
  (Hb : forall o, P (Bulk o)) (Ha : forall l, Forall P l -> P (Arr l)) (Hn : P RNull)
  (v : rv) : P v :=
  match v with
  | SStr s => Hs s
  | RErr s => He s
  | RInt z => Hi z
  | Bulk o => Hb o
  | Arr l => Ha l ((fix go (l : list rv) : Forall P l :=
                      match l with
                      | [] => Forall_nil P
                      | x :: t => Forall_cons x (rv_ind' P Hs He Hi Hb Ha Hn x) (go t)
                      end) l)
  | RNull => Hn
  end.

Lemma repr_arr mb l :
  repr mb (Arr l) <-> (Z.of_nat (length l) <= USIZE_MAX)%Z /\ Forall (repr mb) l.
Proof.
  cbn [repr]. split; intros [H1 H2]; split; auto.
  - induction l as [|x t IH]; constructor; destruct H2 as [Hx Ht]; auto.
    apply IH; [cbn [length] in H1; lia|exact Ht].
  - clear H1. induction H2 as [|x t Hx _ IH]; [exact I|split; assumption].
Qed.

Lemma clean_arr l : clean (Arr l) <-> Forall clean l.
Proof.
  cbn [clean]. split; intros H.
  - induction l as [|x t IH]; constructor; destruct H as [Hx Ht]; auto.
  - induction H as [|x t Hx _ IH]; [exact I|split; assumption].
Qed.

Lemma depth_arr l d : (depth (Arr l) <= S d)%nat <-> Forall (fun x => (depth x <= d)%nat) l.
Proof.
  cbn [depth]. rewrite <- Forall_map with (f := depth) (P := fun k => (k <= d)%nat).
  rewrite <- list_max_le. lia.
Qed.

Lemma sanitize_clean v : clean v -> sanitize v = v.
Proof.
  induction v as [s|s|z|o|l IH|] using rv_ind'; intros H; cbn [sanitize]; try reflexivity.
  - cbn in H. now rewrite map_san_clean.
  - cbn in H. now rewrite map_san_clean.
  - apply clean_arr in H. f_equal.
    induction l as [|x t IHt]; [reflexivity|].
    inversion IH; subst. inversion H; subst. cbn [map]. f_equal; auto.
Qed.

Lemma encode_nonnil v : encode v <> [].
Proof. destruct v as [s|s|z|[d|]|l|]; cbn; discriminate. Qed.

Lemma flat_encode_length l : (length l <= length (flat_map encode l))%nat.
Proof.
  induction l as [|x t IH]; [cbn; lia|].
  cbn [flat_map length]. rewrite app_length.
  pose proof (encode_nonnil x). destruct (encode x); [congruence|cbn [length]; lia].
Qed.

(* ================================================================== *)
(* round trip                                                          *)

Lemma elems_roundtrip (p : bytes -> pres) l :
  Forall (fun v => forall r, p (encode v ++ r) = PDone (sanitize v) r) l ->
  forall acc fuel r, (length l <= fuel)%nat ->
  elems p fuel (N.of_nat (length l)) (flat_map encode l ++ r) acc
  = PDone (Arr (rev acc ++ map sanitize l)) r.
Proof.
  induction 1 as [|v l Hv _ IH]; intros acc fuel r Hf.
  - destruct fuel; cbn; now rewrite app_nil_r.
  - cbn [length] in *. destruct fuel as [|f]; [lia|].
    cbn [elems]. destruct (N.of_nat (S (length l)) =? 0) eqn:E; [lia|].
    cbn [flat_map]. rewrite <- app_assoc. rewrite Hv.
    replace (N.pred (N.of_nat (S (length l)))) with (N.of_nat (length l)) by lia.
    rewrite IH by lia. cbn [rev map]. now rewrite <- app_assoc.
Qed.

Definition mb_ok (mb : Z) : Prop := (0 <= mb <= I64_MAX)%Z.

Lemma line_payload_ok l : Forall (fun x => x <= 127 /\ x <> 13) l ->
  nocrlf l = true /\ utf8_valid l = true.
Proof.
  intros H. split.
  - apply nocrlf_no_cr. eapply Forall_impl; [|exact H]. now intros x [_ ?].
  - apply utf8_ascii. eapply Forall_impl; [|exact H]. now intros x [? _].
Qed.

Lemma roundtrip mb : mb_ok mb -> forall v d r,
  repr mb v -> (depth v <= d)%nat ->
  parse mb d (encode v ++ r) = PDone (sanitize v) r.
Proof.
  intros Hmb v.
  induction v as [s|s|z|o|l IH|] using rv_ind'; intros d r Hr Hd.
  - (* SStr *)
    cbn [encode sanitize]. cbn [app]. rewrite <- app_assoc. cbn [crlf app].
    rewrite parse_tag_line; [|reflexivity|].
    + unfold tagged. change (43 =? 43) with true. cbv iota.
      rewrite utf8_san. cbn in Hr. now rewrite Hr.
    + apply nocrlf_no_cr. eapply Forall_impl; [|apply clean_map_san]. now intros x [? _].
  - (* RErr *)
    cbn [encode sanitize]. cbn [app]. rewrite <- app_assoc. cbn [crlf app].
    rewrite parse_tag_line; [|reflexivity|].
    + unfold tagged. change (45 =? 43) with false. change (45 =? 45) with true. cbv iota.
      rewrite utf8_san. cbn in Hr. now rewrite Hr.
    + apply nocrlf_no_cr. eapply Forall_impl; [|apply clean_map_san]. now intros x [? _].
  - (* RInt *)
    cbn [encode sanitize]. cbn [app]. rewrite <- app_assoc. cbn [crlf app].
    destruct (line_payload_ok _ (dec_Z_ok z)) as [H1 H2].
    rewrite parse_tag_line; [|reflexivity|exact H1].
    unfold tagged. change (58 =? 43) with false. change (58 =? 45) with false.
    change (58 =? 58) with true. cbv iota. rewrite H2.
    cbn in Hr. now rewrite parse_i64_dec.
  - (* Bulk *)
    destruct o as [dd|].
    + cbn [encode sanitize]. cbn [app]. rewrite <- !app_assoc. cbn [crlf app].
      destruct (line_payload_ok _ (dec_nat_ok (length dd))) as [H1 H2].
      rewrite parse_tag_line; [|reflexivity|exact H1].
      unfold tagged. change (36 =? 43) with false. change (36 =? 45) with false.
      change (36 =? 58) with false. change (36 =? 36) with true. cbv iota.
      unfold parse_bulk. rewrite H2.
      cbn [repr] in Hr. unfold zlen in Hr. unfold mb_ok in Hmb.
      rewrite parse_i64_dec_nat by lia.
      destruct (Z.of_nat (length dd) =? -1)%Z eqn:E1; [lia|].
      destruct (Z.of_nat (length dd) <? 0)%Z eqn:E2; [lia|].
      destruct (mb <? Z.of_nat (length dd))%Z eqn:E3; [lia|]. cbn [orb].
      destruct (USIZE_MAX <? Z.of_nat (length dd) + 2)%Z eqn:E4;
        [unfold USIZE_MAX, I64_MAX in *; lia|].
      rewrite app_length. cbn [length].
      destruct (Z.of_nat (length dd + S (S (length r))) <? Z.of_nat (length dd) + 2)%Z eqn:E5; [lia|].
      rewrite Nat2Z.id.
      rewrite skipn_app, skipn_all, Nat.sub_diag. cbn [skipn app].
      change (13 =? 13) with true. change (10 =? 10) with true. cbn [andb].
      rewrite firstn_app, firstn_all, Nat.sub_diag. cbn [firstn]. now rewrite app_nil_r.
    + cbn [encode sanitize app].
      change (36 :: 45 :: 49 :: 13 :: 10 :: r) with (36 :: [45; 49] ++ 13 :: 10 :: r).
      rewrite parse_tag_line; reflexivity.
  - (* Arr *)
    cbn [encode sanitize]. cbn [app]. rewrite <- !app_assoc. cbn [crlf app].
    destruct (line_payload_ok _ (dec_nat_ok (length l))) as [H1 H2].
    rewrite parse_tag_line; [|reflexivity|exact H1].
    unfold tagged. change (42 =? 43) with false. change (42 =? 45) with false.
    change (42 =? 58) with false. change (42 =? 36) with false.
    change (42 =? 42) with true. cbv iota. rewrite H2.
    apply repr_arr in Hr as [Hlen Hall].
    rewrite parse_usize_dec_nat by exact Hlen.
    destruct d as [|d']; [cbn [depth] in Hd; lia|]. cbn [recd].
    apply depth_arr in Hd.
    replace (Z.to_N (Z.of_nat (length l))) with (N.of_nat (length l)) by lia.
    rewrite elems_roundtrip.
    + reflexivity.
    + rewrite Forall_forall in *. intros v Hv r'. apply IH; auto.
    + rewrite app_length. pose proof (flat_encode_length l). lia.
  - (* RNull *)
    cbn [encode sanitize app].
    change (95 :: 13 :: 10 :: r) with (95 :: [] ++ 13 :: 10 :: r).
    rewrite parse_tag_line; reflexivity.
Qed.
