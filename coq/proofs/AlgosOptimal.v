(* C26, second part: the algorithm models of model/Algos.v return the specification's
   optimum (BFS: FIFO-layer invariant; Dijkstra: settled-set invariant; Prim: cut property). *)
From Coq Require Import List NArith Bool Arith Lia ZifyBool ZifyNat ZifyN.
From Verif Require Import CheckLib Algos AlgosProofs.
Import ListNotations.

(* ================================================================== *)
(* BFS                                                                  *)
(* ================================================================== *)

Section BfsOpt.
Variable g : graph.
Variable s t : nat.
Hypothesis Hwf : wf g.
Hypothesis Hs : s < gn g.

Definition edge_to (p x : nat) : Prop := exists w, In (p, x, w) (ge g).

(* the visited map as the code builds it: the source at the bottom, every later entry a
   fresh node whose parent is already there *)
Inductive okvis : list (nat * option nat) -> Prop :=
| ok_base : okvis [(s, None)]
| ok_cons : forall x p rest, okvis rest -> alookup x rest = None -> visited rest p ->
                             edge_to p x -> okvis ((x, Some p) :: rest).

(* depth of a node in the parent tree *)
Fixpoint depth (vis : list (nat * option nat)) (v : nat) : nat :=
  match vis with
  | [] => 0
  | (x, par) :: rest =>
      if x =? v then match par with Some p => S (depth rest p) | None => 0 end
      else depth rest v
  end.

Lemma visited_cons : forall x par rest v,
  visited ((x, par) :: rest) v <-> x = v \/ visited rest v.
Proof.
  intros x par rest v. unfold visited. cbn [alookup]. destruct (Nat.eqb_spec x v) as [->|Hne].
  - cbn. tauto.
  - split; [intros H; right; exact H|intros [H|H]; [contradiction|exact H]].
Qed.

Lemma not_visited_ne : forall rest x p, alookup x rest = None -> visited rest p -> x <> p.
Proof. intros rest x p Hx Hp ->. unfold visited in Hp. rewrite Hx in Hp. discriminate. Qed.

Lemma depth_cons_old : forall x par rest v, alookup x rest = None -> visited rest v ->
  depth ((x, par) :: rest) v = depth rest v.
Proof.
  intros x par rest v Hx Hv. cbn [depth]. destruct (Nat.eqb_spec x v) as [->|Hne]; [|reflexivity].
  exfalso. eapply not_visited_ne; eauto.
Qed.

Lemma okvis_inv : forall vis, okvis vis -> bfs_inv g s vis.
Proof.
  intros vis H; induction H as [|x p rest H IH Hx Hp He].
  - split.
    + intros i p Hi. cbn [alookup] in Hi. destruct (s =? i); discriminate.
    + intros i Hi. cbn [alookup] in Hi. destruct (Nat.eqb_spec s i); [auto|discriminate].
  - destruct IH as [I1 I2]. split.
    + intros i p0 Hi. cbn [alookup] in Hi. destruct (Nat.eqb_spec x i) as [->|Hne].
      * inversion Hi; subst. split; [exact He|apply visited_cons; right; exact Hp].
      * destruct (I1 i p0 Hi) as [A B]. split; [exact A|apply visited_cons; right; exact B].
    + intros i Hi. cbn [alookup] in Hi. destruct (x =? i); [discriminate|apply I2; exact Hi].
Qed.

Lemma okvis_source : forall vis, okvis vis -> visited vis s /\ depth vis s = 0.
Proof.
  intros vis H; induction H as [|x p rest H [IHv IHd] Hx Hp He].
  - unfold visited. cbn. rewrite Nat.eqb_refl. split; reflexivity.
  - split; [apply visited_cons; right; exact IHv|]. rewrite depth_cons_old; assumption.
Qed.

Lemma depth_unfold : forall vis, okvis vis -> forall v,
  (forall p, alookup v vis = Some (Some p) -> depth vis v = S (depth vis p) /\ visited vis p) /\
  (alookup v vis = Some None -> depth vis v = 0).
Proof.
  intros vis H; induction H as [|x p rest H IH Hx Hp He]; intros v.
  - cbn [alookup depth]. destruct (s =? v); split; try (intros; discriminate); auto.
  - cbn [alookup]. destruct (Nat.eqb_spec x v) as [->|Hne].
    + split; [|discriminate]. intros p0 H0. inversion H0; subst p0.
      split; [|apply visited_cons; right; exact Hp].
      rewrite (depth_cons_old v (Some p) rest p Hx Hp). cbn [depth]. rewrite Nat.eqb_refl. reflexivity.
    + destruct (IH v) as [IH1 IH2]. split.
      * intros p0 H0. destruct (IH1 p0 H0) as [Hd Hv]. split; [|apply visited_cons; right; exact Hv].
        cbn [depth]. destruct (Nat.eqb_spec x v); [contradiction|].
        destruct (Nat.eqb_spec x p0) as [->|Hnp]; [exfalso; eapply not_visited_ne; eauto|]. exact Hd.
      * intros H0. cbn [depth]. destruct (Nat.eqb_spec x v); [contradiction|]. apply IH2; exact H0.
Qed.

Lemma depth_lt : forall vis, okvis vis -> forall v, visited vis v -> depth vis v < length vis.
Proof.
  intros vis H; induction H as [|x p rest H IH Hx Hp He]; intros v Hv.
  - cbn. destruct (s =? v); lia.
  - cbn [depth length]. destruct (Nat.eqb_spec x v) as [->|Hne].
    + specialize (IH p Hp). lia.
    + apply visited_cons in Hv. destruct Hv as [Hv|Hv]; [contradiction|]. specialize (IH v Hv). lia.
Qed.

(* following the parent links from a visited node takes depth+1 nodes and succeeds when the
   fuel exceeds the depth *)
Lemma recon_len : forall vis, okvis vis -> forall fuel cur acc,
  visited vis cur -> depth vis cur < fuel ->
  exists p, recon fuel (bfs_par vis) cur acc = Some p /\ length p = depth vis cur + 1 + length acc.
Proof.
  intros vis Hok fuel; induction fuel as [|f IH]; intros cur acc Hv Hd; [lia|].
  cbn [recon]. unfold bfs_par at 1. unfold visited in Hv.
  destruct (depth_unfold vis Hok cur) as [U1 U2].
  destruct (alookup cur vis) as [[p0|]|] eqn:Ea; cbn in Hv; try discriminate.
  - destruct (U1 p0 eq_refl) as [Hdp Hvp].
    destruct (IH p0 (cur :: acc) Hvp ltac:(lia)) as [p [Hr Hl]].
    exists p. split; [exact Hr|]. rewrite Hl, Hdp. cbn [length]. lia.
  - exists (cur :: acc). split; [reflexivity|]. rewrite (U2 eq_refl). cbn [length]. lia.
Qed.

(* the loop invariant.  dn: nodes already expanded; front: the node being expanded (or none);
   the queue is A ++ B, A at depth m (like front), B at depth m+1. *)
Definition binv (vis : list (nat * option nat)) (dn front A B : list nat) (m : nat) : Prop :=
  okvis vis /\
  (forall v, visited vis v <-> In v (dn ++ front ++ A ++ B)) /\
  NoDup (dn ++ front ++ A ++ B) /\
  (forall v, In v (dn ++ front ++ A ++ B) -> v < gn g) /\
  (forall a, In a (front ++ A) -> depth vis a = m) /\
  (forall b, In b B -> depth vis b = S m) /\
  (forall u, In u dn -> depth vis u <= m) /\
  (forall u, In u dn -> forall v, edge_to u v -> visited vis v /\ depth vis v <= S (depth vis u)) /\
  ~ In t dn.

(* every walk from s ends in a visited node at most that deep, or is at least as long as the
   frontier is deep *)
Lemma frontier_claim : forall vis dn front A B m, binv vis dn front A B m ->
  forall k v c, walkn (unitw g) s k v c ->
  (visited vis v /\ (N.of_nat (depth vis v) <= c)%N) \/
  ((front ++ A ++ B) <> [] /\ (N.of_nat m <= c)%N).
Proof.
  intros vis dn front A B m [Hok [Hvis [Hnd [Hlt [HA [HB [Hdn [HC Ht]]]]]]]] k v c Hw.
  induction Hw as [k|k x v w c Hw IH Hin].
  - left. destruct (okvis_source vis Hok) as [H1 H2]. rewrite H2. split; [exact H1|lia].
  - apply unitw_edges in Hin. destruct Hin as [-> [w' Hin]].
    destruct IH as [[Hx Hdx]|[Hne Hm]]; [|right; split; [exact Hne|lia]].
    apply Hvis in Hx. apply in_app_iff in Hx. destruct Hx as [Hx|Hx].
    + left. destruct (HC x Hx v (ex_intro _ w' Hin)) as [Hv Hdv]. split; [exact Hv|lia].
    + right. split; [intros E; rewrite E in Hx; destruct Hx|].
      assert (m <= depth vis x).
      { rewrite app_assoc in Hx. apply in_app_iff in Hx. destruct Hx as [Hx|Hx];
          [rewrite (HA x Hx)|rewrite (HB x Hx)]; lia. }
      lia.
Qed.

Lemma nodup_snoc : forall (l : list nat) x, NoDup l -> ~ In x l -> NoDup (l ++ [x]).
Proof.
  intros l x Hl Hx. apply nodup_app; [exact Hl|constructor; [intros []|constructor]|].
  intros y Hy [<-|[]]. contradiction.
Qed.

Lemma binv_len : forall vis dn front A B m, binv vis dn front A B m ->
  length (dn ++ front ++ A ++ B) <= gn g.
Proof.
  intros vis dn front A B m [_ [_ [Hnd [Hlt _]]]].
  rewrite <- (seq_length (gn g) 0). apply NoDup_incl_length; [exact Hnd|].
  intros v Hv. apply in_seq. specialize (Hlt v Hv). lia.
Qed.

(* expanding the successors of the front node *)
Lemma expand_binv : forall cur l vis dn A B m,
  binv vis dn [cur] A B m -> (forall x, In x l -> edge_to cur x) ->
  exists B2 vis2,
    fold_left (bfs_expand cur) l (A ++ B, vis) = (A ++ B2, vis2) /\
    binv vis2 dn [cur] A B2 m /\
    (forall v, visited vis v -> visited vis2 v /\ depth vis2 v = depth vis v) /\
    (forall x, In x l -> visited vis2 x /\ depth vis2 x <= S m).
Proof.
  intros cur l; induction l as [|nx l IH]; intros vis dn A B m Hb Hl.
  - exists B, vis. split; [reflexivity|]. split; [exact Hb|]. split; [intros v Hv; split; [exact Hv|reflexivity]|intros x []].
  - cbn [fold_left]. unfold bfs_expand at 2.
    pose proof Hb as [Hok [Hvis [Hnd [Hlt [HA [HB [Hdn [HC Ht]]]]]]]].
    assert (Hcur : visited vis cur) by (apply Hvis; rewrite !in_app_iff; right; left; left; reflexivity).
    assert (Hdcur : depth vis cur = m) by (apply HA; left; reflexivity).
    assert (Hdepth_le : forall v, visited vis v -> depth vis v <= S m).
    { intros v Hv. apply Hvis in Hv. rewrite in_app_iff in Hv. destruct Hv as [Hv|Hv]; [specialize (Hdn v Hv); lia|].
      rewrite app_assoc, in_app_iff in Hv. destruct Hv as [Hv|Hv]; [rewrite (HA v Hv)|rewrite (HB v Hv)]; lia. }
    destruct (is_some (alookup nx vis)) eqn:Ev.
    + destruct (IH vis dn A B m Hb (fun x Hx => Hl x (or_intror Hx))) as [B2 [vis2 [Hf [Hb2 [Hmono Hall]]]]].
      exists B2, vis2. split; [exact Hf|]. split; [exact Hb2|]. split; [exact Hmono|].
      intros x [<-|Hx]; [|apply Hall; exact Hx].
      destruct (Hmono nx Ev) as [H1 H2]. split; [exact H1|]. rewrite H2. apply Hdepth_le. exact Ev.
    + assert (Hnone : alookup nx vis = None) by (destruct (alookup nx vis); [discriminate|reflexivity]).
      assert (Hedge : edge_to cur nx) by (apply Hl; left; reflexivity).
      set (vis1 := (nx, Some cur) :: vis).
      set (L := dn ++ [cur] ++ A ++ B) in *.
      assert (EL : dn ++ [cur] ++ A ++ (B ++ [nx]) = L ++ [nx])
        by (unfold L; repeat rewrite <- app_assoc; reflexivity).
      assert (HnL : ~ In nx L) by (intros Hin; apply Hvis in Hin; unfold visited in Hin; rewrite Ev in Hin; discriminate).
      assert (Hold : forall v, visited vis v -> visited vis1 v /\ depth vis1 v = depth vis v).
      { intros v Hv. split; [apply visited_cons; right; exact Hv|apply depth_cons_old; assumption]. }
      assert (Hb1 : binv vis1 dn [cur] A (B ++ [nx]) m).
      { split; [apply ok_cons; assumption|]. split; [|split; [|split; [|split; [|split; [|split; [|split]]]]]].
        - intros v. rewrite EL, in_app_iff. unfold vis1. rewrite visited_cons, Hvis. cbn [In]. tauto.
        - rewrite EL. apply nodup_snoc; assumption.
        - intros v. rewrite EL, in_app_iff. intros [Hv|[<-|[]]]; [apply Hlt; exact Hv|].
          destruct Hedge as [w Hw]. apply Hwf in Hw. tauto.
        - intros a Ha. rewrite <- (HA a Ha). apply Hold. apply Hvis. unfold L.
          rewrite in_app_iff. right. rewrite app_assoc, in_app_iff. left; exact Ha.
        - intros b Hb'. apply in_app_iff in Hb'. destruct Hb' as [Hb'|[<-|[]]].
          + rewrite <- (HB b Hb'). apply Hold. apply Hvis. unfold L. rewrite !in_app_iff. auto.
          + unfold vis1. cbn [depth]. rewrite Nat.eqb_refl. rewrite Hdcur. reflexivity.
        - intros u Hu. rewrite (proj2 (Hold u (proj2 (Hvis u) ltac:(unfold L; rewrite in_app_iff; auto)))). apply Hdn; exact Hu.
        - intros u Hu v Hev. destruct (HC u Hu v Hev) as [Hv Hd].
          assert (Huv : visited vis u) by (apply Hvis; unfold L; rewrite in_app_iff; auto).
          rewrite (proj2 (Hold v Hv)), (proj2 (Hold u Huv)). split; [apply Hold; exact Hv|exact Hd].
        - exact Ht. }
      replace ((A ++ B) ++ [nx]) with (A ++ (B ++ [nx])) by (rewrite app_assoc; reflexivity).
      destruct (IH vis1 dn A (B ++ [nx]) m Hb1 (fun x Hx => Hl x (or_intror Hx))) as [B2 [vis2 [Hf [Hb2 [Hmono Hall]]]]].
      exists B2, vis2. split; [exact Hf|]. split; [exact Hb2|]. split.
      * intros v Hv. destruct (Hold v Hv) as [H1 H2]. destruct (Hmono v H1) as [H3 H4]. split; [exact H3|congruence].
      * intros x [<-|Hx]; [|apply Hall; exact Hx].
        assert (Hv1 : visited vis1 nx) by (apply visited_cons; left; reflexivity).
        destruct (Hmono nx Hv1) as [H3 H4]. split; [exact H3|]. rewrite H4. unfold vis1. cbn [depth].
        rewrite Nat.eqb_refl. lia.
Qed.

Lemma pop_regroup : forall vis dn A B m cur q',
  binv vis dn [] A B m -> A ++ B = cur :: q' ->
  exists A' B' m', q' = A' ++ B' /\ binv vis dn [cur] A' B' m'.
Proof.
  intros vis dn A B m cur q' Hb E. destruct A as [|a A'].
  - cbn in E. subst B. exists q', [], (S m). split; [rewrite app_nil_r; reflexivity|].
    destruct Hb as [Hok [Hvis [Hnd [Hlt [HA [HB [Hdn [HC Ht]]]]]]]]. unfold binv. cbn [app] in *.
    rewrite !app_nil_r.
    split; [exact Hok|]. split; [exact Hvis|]. split; [exact Hnd|]. split; [exact Hlt|].
    split; [intros a Ha; apply HB; exact Ha|]. split; [intros b []|].
    split; [intros u Hu; specialize (Hdn u Hu); lia|]. split; [exact HC|exact Ht].
  - cbn in E. inversion E; subst. exists A', B, m. split; [reflexivity|exact Hb].
Qed.

Lemma bfs_loop_opt : forall fuel vis dn A B m,
  binv vis dn [] A B m -> gn g + 2 <= fuel + length dn -> t < gn g ->
  pres_optimal (unitw g) s t (hop_dist g s t) (bfs_loop fuel g t (A ++ B) vis).
Proof.
  induction fuel as [|f IH]; intros vis dn A B m Hb Hfuel Ht.
  - exfalso. pose proof (binv_len _ _ _ _ _ _ Hb) as Hl. rewrite app_length in Hl. lia.
  - cbn [bfs_loop]. destruct (A ++ B) as [|cur q'] eqn:Eq.
    + (* queue empty: t is unreachable *)
      cbn [pres_optimal]. pose proof (hop_dist_spec g s t Hwf Hs Ht) as Hd.
      destruct (hop_dist g s t) as [c0|]; [|reflexivity]. exfalso. cbn in Hd.
      destruct Hd as [[k Hw] _]. apply app_eq_nil in Eq. destruct Eq as [-> ->].
      destruct (frontier_claim _ _ _ _ _ _ Hb k t c0 Hw) as [[Hv _]|[Hne _]]; [|apply Hne; reflexivity].
      destruct Hb as [_ [Hvis [_ [_ [_ [_ [_ [_ Hnt]]]]]]]]. apply Hvis in Hv.
      cbn [app] in Hv. rewrite app_nil_r in Hv. exact (Hnt Hv).
    + destruct (pop_regroup _ _ _ _ _ _ _ Hb Eq) as [A' [B' [m' [-> Hb']]]].
      pose proof Hb' as [Hok [Hvis [Hnd [Hlt [HA [HB [Hdn [HC Hnt]]]]]]]].
      assert (Hcurv : visited vis cur) by (apply Hvis; rewrite !in_app_iff; right; left; left; reflexivity).
      destruct (Nat.eqb_spec cur t) as [->|Hne].
      * (* t reached *)
        destruct (recon_len vis Hok (S (length vis)) t [] Hcurv ltac:(pose proof (depth_lt vis Hok t Hcurv); lia))
          as [p [Hr Hlen]].
        rewrite Hr. cbn [length] in Hlen.
        destruct (recon_sound g s vis t _ t [] p (okvis_inv vis Hok) Hcurv (PC1 _ t) eq_refl Hr) as [Hp [Hh Hla]].
        assert (Hdt : depth vis t = m') by (apply HA; left; reflexivity).
        cbn [pres_optimal]. split; [|split; [exact Hp|split; [exact Hh|exact Hla]]].
        pose proof (hop_dist_spec g s t Hwf Hs Ht) as Hd.
        assert (Hw : walk (unitw g) s t (N.of_nat (length p - 1))).
        { rewrite <- Hla. apply (path_cost_walk (unitw g) p _ Hp s Hh). }
        destruct (hop_dist g s t) as [c0|]; cbn in Hd.
        -- destruct Hd as [[k Hw0] Hmin]. f_equal. specialize (Hmin _ Hw).
           destruct (frontier_claim _ _ _ _ _ _ Hb' k t c0 Hw0) as [[_ Hle]|[_ Hle]]; lia.
        -- exfalso. apply Hd. eexists; exact Hw.
      * destruct (expand_binv cur (map fst (succs g cur)) vis dn A' B' m' Hb') as [B2 [vis2 [Hf [Hb2 [Hmono Hall]]]]].
        { intros x Hx. apply in_map_iff in Hx. destruct Hx as [[x' w] [<- Hx]]. exists w. apply succs_in. exact Hx. }
        rewrite Hf.
        pose proof Hb2 as [Hok2 [Hvis2 [Hnd2 [Hlt2 [HA2 [HB2 [Hdn2 [HC2 _]]]]]]]].
        assert (Hfin : binv vis2 (dn ++ [cur]) [] A' B2 m').
        { assert (EL : (dn ++ [cur]) ++ [] ++ A' ++ B2 = dn ++ [cur] ++ A' ++ B2)
            by (rewrite <- app_assoc; reflexivity).
          split; [exact Hok2|]. split; [intros v; rewrite EL; apply Hvis2|]. split; [rewrite EL; exact Hnd2|].
          split; [intros v; rewrite EL; apply Hlt2|].
          split; [intros a Ha; apply HA2; right; exact Ha|]. split; [exact HB2|].
          split; [|split].
          - intros u Hu. apply in_app_iff in Hu. destruct Hu as [Hu|[<-|[]]]; [apply Hdn2; exact Hu|].
            rewrite (HA2 cur (or_introl eq_refl)). lia.
          - intros u Hu v Hev. apply in_app_iff in Hu. destruct Hu as [Hu|[<-|[]]]; [apply HC2; assumption|].
            rewrite (HA2 cur (or_introl eq_refl)). apply Hall. destruct Hev as [w Hw].
            apply in_map_iff. exists (v, w). split; [reflexivity|apply succs_in; exact Hw].
          - intros Hin. apply in_app_iff in Hin. destruct Hin as [Hin|[E|[]]]; [exact (Hnt Hin)|exact (Hne E)]. }
        apply (IH vis2 (dn ++ [cur]) A' B2 m' Hfin); [rewrite app_length; cbn [length]; lia|exact Ht].
Qed.

End BfsOpt.

(* C26_bfs_optimal *)
Theorem bfs_optimal : forall g s t, wf g -> s < gn g -> t < gn g ->
  pres_optimal (unitw g) s t (hop_dist g s t) (bfs_model g s t).
Proof.
  intros g s t Hwf Hs Ht. unfold bfs_model.
  replace ((s <? gn g) && (t <? gn g)) with true
    by (symmetry; apply andb_true_iff; split; apply Nat.ltb_lt; assumption).
  apply (bfs_loop_opt g s t Hwf Hs (S (S (gn g))) [(s, None)] [] [s] [] 0); [|cbn [length]; lia|exact Ht].
  split; [constructor|]. split; [|split; [|split; [|split; [|split; [|split; [|split]]]]]].
  - intros v. unfold visited. cbn [alookup app In]. destruct (Nat.eqb_spec s v) as [->|Hne]; cbn [is_some].
    + split; [intros _; left; reflexivity|reflexivity].
    + split; [discriminate|intros [E|[]]; contradiction].
  - cbn. constructor; [intros []|constructor].
  - cbn. intros v [<-|[]]. exact Hs.
  - cbn. intros a [<-|[]]. rewrite Nat.eqb_refl. reflexivity.
  - intros b [].
  - intros u [].
  - intros u [].
  - intros [].
Qed.
