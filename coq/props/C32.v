(* C32 — replicated requests have their persistence effect on every replica.
   Property theorems only; proofs live in proofs/RaftSmProofs.v.
   Model: model/RaftSm.v (GraphStateMachine::apply) over model/Persist.v. *)
From Coq Require Import List NArith Bool.
From Verif Require Import Persist PersistProofs RaftSm RaftSmProofs.
Import ListNotations.
Open Scope N_scope.

(* apply is a function of the abstract state (disk, tenant registry, usage counters) and the
   request: equal abstract states give equal responses and equal next abstract states
   (the log and wall-clock timestamps are not part of the abstract state) *)
Theorem C32_deterministic : forall s1 s2 r, abs s1 = abs s2 ->
  abs (fst (apply s1 r)) = abs (fst (apply s2 r)) /\ snd (apply s1 r) = snd (apply s2 r).
Proof. exact apply_deterministic. Qed.

(* hence every request sequence gives, on replicas that start alike (e.g. fresh stores with the
   same tenants), the same responses and identical recovered graphs for every tenant *)
Theorem C32_replicas_agree : forall reqs s1 s2 rs1 rs2 t, abs s1 = abs s2 ->
  snd (apply_all s1 reqs) = snd (apply_all s2 reqs) /\
  fst (recover (reopen (fst (apply_all s1 reqs)) rs1) t) = fst (recover (reopen (fst (apply_all s2 reqs)) rs2) t).
Proof. exact replicas_agree. Qed.

(* and that graph is the effect (creations, deletions and property updates, in order) of the
   requests that were not answered with Error *)
Theorem C32_effect : forall rs reqs s xs rs' t, apply_all (init rs) reqs = (s, xs) ->
  fst (recover (reopen s rs') t) =
  view (fold_left request_effect (acked_requests reqs xs) empty_store) t.
Proof. exact recovered_is_effect. Qed.

(* non-vacuity: labels [] => {""}; duplicate labels collapse; a request refused by quota; an
   update request that must survive; a query *)
Example C32_nonvacuous :
  let reqs := [RCreateNode 0 1 [] [(0, 0)]; RCreateNode 1 5 [2; 1; 2] []; RCreateNode 1 6 [1] [];
               RUpdateNode 0 1 [(0, 5); (1, 2)] 3; RExecuteQuery 0; RCreateEdge 0 9 1 4 0 [];
               RUpdateEdge 0 9 [(2, 3)] 0; RDeleteNode 1 5] in
  let '(s, xs) := apply_all (init [(1, (Some 1, None))]) reqs in
  xs = [RNodeCreated 1; RNodeCreated 5; RError; ROk; RQueryResult 0; REdgeCreated 9; ROk; ROk] /\
  fst (recover (reopen s []) 0) = ([(1, ([0], [(0, 5); (1, 2)]))], [(9, (1, 4, 0, [(2, 3)]))]) /\
  fst (recover (reopen s []) 1) = ([], []).
Proof. vm_compute. repeat split. Qed.

Print Assumptions C32_deterministic.
Print Assumptions C32_replicas_agree.
Print Assumptions C32_effect.
