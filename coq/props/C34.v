(* C34 -- optimization solvers return consistent, in-bounds, reproducible results.
   Property theorems only; proofs live in proofs/SolverProofs.v.

   PARTIAL by design: the theorems are about the elitist search skeleton of
   model/Solver.v, for EVERY candidate oracle (RNG + update rule), objective,
   box, seed, population size and iteration count.  That each of the 29 Rust
   solvers is an instance of the skeleton is not proved (there is no Gallina
   semantics of the Rust code); it is checked on every run by trace refinement
   (harness/src/bin/c34.rs + Solver.check_case). *)
From Coq Require Import List ZArith NArith Bool Sorted.
From Verif Require Import Solver SolverProofs.
Import ListNotations.
Open Scope Z_scope.

(* the full claim: every real solver has the property.  Unproved: needs the
   refinement premise of C34_partial for each real solver. *)
Definition C34_full (real_solver : solver_sem -> Prop) : Prop :=
  forall solve, real_solver solve -> solver_property solve.

(* proved part: whatever refines the skeleton (for some oracle and replacement policy)
   never panics on a proper box (lower <= upper pointwise, pinned variables allowed),
   returns a best point inside the box whose fitness is the reported one, a history
   that never gets worse and ends no better than the reported best, and the same
   result whatever the number of worker threads *)
Theorem C34_partial : forall real_solver : solver_sem -> Prop,
  (forall solve, real_solver solve -> refines_skeleton solve) -> C34_full real_solver.
Proof. intros rs H solve Hs. apply skeleton_instances. apply H. exact Hs. Qed.

(* on every box with lower <= upper pointwise the run completes and the archive best,
   the population best, every population member and every evaluated candidate
   are inside the box *)
Theorem C34_in_bounds : forall f bounds init_raw cand_raw accept seed n iters,
  proper_box bounds -> (0 < n)%nat ->
  exists s, run f bounds init_raw cand_raw accept seed n iters = Ok s /\
    in_box bounds (vars (arch s)) /\ in_box bounds (vars (pop_best s)) /\
    Forall (fun i => in_box bounds (vars i)) (pop s) /\
    Forall (fun i => in_box bounds (vars i)) (evals s).
Proof. exact in_bounds_total. Qed.

(* an inverted coordinate (upper < lower) makes every run panic in the initial draw
   (gen_range: "cannot sample empty range"), before any clamp is reached *)
Theorem C34_inverted_box_panics : forall f bounds init_raw cand_raw accept seed n iters,
  inverted_box bounds -> (0 < n)%nat ->
  run f bounds init_raw cand_raw accept seed n iters = Panic EmptyRange.
Proof. exact inverted_box_panics. Qed.

(* the library calls themselves: gen_range on an empty range (the degenerate
   lower == upper draw before the repair; any inverted range) and clamp with min > max *)
Theorem C34_gen_range_empty_panics : forall r lo hi, hi <= lo -> gen_range r lo hi = Panic EmptyRange.
Proof. exact gen_range_empty. Qed.

Theorem C34_clamp_inverted_panics : forall x lo hi, hi < lo <-> clamp x lo hi = Panic ClampInverted.
Proof. exact clamp_inverted. Qed.

(* the repaired draw pins a degenerate variable *)
Theorem C34_sample_degenerate : forall r lo, sample r lo lo = Ok lo.
Proof. exact sample_degenerate. Qed.

(* best_fitness = f best_variables, and the best is one of the evaluated candidates *)
Theorem C34_best_consistent : forall f bounds init_raw cand_raw accept seed n iters s,
  run f bounds init_raw cand_raw accept seed n iters = Ok s ->
  fit (arch s) = f (vars (arch s)) /\ fit (pop_best s) = f (vars (pop_best s)) /\
  In (arch s) (evals s) /\ In (pop_best s) (evals s).
Proof. exact best_consistent. Qed.

(* best-so-far never worsens (any replacement policy), and the returned best is no worse
   than any recorded value *)
Theorem C34_history_monotone : forall f bounds init_raw cand_raw accept seed n iters s,
  run f bounds init_raw cand_raw accept seed n iters = Ok s ->
  StronglySorted (fun a b => b <= a) (hist s) /\ Forall (fun h => fit (arch s) <= h) (hist s).
Proof. exact history_monotone. Qed.

(* with greedy per-individual replacement the POPULATION best has the same history *)
Theorem C34_history_monotone_greedy : forall f bounds init_raw cand_raw seed n iters s,
  run f bounds init_raw cand_raw greedy seed n iters = Ok s ->
  StronglySorted (fun a b => b <= a) (phist s) /\ Forall (fun h => fit (pop_best s) <= h) (phist s) /\
  phist s = hist s /\ fit (pop_best s) = fit (arch s).
Proof. exact history_monotone_greedy. Qed.

(* replay law used by the correspondence check: history entry g is the running minimum of
   the evaluations made before it; the final best is the minimum of all evaluations *)
Theorem C34_history_is_running_minimum : forall f bounds init_raw cand_raw accept seed n iters s,
  run f bounds init_raw cand_raw accept seed n iters = Ok s ->
  Forall2 (fun h p => (p <= length (evals s))%nat /\ prefix_min (map fit (evals s)) p = Some h)
          (hist s) (hpos s) /\
  pmin (map fit (evals s)) = Some (fit (arch s)).
Proof. exact hist_is_prefix_min. Qed.

(* the returned front: no member is dominated by another, every non-dominated member of the
   population is in it, it is a sub-list of the population, and the rank-0 pass of the fast
   non-dominated sort (with its if / else-if and j <> i skip) computes exactly it *)
Theorem C34_front_nondominated : forall l,
  (forall x y, In x (front l) -> In y (front l) -> dominates y x = false) /\
  (forall x, In x l -> (forall y, In y l -> dominates y x = false) -> In x (front l)) /\
  (forall x, In x (front l) -> In x l) /\
  fnds_front l = front l.
Proof. exact front_nondominated. Qed.

(* a generation is a map over the indices of a function of (seed, iter, idx) and the previous
   population: computed by parts in any order / partition (overlaps allowed) it is the same *)
Theorem C34_sched_independent : forall f bounds cand_raw parts seed iter prev,
  (forall i, (i < length prev)%nat -> In i (concat parts)) ->
  candidates_sched f bounds cand_raw parts seed iter prev = candidates f bounds cand_raw seed iter prev.
Proof. exact sched_independent. Qed.

(* ---- non-vacuity ---- *)
Definition ex_f (x : point) : Z := fold_right (fun v a => v * v + a) 0 x.
Definition ex_bounds : list (Z * Z) := [(-50, 70); (3, 3); (-9, 400)].
Definition ex_init (seed : N) (idx j : nat) : Z := Z.of_N seed * 37 + Z.of_nat idx * 101 + Z.of_nat j * 13.
Definition ex_cand (seed : N) (iter idx : nat) (prev : list ind) (j : nat) : Z :=
  nth j (vars (nth idx prev {| vars := []; fit := 0 |})) 0 / 2
  - Z.of_nat iter + Z.of_nat (idx * j) - 900 * Z.of_nat (Nat.modulo (idx + iter) 2).

(* a box with a pinned and two asymmetric coordinates; raw candidates leave the box and are
   clamped; the history strictly improves twice; the final best (74) beats the last entry *)
Example C34_nonvacuous_run :
  proper_box ex_bounds /\
  exists s, run ex_f ex_bounds ex_init ex_cand greedy 5%N 4 5 = Ok s /\
    hist s = [563; 154; 154; 77; 77] /\ phist s = hist s /\ archive_result s = ([-8; 3; 1], 74, hist s) /\
    length (evals s) = 24%nat /\ hpos s = [4; 8; 12; 16; 20]%nat.
Proof. split; [repeat constructor; cbn; discriminate|]. eexists. split; [vm_compute; reflexivity|]. vm_compute. repeat split; reflexivity. Qed.

(* non-greedy replacement (always accept): the archive history is still monotone while the
   population itself loses its best (747 > 701) -- why population-best solvers need greedy
   replacement or a carried elite for the monotonicity claim *)
Example C34_nonvacuous_archive :
  exists s, run ex_f ex_bounds ex_init ex_cand (fun _ _ => true) 7%N 3 3 = Ok s /\
    hist s = [7371; 2078; 701] /\ fit (arch s) = 701 /\ fit (pop_best s) = 747.
Proof. eexists. split; [vm_compute; reflexivity|]. vm_compute. repeat split; reflexivity. Qed.

Example C34_nonvacuous_inverted :
  inverted_box [(0, 5); (7, 2)] /\
  run ex_f [(0, 5); (7, 2)] ex_init ex_cand greedy 5%N 4 5 = Panic EmptyRange.
Proof. split; [right; left; cbn; reflexivity | vm_compute; reflexivity]. Qed.

Example C34_nonvacuous_front :
  front [([1; 5], 0); ([2; 2], 0); ([3; 3], 0); ([0; 0], 4); ([2; 2], 0)]
  = [([1; 5], 0); ([2; 2], 0); ([2; 2], 0)].
Proof. vm_compute. reflexivity. Qed.

Example C34_nonvacuous_sched :
  let prev := [{| vars := [4; 3; 8]; fit := 89 |}; {| vars := [-6; 3; 2]; fit := 49 |};
               {| vars := [60; 3; 0]; fit := 3609 |}; {| vars := [1; 3; 1]; fit := 11 |}] in
  (forall i, (i < length prev)%nat -> In i (concat [[3; 1]; [2; 0; 1]]%nat)) /\
  candidates_sched ex_f ex_bounds ex_cand [[3; 1]; [2; 0; 1]]%nat 5%N 2 prev =
  Ok (map (fun x => {| vars := x; fit := ex_f x |}) [[0; 3; 2]; [-50; 3; -9]; [28; 3; 2]; [-50; 3; -9]]).
Proof.
  split; [|vm_compute; reflexivity].
  intros i Hi. cbn in Hi. cbn. destruct i as [|[|[|[|i]]]]; auto 10. exfalso. do 4 apply Nat.succ_lt_mono in Hi. inversion Hi.
Qed.

Print Assumptions C34_partial.
Print Assumptions C34_in_bounds.
Print Assumptions C34_inverted_box_panics.
Print Assumptions C34_gen_range_empty_panics.
Print Assumptions C34_clamp_inverted_panics.
Print Assumptions C34_sample_degenerate.
Print Assumptions C34_best_consistent.
Print Assumptions C34_history_monotone.
Print Assumptions C34_history_monotone_greedy.
Print Assumptions C34_history_is_running_minimum.
Print Assumptions C34_front_nondominated.
Print Assumptions C34_sched_independent.
