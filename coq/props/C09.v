(* C09 — transactions commit first-committer-wins with increasing versions.
   Property theorems only; proofs live in proofs/TxnProofs.v.

   Vocabulary (model/Txn.v, proofs/TxnProofs.v):
     run ops / grun ops   the store state after the call sequence ops (any sequence of
                          begin / txn_write_node / txn_write_edge / commit / abort /
                          gc_versions / gc_auto calls, any ids -- i.e. every interleaving
                          of every set of per-transaction scripts, see C09_interleave_complete);
                          grun also keeps the abstract specification: the log of successful
                          commits (who, version, write sets), which never reads the
                          implementation's node_last_commit / edge_last_commit maps.
     active s t           t is in the table with status Active
     finished s t         t is in the table with another status
     blocked s g t        some *other* transaction has a record in the commit log g with a
                          version above t's start version and a node or relationship in
                          common with t's write sets
     C09_after_begin      "version above t's start version" is exactly "committed after t began". *)
From Coq Require Import List NArith Bool Sorted.
From Verif Require Import Txn TxnProofs.
Import ListNotations.
Open Scope N_scope.

(* commit succeeds iff the transaction is active and no other transaction committed a write
   to any entity of its write set after it began; the three refusals are classified too *)
Theorem C09_commit_iff : forall ops t,
  let s := fst (grun ops) in let g := snd (grun ops) in
  ((exists v, snd (commit s t) = ROk v) <-> active s t /\ ~ blocked s g t) /\
  (snd (commit s t) = RConflict <-> active s t /\ blocked s g t) /\
  (snd (commit s t) = RNotActive <-> finished s t) /\
  (snd (commit s t) = RNotFound <-> lookup t (txns s) = None).
Proof. exact commit_iff. Qed.

(* the commit records with a version above the start version of the transaction begun at
   some point of a history are exactly the commits that happen after that point *)
Theorem C09_after_begin : forall ops1 i ops2,
  let s1 := fst (grun ops1) in
  let g1 := snd (grun ops1) in
  let g := snd (grun (ops1 ++ Begin i :: ops2)) in
  exists gnew, g = gnew ++ g1 /\
    (forall c, In c g1 -> c_ver c <= cur s1) /\
    (forall c, In c gnew -> cur s1 < c_ver c).
Proof. exact after_begin. Qed.

(* the versions returned by the successful commits of any history are strictly increasing,
   and each is above current_version before it and is current_version after it *)
Theorem C09_versions_strict : forall ops,
  StronglySorted N.lt (ok_versions (trace init ops)) /\
  forall pre t v, snd (commit (run pre) t) = ROk v ->
                  cur (run pre) < v /\ cur (fst (commit (run pre) t)) = v.
Proof. exact versions_strict. Qed.

(* once a commit or abort has been attempted on an existing transaction (whatever the
   outcome: committed, conflict-aborted, aborted, already finished), every later commit or
   abort of it, after any further history, is refused and changes nothing *)
Theorem C09_final : forall ops1 o ops2 o' t,
  is_end o t -> is_end o' t ->
  snd (step (run ops1) o) <> RNotFound ->
  refused (snd (step (run (ops1 ++ o :: ops2)) o')) /\
  fst (step (run (ops1 ++ o :: ops2)) o') = run (ops1 ++ o :: ops2).
Proof. exact final. Qed.

(* read version: the transaction begun after ops1 gets the id next; as long as it is in the
   table (always while Active) ReadCommitted reads at the current version and
   SnapshotIsolation at the version that was current when it began *)
Theorem C09_read_version : forall ops1 i ops2,
  let s1 := run ops1 in
  let t := next s1 in
  let s := run (ops1 ++ Begin i :: ops2) in
  snd (step s1 (Begin i)) = RBegin t /\
  (forall x, lookup t (txns s) = Some x ->
     read_version s t = Some (match i with RC => cur s | SI => cur s1 end)) /\
  (active s t -> read_version s t <> None).
Proof. exact read_version_rule. Qed.

(* the theorems above quantify over every call sequence; every call sequence is an
   interleaving (Merge) of its per-owner projections for any assignment of calls to n
   owners (transactions / clients), so they cover every interleaving of every family of
   per-transaction scripts; conversely a Merge contains exactly the scripts' calls *)
Theorem C09_interleave_complete : forall (A : Type) (f : A -> nat) (n : nat) (l : list A),
  (forall x, In x l -> (f x < n)%nat) -> Merge (map (proj f l) (seq 0 n)) l.
Proof. exact @interleave_complete. Qed.

Theorem C09_merge_elements : forall (A : Type) (ss : list (list A)) l,
  Merge ss l -> forall x, In x l <-> In x (concat ss).
Proof. exact @merge_elements. Qed.

(* ---- non-vacuity ---- *)
Definition ex_ops : list op :=
  [Begin SI; Begin RC; WriteN 1 5; WriteE 1 7; WriteE 2 7; Commit 2].

(* transaction 1 is active and blocked (2, which began later, committed relationship 7):
   conflict; a third transaction writing node 7 (not relationship 7) commits *)
Example C09_nonvacuous_commit :
  let s := fst (grun ex_ops) in let g := snd (grun ex_ops) in
  active s 1 /\ blocked s g 1 /\ snd (commit s 1) = RConflict /\
  finished s 2 /\ snd (commit s 2) = RNotActive /\ snd (commit s 9) = RNotFound /\
  let s' := fst (grun (ex_ops ++ [Begin SI; WriteN 3 7])) in
  let g' := snd (grun (ex_ops ++ [Begin SI; WriteN 3 7])) in
  active s' 3 /\ snd (commit s' 3) = ROk 3.
Proof.
  cbv zeta. repeat split; try (vm_compute; reflexivity).
  - eexists. split; vm_compute; reflexivity.
  - eexists. exists {| c_txn := 2; c_ver := 2; c_wn := []; c_we := [7] |}.
    split; [vm_compute; reflexivity|]. split; [vm_compute; auto|]. split; [discriminate|].
    split; [vm_compute; reflexivity|]. right. exists 7. split; vm_compute; auto.
  - eexists. split; [vm_compute; reflexivity|]. vm_compute. discriminate.
  - eexists. split; vm_compute; reflexivity.
Qed.

Example C09_nonvacuous_after_begin :
  snd (grun ([Begin RC; Commit 1] ++ Begin SI :: [Begin RC; Commit 3])) =
  [{| c_txn := 3; c_ver := 3; c_wn := []; c_we := [] |}] ++ snd (grun [Begin RC; Commit 1]).
Proof. vm_compute. reflexivity. Qed.

Example C09_nonvacuous_versions :
  ok_versions (trace init (ex_ops ++ [Commit 1; Begin RC; Commit 3])) = [2; 3] /\
  snd (commit (run [Begin RC]) 1) = ROk 2.
Proof. vm_compute. split; reflexivity. Qed.

Example C09_nonvacuous_final :
  is_end (Commit 1) 1 /\ is_end (Abort 1) 1 /\
  snd (step (run ex_ops) (Commit 1)) = RConflict /\
  snd (step (run (ex_ops ++ Commit 1 :: [Begin RC])) (Abort 1)) = RNotActive.
Proof. repeat split; try (left; reflexivity); try (right; reflexivity); vm_compute; reflexivity. Qed.

Example C09_nonvacuous_read :
  let s := run ([Begin RC; Commit 1] ++ Begin SI :: [Begin RC; Commit 3]) in
  next (run [Begin RC; Commit 1]) = 2 /\ active s 2 /\ read_version s 2 = Some 2 /\ cur s = 3 /\
  read_version (run ([Begin RC; Commit 1] ++ Begin RC :: [Begin RC; Commit 3])) 2 = Some 3.
Proof.
  cbv zeta. repeat split; try (vm_compute; reflexivity).
  eexists. split; vm_compute; reflexivity.
Qed.

Example C09_nonvacuous_merge :
  Merge [[1; 3]; [2]] [1; 2; 3].
Proof.
  apply (Merge_cons [] [3] [[2]] 1). apply (Merge_cons [[3]] [] [] 2).
  apply (Merge_cons [] [] [[]] 3). constructor. repeat constructor.
Qed.

Print Assumptions C09_commit_iff.
Print Assumptions C09_after_begin.
Print Assumptions C09_versions_strict.
Print Assumptions C09_final.
Print Assumptions C09_read_version.
Print Assumptions C09_interleave_complete.
Print Assumptions C09_merge_elements.
