(* C27 — iterative graph algorithms follow their specified iteration.
   Property theorems only; proofs live in proofs/IterativeProofs.v.

   PageRank is modelled over exact rationals (model/Iterative.v); the implementation's f64
   arithmetic is VALIDATED against it within 1e-9 by the correspondence check, not proved
   (no rounding-error bound) — see checks/C27.json "partial".  CDLP is exact. *)
From Coq Require Import List NArith ZArith QArith Bool Arith.
From Verif Require Import Iterative IterativeProofs.
Import ListNotations.

(* with dangling redistribution the scores sum to one after every run: every graph (parallel
   edges and self-loops included), every damping factor, iteration count and tolerance *)
Theorem C27_pr_mass : forall n es d iterations tol, (0 < n)%nat -> wf_edges n es ->
  length (page_rank n es d iterations tol true) = n /\
  qsum (page_rank n es d iterations tol true) == 1.
Proof. exact page_rank_mass. Qed.

(* ... because a single iteration conserves the mass of any score vector *)
Theorem C27_pr_mass_step : forall n es d s, (0 < n)%nat -> wf_edges n es -> length s = n ->
  qsum s == 1 -> qsum (pr_step n es d true s) == 1.
Proof. exact pr_step_mass. Qed.

(* one iteration is the LDBC Graphalytics formula
   PR'(i) = (1-d)/N + d * ( sum_{u -> i} PR(u)/out(u)  +  [dangling] sum_{out(u)=0} PR(u) / N ) *)
Theorem C27_pr_step_def : forall n es d dangling s i, (i < n)%nat ->
  nth i (pr_step n es d dangling s) 0 ==
  (1 - d) / qn n
  + d * (qsum (map (fun u => sget s u / qn (outdeg es u)) (ipreds es i))
         + (if dangling
            then qsum (map (fun u => if (outdeg es u =? 0)%nat then sget s u else 0) (seq 0 n)) / qn n
            else 0)).
Proof. exact pr_step_def. Qed.

(* a CDLP step gives node v the smallest among the most frequent labels of its out- and
   in-neighbours (one vote per edge); a node without neighbours keeps its label *)
Theorem C27_cdlp_step_spec : forall n es lab v, (v < n)%nat ->
  nth v (cdlp_step n es lab) 0%N = cdlp_label es lab v /\
  match nbr_labels es lab v with
  | [] => cdlp_label es lab v = lget lab v
  | ls => In (cdlp_label es lab v) ls /\
          forall y, In y ls ->
            (cnt y ls <= cnt (cdlp_label es lab v) ls)%nat /\
            (cnt y ls = cnt (cdlp_label es lab v) ls -> (cdlp_label es lab v <= y)%N)
  end.
Proof. exact cdlp_step_spec. Qed.

Theorem C27_cdlp_votes : forall es lab v,
  nbr_labels es lab v = map (lget lab) (isuccs es v) ++ map (lget lab) (ipreds es v).
Proof. exact nbr_labels_def. Qed.

(* a synchronous step reads the previous labelling only: computing the nodes in ANY order
   (any partition over threads, repeats allowed) into a buffer with ANY stale contents gives
   the same labelling *)
Theorem C27_cdlp_sync : forall n es lab order buf,
  length buf = n -> (forall v, (v < n)%nat -> In v order) ->
  cdlp_step_sched es lab order buf = cdlp_step n es lab.
Proof. exact cdlp_sched_independent. Qed.

(* ---- stated, not proved ----------------------------------------------------------- *)
(* What is missing for the full property: that the f64 implementation stays within a bound of
   the exact iteration.  [impl] stands for the real-number value of the f64 scores the code
   returns; the statement for the actual code needs an IEEE model of pagerank.rs and a
   rounding-error analysis, which is not built.  It is validated per run by the check instead. *)
Definition C27_full_for (impl : nat -> list iedge -> Q -> nat -> Q -> bool -> list Q) : Prop :=
  forall n es d it tol b i, (i < n)%nat -> wf_edges n es ->
    Qabs.Qabs (nth i (impl n es d it tol b) 0 - nth i (page_rank n es d it tol b) 0) <= pr_eps.

(* ---- non-vacuity ------------------------------------------------------------------- *)

(* 4 nodes, a parallel edge, a self-loop and a dangling node (3): the default configuration
   sums to one; an out-of-order schedule with a stale buffer equals the synchronous step *)
Definition ex_es : list iedge := [(0, 1); (0, 1); (0, 2); (1, 2); (2, 0); (2, 2); (2, 3)]%nat.
Example C27_nonvacuous :
  wf_edges 4 ex_es /\
  qsum (page_rank 4 ex_es (17 # 20) 20 (1 # 10000) true) == 1 /\
  ~ qsum (page_rank 4 ex_es (17 # 20) 20 (1 # 10000) false) == 1 /\
  cdlp_step 4 ex_es [40; 10; 30; 20]%N = [10; 40; 30; 30]%N /\
  cdlp_step_sched ex_es [40; 10; 30; 20]%N [3; 1; 0; 2; 1]%nat [7; 7; 7; 7]%N = [10; 40; 30; 30]%N /\
  cdlp 4 ex_es [40; 10; 30; 20]%N 10 = ([30; 10; 30; 30]%N, 10%N).
Proof.
  split.
  - intros e He. cbn in He.
    repeat (destruct He as [<-|He]; [cbn; split; repeat constructor|]). destruct He.
  - vm_compute. repeat split; try reflexivity. discriminate.
Qed.

Print Assumptions C27_pr_mass.
Print Assumptions C27_pr_mass_step.
Print Assumptions C27_pr_step_def.
Print Assumptions C27_cdlp_step_spec.
Print Assumptions C27_cdlp_sync.
