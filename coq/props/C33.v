(* C33 — cluster health claims quorum only with a majority of distinct voters.
   Property theorems only; proofs live in proofs/ClusterProofs.v. *)
From Coq Require Import List NArith Bool.
From Verif Require Import Cluster ClusterProofs.
Import ListNotations.

(* healthy  <->  strict majority of the DISTINCT voter ids is active, and a leader is known;
   for every configuration list (duplicates, learners, any size), every active set. *)
Theorem C33_majority : forall c act rl,
  healthy (health_of c act rl) = true <->
  (2 * length (active_in act (voter_ids c)) > length (voter_ids c))%nat
  /\ (exists p, In p rl /\ snd p = Leader).
Proof. exact healthy_iff. Qed.

(* the voter set the count ranges over is exactly the set of voting members, once each *)
Theorem C33_distinct_voters : forall c,
  NoDup (voter_ids c) /\
  forall x, In x (voter_ids c) <-> exists n, In n c /\ nvoter n = true /\ nid n = x.
Proof. exact distinct_voters. Qed.

(* quorum intersection, all sizes *)
Theorem C33_intersection : forall c a1 r1 a2 r2,
  healthy (health_of c a1 r1) = true ->
  healthy (health_of c a2 r2) = true ->
  exists x, In x a1 /\ In x a2 /\ In x (voter_ids c).
Proof. exact quorum_intersection. Qed.

(* every reachable manager state (any initial membership, any history of
   add/remove/heartbeat/role operations) keeps member ids and the active set duplicate-free,
   and its health report satisfies the majority law *)
Theorem C33_all_histories : forall l ops,
  let s := run l ops in
  NoDup (active s) /\ NoDup (map nid (nodes s)) /\
  (healthy (health_status s) = true ->
   (2 * length (active_in (active s) (voter_ids (nodes s))) > length (voter_ids (nodes s)))%nat
   /\ has_leader (health_status s) = true).
Proof. exact all_histories. Qed.

(* non-vacuity: a membership with a repeated id, one learner, history with a
   removal; healthy with 2 of 3 distinct voters, not healthy with the repeated id alone *)
Example C33_nonvacuous :
  let s := run [(1,true);(1,true);(2,true);(3,true);(4,false)]%N
               [MarkActive 1; SetRole 1 Leader; MarkActive 2; RemoveNode 4]%N in
  healthy (health_status s) = true /\
  healthy (health_status (run [(1,true);(1,true);(2,true)]%N [MarkActive 1; SetRole 1 Leader]%N)) = false.
Proof. vm_compute. split; reflexivity. Qed.

Print Assumptions C33_majority.
Print Assumptions C33_distinct_voters.
Print Assumptions C33_intersection.
Print Assumptions C33_all_histories.
