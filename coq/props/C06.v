(* C06 — graph store read views always agree with the graph that was built.
   Property theorems only; proofs live in proofs/GraphStoreProofs.v.
   [Inv] is the agreement invariant between the redundant representations of the store
   (node arena, compact edge arrays, column rows, write-buffer and frozen adjacency in
   both directions, free lists, label index, edge-type index, tombstone counter);
   [abs] maps a store to the logical graph; [lg_*] are the views of the logical graph. *)
From Coq Require Import List NArith Bool Permutation.
From Verif Require Import GraphStore GraphStoreProofs.
Import ListNotations.
Open Scope N_scope.

(* the invariant holds initially and is preserved by every operation (any arguments,
   valid or not, any allocation hint) *)
Theorem C06_inv_init : Inv init.
Proof. exact Inv_init. Qed.
Theorem C06_inv_preserved : forall s o, Inv s -> Inv (fst (step s o)).
Proof. exact Inv_step. Qed.
Theorem C06_inv_all_histories : forall ops, Inv (run ops).
Proof. exact Inv_run. Qed.

(* every operation acts on the logical graph exactly as its specification [lg_step] says *)
Theorem C06_refines : forall s o, Inv s ->
  lg_equiv (abs (fst (step s o))) (lg_step (abs s) o (snd (step s o))).
Proof. exact refines. Qed.
Theorem C06_refines_all_histories : forall ops o,
  lg_equiv (abs (fst (step (run ops) o))) (lg_step (abs (run ops)) o (snd (step (run ops) o))).
Proof. intros ops o. apply refines, Inv_run. Qed.

(* one theorem per read view: view of the store = view of the logical graph (as bags) *)
Theorem C06_get_node : forall s n, get_node s n = lnodes (abs s) n.
Proof. reflexivity. Qed.
Theorem C06_get_edge : forall s e, get_edge (es s) e = lrels (abs s) e.
Proof. reflexivity. Qed.
Theorem C06_outgoing : forall s, Inv s -> forall n,
  Permutation (outgoing_edges s n) (lg_outgoing (abs s) (next_edge (es s)) n).
Proof. exact view_outgoing. Qed.
Theorem C06_incoming : forall s, Inv s -> forall n,
  Permutation (incoming_edges s n) (lg_incoming (abs s) (next_edge (es s)) n).
Proof. exact view_incoming. Qed.
Theorem C06_out_targets : forall s, Inv s -> forall n,
  Permutation (out_targets s n) (lg_outgoing (abs s) (next_edge (es s)) n).
Proof. intros s I n. rewrite (view_out_targets s I n). now apply view_outgoing. Qed.
Theorem C06_in_sources : forall s, Inv s -> forall n,
  Permutation (in_sources s n) (lg_incoming (abs s) (next_edge (es s)) n).
Proof. intros s I n. rewrite (view_in_sources s I n). now apply view_incoming. Qed.
Theorem C06_degree_for_type : forall s, Inv s -> forall n t,
  out_degree s n t = lg_out_degree (abs s) (next_edge (es s)) n t /\
  in_degree s n t = lg_in_degree (abs s) (next_edge (es s)) n t.
Proof. intros s I n t. split; [now apply view_out_degree | now apply view_in_degree]. Qed.
Theorem C06_edges_between : forall s, Inv s -> forall a b ty,
  Permutation (edges_between s a b ty) (lg_between (abs s) (next_edge (es s)) a b ty).
Proof. exact view_edges_between. Qed.
Theorem C06_nodes_by_label : forall s, Inv s -> forall l,
  Permutation (nodes_by_label s l) (lg_by_label (abs s) (next_node (ns s)) l).
Proof. exact view_nodes_by_label. Qed.
(* outside the bulk-load window (no stub edge since the last finish_bulk_load) *)
Theorem C06_edges_by_type : forall s, Inv s -> forall t, tstale (es s) = false ->
  Permutation (edges_by_type s t) (lg_by_type (abs s) (next_edge (es s)) t).
Proof. exact view_edges_by_type. Qed.
Theorem C06_counts : forall s, Inv s ->
  node_count s = lg_node_count (abs s) (next_node (ns s)) /\
  edge_count s = lg_edge_count (abs s) (next_edge (es s)).
Proof. intros s I. split; [now apply view_node_count | now apply view_edge_count]. Qed.

(* no relationship dangles from a missing node *)
Theorem C06_no_dangling : forall s, Inv s -> forall e a b t p,
  lrels (abs s) e = Some (a, b, t, p) -> lnodes (abs s) a <> None /\ lnodes (abs s) b <> None.
Proof. exact view_no_dangling. Qed.

(* a (re)used id never inherits anything: just before it is handed out it names no node /
   relationship, its column row is empty, no relationship touches it, and no write-buffer
   adjacency entry mentions it; by C06_refines the new entity is exactly what was asked for *)
Theorem C06_no_inherit_node : forall s hint ls ps cols n' id,
  Inv s -> create_node (ns s) hint ls ps cols = (n', id) ->
  lnodes (abs s) id = None /\ ncols (ns s) id = [] /\
  (forall e a b t p, lrels (abs s) e = Some (a, b, t, p) -> a <> id /\ b <> id).
Proof. exact fresh_node. Qed.
Theorem C06_no_inherit_edge : forall s hint a b t ps stub es' id,
  Inv s -> add_edge (es s) hint a b t ps stub = (es', id) ->
  lrels (abs s) id = None /\ ecols (es s) id = [] /\ eprops (es s) id = None /\
  ~ In id (map a_eid (bout (es s) ++ bin (es s))).
Proof. exact fresh_edge. Qed.

(* lifted to all histories: after any sequence of operations every view agrees *)
Theorem C06_all_histories : forall ops,
  let s := run ops in
  (forall n, Permutation (outgoing_edges s n) (lg_outgoing (abs s) (next_edge (es s)) n)) /\
  (forall n, Permutation (incoming_edges s n) (lg_incoming (abs s) (next_edge (es s)) n)) /\
  (forall n t, out_degree s n t = lg_out_degree (abs s) (next_edge (es s)) n t) /\
  (forall n t, in_degree s n t = lg_in_degree (abs s) (next_edge (es s)) n t) /\
  (forall a b ty, Permutation (edges_between s a b ty) (lg_between (abs s) (next_edge (es s)) a b ty)) /\
  (forall l, Permutation (nodes_by_label s l) (lg_by_label (abs s) (next_node (ns s)) l)) /\
  (tstale (es s) = false ->
   forall t, Permutation (edges_by_type s t) (lg_by_type (abs s) (next_edge (es s)) t)) /\
  node_count s = lg_node_count (abs s) (next_node (ns s)) /\
  edge_count s = lg_edge_count (abs s) (next_edge (es s)) /\
  (forall e a b t p, lrels (abs s) e = Some (a, b, t, p) ->
     lnodes (abs s) a <> None /\ lnodes (abs s) b <> None).
Proof.
  intros ops s. pose proof (Inv_run ops) as I. fold s in I.
  split; [intros; now apply view_outgoing|].
  split; [intros; now apply view_incoming|].
  split; [intros; now apply view_out_degree|].
  split; [intros; now apply view_in_degree|].
  split; [intros; now apply view_edges_between|].
  split; [intros; now apply view_nodes_by_label|].
  split; [intros; now apply view_edges_by_type|].
  split; [now apply view_node_count|].
  split; [now apply view_edge_count|].
  intros e a b t p H. eapply view_no_dangling; eauto.
Qed.

(* non-vacuity: the order named by the property - compaction, then a delete, then new
   relationships (the frozen id 1 is retired, not reused), a second segment, a node
   delete with id reuse and a stub load - reaches a state with a frozen tombstone, two
   live relationships, one of them frozen, and all counts right *)
Example C06_nonvacuous :
  let s := run [CreateNode 1 [0]; CreateNode 2 [1]; CreateNode 3 [2]; CreateEdgeP 1 1 2 0 [(0, 3)];
                Compact; DeleteEdge 1; CreateEdge 2 3 3 1; CreateEdge 3 1 3 0; Compact;
                DeleteNode 2; CreateNode 2 [0]; CreateEdgeStub 4 2 1 2; FinishBulk] in
  fdead (es s) = 1 /\ edge_count s = 3 /\ node_count s = 3 /\
  outgoing_edges s 1 = [(3, 1, 3, 0)] /\ incoming_edges s 1 = [(4, 2, 1, 2)] /\
  edges_between s 1 2 None = [] /\ get_edge (es s) 1 = None /\ tstale (es s) = false.
Proof. vm_compute. repeat split; reflexivity. Qed.

Print Assumptions C06_inv_preserved.
Print Assumptions C06_inv_all_histories.
Print Assumptions C06_refines.
Print Assumptions C06_all_histories.
Print Assumptions C06_edges_between.
Print Assumptions C06_edges_by_type.
Print Assumptions C06_counts.
Print Assumptions C06_no_inherit_node.
Print Assumptions C06_no_inherit_edge.
