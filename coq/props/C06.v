(* C06 — graph store read views always agree with the graph that was built.
   Property theorems only; proofs live in proofs/GraphStoreProofs.v.
   [Inv] is the agreement invariant between the redundant representations of the store
   (node arena, compact edge arrays, column rows, write-buffer and frozen adjacency in
   both directions, free lists, label index, edge-type index, tombstone counter);
   [abs] maps a store to the logical graph; [lg_*] are the views of the logical graph. *)
From Coq Require Import List NArith Bool Permutation.
From Verif Require Import GraphStore BinSearchProofs GraphStoreProofs.
Import ListNotations.
Open Scope N_scope.

(* the invariant holds initially and is preserved by every operation (any arguments,
   valid or not, any allocation hint) *)
Theorem C06_inv_init : Inv init.
Proof. exact Inv_init. Qed.
Theorem C06_inv_preserved : forall s o, Inv s -> Inv (fst (step s o)).
Proof. exact Inv_step. Qed.
Theorem C06_inv_all_histories : forall ops, Inv (run ops).
Proof. exact Inv_run. Qed.

(* every operation acts on the logical graph exactly as its specification [lg_step] says *)
Theorem C06_refines : forall s o, Inv s ->
  lg_equiv (abs (fst (step s o))) (lg_step (abs s) o (snd (step s o))).
Proof. exact refines. Qed.
Theorem C06_refines_all_histories : forall ops o,
  lg_equiv (abs (fst (step (run ops) o))) (lg_step (abs (run ops)) o (snd (step (run ops) o))).
Proof. intros ops o. apply refines, Inv_run. Qed.

(* one theorem per read view: view of the store = view of the logical graph (as bags) *)
Theorem C06_get_node : forall s n, get_node s n = lnodes (abs s) n.
Proof. reflexivity. Qed.
Theorem C06_get_edge : forall s e, get_edge (es s) e = lrels (abs s) e.
Proof. reflexivity. Qed.
Theorem C06_outgoing : forall s, Inv s -> forall n,
  Permutation (outgoing_edges s n) (lg_outgoing (abs s) (next_edge (es s)) n).
Proof. exact view_outgoing. Qed.
Theorem C06_incoming : forall s, Inv s -> forall n,
  Permutation (incoming_edges s n) (lg_incoming (abs s) (next_edge (es s)) n).
Proof. exact view_incoming. Qed.
Theorem C06_out_targets : forall s, Inv s -> forall n,
  Permutation (out_targets s n) (lg_outgoing (abs s) (next_edge (es s)) n).
Proof. intros s I n. rewrite (view_out_targets s I n). now apply view_outgoing. Qed.
Theorem C06_in_sources : forall s, Inv s -> forall n,
  Permutation (in_sources s n) (lg_incoming (abs s) (next_edge (es s)) n).
Proof. intros s I n. rewrite (view_in_sources s I n). now apply view_incoming. Qed.
Theorem C06_degree_for_type : forall s, Inv s -> forall n t,
  out_degree s n t = lg_out_degree (abs s) (next_edge (es s)) n t /\
  in_degree s n t = lg_in_degree (abs s) (next_edge (es s)) n t.
Proof. intros s I n t. split; [now apply view_out_degree | now apply view_in_degree]. Qed.
(* search_adjacency_slice as written: std's binary search (halving loop with explicit fuel, one
   final compare), the walk back to the start of the equal run, the forward scan.  The fuel
   ceil(log2 n) + 1 always suffices; on a slice sorted by neighbour id the search finds a position
   holding the key or proves the key absent, and the scan visits exactly the entries with that
   neighbour, in slice order; with the endpoint/type filter it is the specification on the slice *)
Theorem C06_binary_search_fuel : forall l key, binary_search l key <> BsFuel.
Proof. exact binary_search_fuel. Qed.
Theorem C06_binary_search_sorted : forall l key, SortedN l ->
  match binary_search l key with
  | BsOk pos => (pos < length l)%nat /\ nbr_at l pos = key
  | BsErr _ => forall x, In x l -> a_nbr x <> key
  | BsFuel => False
  end.
Proof. exact binary_search_sorted. Qed.
Theorem C06_search_run_sorted : forall l key, SortedN l ->
  search_run l key = Some (filter (fun x => N.eqb (a_nbr x) key) l).
Proof. exact search_run_sorted. Qed.
Theorem C06_search_slice_sorted : forall s entries a b ty, SortedN entries ->
  search_slice s entries a b ty =
  Some (flat_map (fun x => if N.eqb (a_nbr x) b then match_entry s a b ty x else []) entries).
Proof. exact search_slice_sorted. Qed.

(* sortedness is an invariant: every write-buffer slice without a stub append since the last
   compaction and every slice of every frozen segment is sorted by neighbour id - kept by
   create_edge's sorted insert, delete_edge's retain, compaction's per-slice sort, for every
   operation and history *)
Theorem C06_sorted_init : SortedInv (es init).
Proof. exact SortedInv_init. Qed.
Theorem C06_sorted_preserved : forall s o, SortedInv (es s) -> SortedInv (es (fst (step s o))).
Proof. exact SortedInv_step. Qed.
Theorem C06_sorted_all_histories : forall ops, SortedInv (es (run ops)).
Proof. exact SortedInv_run. Qed.

(* edges_between as written (each frozen segment binary-searched on its own, then the write
   buffer) equals its specification, never runs out of fuel, and agrees with the logical graph *)
Theorem C06_edges_between_as_written : forall s a b ty,
  SortedInv (es s) -> ~ In a (unsorted (es s)) ->
  edges_between s a b ty = Some (edges_between_spec s a b ty).
Proof. exact edges_between_as_written. Qed.
Theorem C06_edges_between_fuel : forall s a b ty, edges_between s a b ty <> None.
Proof. exact edges_between_fuel. Qed.
Theorem C06_edges_between : forall s, Inv s -> SortedInv (es s) -> forall a b ty,
  ~ In a (unsorted (es s)) ->
  exists l, edges_between s a b ty = Some l /\
            Permutation l (lg_between (abs s) (next_edge (es s)) a b ty).
Proof.
  intros s I S a b ty Hn. exists (edges_between_spec s a b ty). split.
  - now apply edges_between_as_written.
  - now apply view_edges_between.
Qed.
Theorem C06_nodes_by_label : forall s, Inv s -> forall l,
  Permutation (nodes_by_label s l) (lg_by_label (abs s) (next_node (ns s)) l).
Proof. exact view_nodes_by_label. Qed.
(* outside the bulk-load window (no stub edge since the last finish_bulk_load) *)
Theorem C06_edges_by_type : forall s, Inv s -> forall t, tstale (es s) = false ->
  Permutation (edges_by_type s t) (lg_by_type (abs s) (next_edge (es s)) t).
Proof. exact view_edges_by_type. Qed.
Theorem C06_counts : forall s, Inv s ->
  node_count s = lg_node_count (abs s) (next_node (ns s)) /\
  edge_count s = lg_edge_count (abs s) (next_edge (es s)).
Proof. intros s I. split; [now apply view_node_count | now apply view_edge_count]. Qed.

(* no relationship dangles from a missing node *)
Theorem C06_no_dangling : forall s, Inv s -> forall e a b t p,
  lrels (abs s) e = Some (a, b, t, p) -> lnodes (abs s) a <> None /\ lnodes (abs s) b <> None.
Proof. exact view_no_dangling. Qed.

(* a (re)used id never inherits anything: just before it is handed out it names no node /
   relationship, its column row is empty, no relationship touches it, and no write-buffer
   adjacency entry mentions it; by C06_refines the new entity is exactly what was asked for *)
Theorem C06_no_inherit_node : forall s hint ls ps cols n' id,
  Inv s -> create_node (ns s) hint ls ps cols = (n', id) ->
  lnodes (abs s) id = None /\ ncols (ns s) id = [] /\
  (forall e a b t p, lrels (abs s) e = Some (a, b, t, p) -> a <> id /\ b <> id).
Proof. exact fresh_node. Qed.
Theorem C06_no_inherit_edge : forall s hint a b t ps stub es' id,
  Inv s -> add_edge (es s) hint a b t ps stub = (es', id) ->
  lrels (abs s) id = None /\ ecols (es s) id = [] /\ eprops (es s) id = None /\
  ~ In id (map a_eid (bout (es s) ++ bin (es s))).
Proof. exact fresh_edge. Qed.

(* lifted to all histories: after any sequence of operations every view agrees *)
Theorem C06_all_histories : forall ops,
  let s := run ops in
  (forall n, Permutation (outgoing_edges s n) (lg_outgoing (abs s) (next_edge (es s)) n)) /\
  (forall n, Permutation (incoming_edges s n) (lg_incoming (abs s) (next_edge (es s)) n)) /\
  (forall n t, out_degree s n t = lg_out_degree (abs s) (next_edge (es s)) n t) /\
  (forall n t, in_degree s n t = lg_in_degree (abs s) (next_edge (es s)) n t) /\
  (forall a b ty, ~ In a (unsorted (es s)) ->
     exists l, edges_between s a b ty = Some l /\
               Permutation l (lg_between (abs s) (next_edge (es s)) a b ty)) /\
  (forall l, Permutation (nodes_by_label s l) (lg_by_label (abs s) (next_node (ns s)) l)) /\
  (tstale (es s) = false ->
   forall t, Permutation (edges_by_type s t) (lg_by_type (abs s) (next_edge (es s)) t)) /\
  node_count s = lg_node_count (abs s) (next_node (ns s)) /\
  edge_count s = lg_edge_count (abs s) (next_edge (es s)) /\
  (forall e a b t p, lrels (abs s) e = Some (a, b, t, p) ->
     lnodes (abs s) a <> None /\ lnodes (abs s) b <> None).
Proof.
  intros ops s. pose proof (Inv_run ops) as I. fold s in I.
  split; [intros; now apply view_outgoing|].
  split; [intros; now apply view_incoming|].
  split; [intros; now apply view_out_degree|].
  split; [intros; now apply view_in_degree|].
  split; [intros a b ty Hn; exists (edges_between_spec s a b ty); split;
          [apply edges_between_as_written; [apply SortedInv_run | exact Hn] | now apply view_edges_between]|].
  split; [intros; now apply view_nodes_by_label|].
  split; [intros; now apply view_edges_by_type|].
  split; [now apply view_node_count|].
  split; [now apply view_edge_count|].
  intros e a b t p H. eapply view_no_dangling; eauto.
Qed.

(* non-vacuity: the order named by the property - compaction, then a delete, then new
   relationships (the frozen id 1 is retired, not reused), a second segment, a node
   delete with id reuse and a stub load - reaches a state with a frozen tombstone, two
   live relationships, one of them frozen, and all counts right *)
Example C06_nonvacuous :
  let s := run [CreateNode 1 [0]; CreateNode 2 [1]; CreateNode 3 [2]; CreateEdgeP 1 1 2 0 [(0, 3)];
                Compact; DeleteEdge 1; CreateEdge 2 3 3 1; CreateEdge 3 1 3 0; Compact;
                DeleteNode 2; CreateNode 2 [0]; CreateEdgeStub 4 2 1 2; FinishBulk] in
  fdead (es s) = 1 /\ edge_count s = 3 /\ node_count s = 3 /\
  outgoing_edges s 1 = [(3, 1, 3, 0)] /\ incoming_edges s 1 = [(4, 2, 1, 2)] /\
  edges_between s 1 2 None = Some [] /\ get_edge (es s) 1 = None /\ tstale (es s) = false.
Proof. vm_compute. repeat split; reflexivity. Qed.

(* non-vacuity for the search: a hub with five buffered relationships (two parallel ones to
   node 3), one segment frozen before, a delete of the first entry; the slices are sorted and
   the binary search finds the run of node 3 and nothing for node 6 *)
Example C06_search_nonvacuous :
  let s := run [CreateNode 1 []; CreateNode 2 []; CreateNode 3 []; CreateNode 4 []; CreateNode 5 [];
                CreateEdge 1 1 4 0; Compact; CreateEdge 2 1 5 0; CreateEdge 3 1 3 1; CreateEdge 4 1 2 0;
                CreateEdge 5 1 3 2; CreateEdge 6 1 4 0; DeleteEdge 4] in
  unsorted (es s) = [] /\
  map a_nbr (slice (bout (es s)) 1) = [3; 3; 4; 5] /\
  edges_between s 1 3 None = Some [5; 3] /\ edges_between s 1 3 (Some 1) = Some [3] /\
  edges_between s 1 4 None = Some [1; 6] /\ edges_between s 1 6 None = Some [] /\
  binary_search (slice (bout (es s)) 1) 4 = BsOk 2.
Proof. vm_compute. repeat split; reflexivity. Qed.

Print Assumptions C06_binary_search_fuel.
Print Assumptions C06_binary_search_sorted.
Print Assumptions C06_search_run_sorted.
Print Assumptions C06_sorted_all_histories.
Print Assumptions C06_edges_between_as_written.
Print Assumptions C06_inv_preserved.
Print Assumptions C06_inv_all_histories.
Print Assumptions C06_refines.
Print Assumptions C06_all_histories.
Print Assumptions C06_edges_between.
Print Assumptions C06_edges_by_type.
Print Assumptions C06_counts.
Print Assumptions C06_no_inherit_node.
Print Assumptions C06_no_inherit_edge.
