(* C10 — property values are ordered by lawful total orders.
   Property theorems only; proofs live in proofs/ValueProofs.v.
   pv_cmp = impl Ord (the property-index order), pv_eqb = impl PartialEq, hash_feed = the
   calls impl Hash makes on the Hasher, cy_order = cypher_order (ORDER BY); all of
   coq/model/Value.v, for values of every variant and every nesting depth. *)
From Coq Require Import List NArith ZArith Bool Permutation Sorted.
From Verif Require Import Value Index ValueProofs.
Import ListNotations.
Open Scope Z_scope.

(* ---- the index order is a total order: no hypothesis on the values at all ---- *)
Theorem C10_cmp_refl : forall a, pv_cmp a a = Eq.
Proof. exact pv_cmp_refl. Qed.

Theorem C10_cmp_antisym : forall a b, pv_cmp a b = CompOpp (pv_cmp b a).
Proof. exact pv_cmp_antisym. Qed.

Theorem C10_cmp_trans : forall a b c,
  (pv_cmp a b = Lt -> pv_cmp b c = Lt -> pv_cmp a c = Lt) /\
  (pv_cmp a b = Eq -> pv_cmp a c = pv_cmp b c) /\
  (pv_cmp a b <> Gt -> pv_cmp b c <> Gt -> pv_cmp a c <> Gt).
Proof.
  intros a b c. split; [apply pv_cmp_trans_lt|split; [apply pv_cmp_eq_congr|apply pv_cmp_trans_le]].
Qed.

(* ---- it agrees with value equality ---- *)
Theorem C10_cmp_eq_iff : forall a b, pv_cmp a b = Eq <-> pv_eqb a b = true.
Proof. exact pv_cmp_eq_iff_eqb. Qed.

(* ... and both coincide with identity of the values (same variant, same bits, same entries) *)
Theorem C10_cmp_eq_identity : forall a b,
  wf a = true -> wf b = true -> (pv_cmp a b = Eq <-> a = b).
Proof. exact pv_cmp_eq_iff_eq. Qed.

(* ---- equal values hash equally ---- *)
Theorem C10_hash_compat : forall a b,
  wf a = true -> wf b = true -> pv_eqb a b = true -> hash_feed a = hash_feed b.
Proof. exact hash_compat. Qed.

(* ---- the ORDER BY order is a total preorder ---- *)
Theorem C10_order_preorder :
  (forall a, cy_order a a = Eq) /\
  (forall a b, cy_order a b = CompOpp (cy_order b a)) /\
  (forall a b, cy_order a b <> Gt \/ cy_order b a <> Gt) /\
  (forall a b c, cy_order a b <> Gt -> cy_order b c <> Gt -> cy_order a c <> Gt) /\
  (forall a b c, cy_order a b = Lt -> cy_order b c = Lt -> cy_order a c = Lt) /\
  (forall a b c, cy_order a b = Eq -> cy_order b c = Eq -> cy_order a c = Eq) /\
  (forall a b c, cy_order a b = Eq -> cy_order a c = cy_order b c).
Proof. exact cy_order_preorder. Qed.

(* ---- therefore: sorting never depends on the order the values arrive in.
   Two sorted arrangements of the same collection are the same list (any sorting algorithm),
   and in particular insertion sort gives the same list on every permutation. ---- *)
Theorem C10_sorted_unique : forall l1 l2,
  Forall (fun x => wf x = true) l1 -> Permutation l1 l2 ->
  StronglySorted pv_le l1 -> StronglySorted pv_le l2 -> l1 = l2.
Proof. exact sorted_perm_unique. Qed.

Theorem C10_sort_perm_invariant : forall l1 l2,
  Forall (fun x => wf x = true) l1 -> Permutation l1 l2 -> pv_sort l1 = pv_sort l2.
Proof. exact sort_perm_invariant. Qed.

(* ---- and index lookups never depend on insertion order.  PropertyIndex is a
   BTreeMap<PropertyValue, HashSet<NodeId>>; the B-tree is represented by a key-sorted
   association list searched with pv_cmp (idx_insert / idx_get in ValueProofs.v).  A lookup
   returns exactly the ids inserted under the probed value, whatever the insertion order. ---- *)
Theorem C10_index_lookup_exact : forall ops q i,
  wf q = true -> Forall (fun p => wf (fst p) = true) ops ->
  (In i (idx_get q (idx_build ops)) <-> In (q, i) ops).
Proof. exact idx_lookup_exact. Qed.

Theorem C10_index_lookup_order_free : forall ops ops' q i,
  Permutation ops ops' ->
  (In i (idx_get q (idx_build ops)) <-> In i (idx_get q (idx_build ops'))).
Proof. exact idx_lookup_order_free. Qed.

(* ---- the Integer x Float arm of the model is the code's computation: the integer is
   converted to f64 (round to nearest even), then partial_cmp, NaN placed by its sign ---- *)
Theorem C10_int_float_as_coded : forall a b,
  in_i64 a = true ->
  cmp_int_float a b =
  match f_partial_cmp (i2f_bits a) b with
  | Some o => then_ o Lt
  | None => if f_sign b then Gt else Lt
  end.
Proof. exact cmp_int_float_code. Qed.

(* ---- non-vacuity of the conditional theorems: well-formed, nested, with the values the old
   code got wrong (negative NaN, signed zeros, integers beyond 2^53, NaN inside a map) ---- *)
Definition ex_neg_nan : pv := PFloat 18444492273895866368.       (* 0xFFF8_0000_0000_0000 *)
Definition ex_nested : pv :=
  PArr [PMap [([97%N], PFloat 18444492273895866368); ([98%N], PVec [2143289344; 2147483648])];
        PInt 9007199254740993; PFloat 9223372036854775808; PDur 1 (-2) 3 4; PNull; PStr [195%N; 169%N]].

Example C10_nonvacuous :
  wf ex_nested = true /\ pv_eqb ex_nested ex_nested = true /\
  (* the triple that was cyclic: -NaN < -1.0 < Integer 0, and now -NaN < Integer 0 *)
  pv_cmp ex_neg_nan (PFloat 13830554455654793216) = Lt /\
  pv_cmp (PFloat 13830554455654793216) (PInt 0) = Lt /\
  pv_cmp ex_neg_nan (PInt 0) = Lt /\
  (* signed zeros are different values with different hasher input, NaN equals itself *)
  pv_eqb (PFloat 0) (PFloat 9223372036854775808) = false /\
  pv_eqb ex_neg_nan ex_neg_nan = true /\
  (* ORDER BY: every NaN after every number *)
  cy_order (PInt 0) ex_neg_nan = Lt /\ cy_order (PFloat 4607182418800017408) ex_neg_nan = Lt /\
  (* a permutation of a well-formed list sorts to the same list *)
  pv_sort [ex_nested; PInt 0; ex_neg_nan; PFloat 0] = pv_sort [PFloat 0; ex_neg_nan; ex_nested; PInt 0] /\
  pv_sort [ex_nested; PInt 0; ex_neg_nan; PFloat 0] = [ex_neg_nan; PInt 0; PFloat 0; ex_nested] /\
  (* index: two insertion orders, the probe finds its own ids (and -0.0 is not +0.0) *)
  idx_get ex_neg_nan (idx_build [(PInt 0, 1%N); (ex_neg_nan, 2%N); (PFloat 0, 3%N); (ex_neg_nan, 4%N)]) = [4%N; 2%N] /\
  idx_get ex_neg_nan (idx_build [(ex_neg_nan, 4%N); (PFloat 0, 3%N); (ex_neg_nan, 2%N); (PInt 0, 1%N)]) = [2%N; 4%N] /\
  idx_get (PFloat 9223372036854775808) (idx_build [(PFloat 0, 3%N)]) = [].
Proof. vm_compute. repeat split; reflexivity. Qed.

Print Assumptions C10_cmp_refl.
Print Assumptions C10_cmp_antisym.
Print Assumptions C10_cmp_trans.
Print Assumptions C10_cmp_eq_iff.
Print Assumptions C10_cmp_eq_identity.
Print Assumptions C10_hash_compat.
Print Assumptions C10_order_preorder.
Print Assumptions C10_sorted_unique.
Print Assumptions C10_sort_perm_invariant.
Print Assumptions C10_index_lookup_exact.
Print Assumptions C10_index_lookup_order_free.
Print Assumptions C10_int_float_as_coded.
