(* C36 — RDF serializations round-trip every triple set.
   Property theorems only; proofs live in proofs/RdfProofs.v.  Partial by design: the
   decoders (N-Triples, Turtle, RDF/XML) are specifications of what rio's parsers read on the
   formatters' output, tied to the real parsers by correspondence (see checks/C36.json). *)
From Coq Require Import List NArith Bool String.
From Verif Require Import Rdf RdfProofs.
Import ListNotations.
Open Scope N_scope.

(* the adapter (repo term -> rio term -> repo term) is the identity on every term the
   validating constructors can build, including the xsd:string collapse *)
Theorem C36_adapter_rt : forall t, wf_triple t = true -> from_rio (to_rio t) = Some t.
Proof. exact adapter_rt. Qed.

Theorem C36_adapter_xsd_string_collapse : forall v,
  from_rio_lit (LTyped v XSD_STRING) = Some (RString v) /\ to_rio_lit (RString v) = LSimple v.
Proof. exact adapter_collapse. Qed.

(* literal codec: every string of code points, any continuation *)
Theorem C36_nt_literal_rt : forall s rest, unq UN (escape s ++ 34 :: rest) = Some (s, rest).
Proof. exact unq_escape. Qed.

(* N-Triples: every list of well-formed triples outside the known class comes back
   identical (same triples, same order, same blank-node labels) *)
Theorem C36_nt_rt : forall ts,
  forallb wf_triple ts = true -> existsb known_label ts = false ->
  parse_nt (ser_nt ts) = Some ts.
Proof. exact nt_roundtrip. Qed.

(* Turtle, through TurtleFormatter's subject / predicate grouping *)
Theorem C36_ttl_rt : forall ts,
  forallb wf_triple ts = true -> existsb known_label ts = false ->
  parse_ttl (ser_ttl ts) = Some ts.
Proof. exact ttl_roundtrip. Qed.

(* the known class is narrow: a blank-node identifier oxrdf accepts is readable by rio
   unless it contains ':' or '..' *)
Theorem C36_known_label_narrow : forall b,
  bnode_ok b = true -> label_unreadable b = false -> readable b = true.
Proof. exact readable_of_bnode. Qed.

(* RDF/XML, as far as the model goes *)
Theorem C36_xml_escape_rt : forall s, xml_unescape (xml_escape s) = Some s.
Proof. exact xml_escape_roundtrip. Qed.

Theorem C36_xml_escape_no_markup : forall s,
  existsb (fun c => (c =? 60) || (c =? 34)) (xml_escape s) = false.
Proof. exact xml_escape_clean. Qed.

Theorem C36_xml_split_iri : forall i,
  fst (split_iri i) ++ snd (split_iri i) = i /\
  (snd (split_iri i) = [] \/ ncname (snd (split_iri i)) = true).
Proof. exact split_iri_spec. Qed.

(* RDF/XML: every list of well-formed triples outside the four recorded classes comes
   back identical through RdfXmlFormatter's text (rdf:Description grouping, property
   elements named by split_iri, escaped attributes and text) *)
Definition Known_C36_xml (t : triple) : bool := known_xml t.
Theorem C36_xml_rt : forall ts,
  forallb wf_triple ts = true -> existsb Known_C36_xml ts = false ->
  parse_xml (ser_xml ts) = Some ts.
Proof. exact xml_roundtrip. Qed.

(* each recorded RDF/XML class is real: rdf:nodeID "1" is rejected; " " comes back as "";
   rdf:li comes back as rdf:_1; rdf:about as a predicate is rejected *)
Theorem C36_xml_refuted :
  (forallb wf_triple xml_witness_nodeid = true /\ existsb known_xml_nodeid xml_witness_nodeid = true /\
   parse_xml (ser_xml xml_witness_nodeid) = None) /\
  (forallb wf_triple xml_witness_ws = true /\ existsb known_xml_ws xml_witness_ws = true /\
   parse_xml (ser_xml xml_witness_ws) = Some [(S_E, P_E, ROLit (RString []))]) /\
  (forallb wf_triple xml_witness_li = true /\ existsb known_xml_reserved xml_witness_li = true /\
   parse_xml (ser_xml xml_witness_li) = Some [(S_E, RDF_NS ++ [95; 49], ROLit (RString [120]))]) /\
  (forallb wf_triple xml_witness_reserved = true /\ existsb known_xml_reserved xml_witness_reserved = true /\
   parse_xml (ser_xml xml_witness_reserved) = None).
Proof. exact xml_refuted. Qed.

(* fifth class: the predicate <http://www.w3.org/2000/xmlns/> itself (empty local name, so
   the formatter binds the prefix prop to the xmlns namespace, which quick-xml refuses) *)
Theorem C36_xml_refuted_nsbind :
  forallb wf_triple xml_witness_nsbind = true /\ existsb known_xml_nsbind xml_witness_nsbind = true /\
  parse_xml (ser_xml xml_witness_nsbind) = None.
Proof. exact xml_refuted_nsbind. Qed.

(* The property at full strength, three formats: false, because of the known classes. *)
Definition C36_full : Prop := forall ts,
  forallb wf_triple ts = true ->
  parse_nt (ser_nt ts) = Some ts /\ parse_ttl (ser_ttl ts) = Some ts /\ parse_xml (ser_xml ts) = Some ts.

Theorem C36_refuted : exists ts,
  forallb wf_triple ts = true /\ existsb known_label ts = true /\
  parse_nt (ser_nt ts) <> Some ts /\ parse_ttl (ser_ttl ts) <> Some ts.
Proof. exists label_witness. exact label_refuted. Qed.

(* non-vacuity of the conditional theorems: a set with quotes, backslash, LF, CR, a C0
   control, an astral character, an upper-case-free language tag, a custom datatype, a
   predicate without local name, a shared blank node with dots and digits; well-formed,
   outside the known class, and it does come back *)
Definition C36_sample : list triple :=
  [ (SIri (s2l "http://e/s"), s2l "http://e/p", ROLit (RString [34; 92; 10; 13; 1; 128512]));
    (SIri (s2l "http://e/s"), s2l "http://e/p", ROLit (RLang [] (s2l "en-us")));
    (SIri (s2l "http://e/s"), s2l "http://e/", ROLit (RTyped [32] (s2l "http://e/dt#")));
    (SBlank (s2l "0a.b"), s2l "http://e/q", ROBlank (s2l "0a.b")) ].
(* the same without the digit-led label (not an NCName) and the blank-only literal *)
Definition C36_xml_sample : list triple :=
  [ (SIri (s2l "http://e/s"), s2l "http://e/p", ROLit (RString [34; 92; 10; 13; 1; 128512; 60; 38]));
    (SIri (s2l "http://e/s"), s2l "http://e/p", ROLit (RLang [] (s2l "en-us")));
    (SIri (s2l "http://e/s"), s2l "http://e/", ROLit (RTyped [32; 97] (s2l "http://e/dt#")));
    (SBlank (s2l "a.b"), s2l "http://e/q1x", ROBlank (s2l "a.b"));
    (SIri (s2l "http://e/s"), RDF_NS ++ s2l "type", ROIri (s2l "http://e/C?a=1&b='2'")) ].
Example C36_nonvacuous :
  forallb wf_triple C36_sample = true /\ existsb known_label C36_sample = false /\
  parse_nt (ser_nt C36_sample) = Some C36_sample /\
  parse_ttl (ser_ttl C36_sample) = Some C36_sample /\
  existsb Known_C36_xml C36_xml_sample = false /\ forallb wf_triple C36_xml_sample = true /\
  parse_xml (ser_xml C36_xml_sample) = Some C36_xml_sample /\
  (forall t, In t C36_sample -> from_rio (to_rio t) = Some t).
Proof.
  split; [vm_compute; reflexivity|]. split; [vm_compute; reflexivity|].
  split; [vm_compute; reflexivity|]. split; [vm_compute; reflexivity|].
  split; [vm_compute; reflexivity|]. split; [vm_compute; reflexivity|].
  split; [vm_compute; reflexivity|].
  intros t Ht. apply adapter_rt.
  assert (H : forallb wf_triple C36_sample = true) by (vm_compute; reflexivity).
  rewrite forallb_forall in H. apply H, Ht.
Qed.
Example C36_bnode_nonvacuous : bnode_ok (s2l "0a.b") = true /\ label_unreadable (s2l "0a.b") = false.
Proof. vm_compute. split; reflexivity. Qed.

Print Assumptions C36_adapter_rt.
Print Assumptions C36_adapter_xsd_string_collapse.
Print Assumptions C36_nt_literal_rt.
Print Assumptions C36_nt_rt.
Print Assumptions C36_ttl_rt.
Print Assumptions C36_known_label_narrow.
Print Assumptions C36_xml_escape_rt.
Print Assumptions C36_xml_escape_no_markup.
Print Assumptions C36_xml_split_iri.
Print Assumptions C36_xml_rt.
Print Assumptions C36_xml_refuted.
Print Assumptions C36_xml_refuted_nsbind.
Print Assumptions C36_refuted.
