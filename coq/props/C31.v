(* C31 — Raft log storage keeps one entry per index and never loses the tail.
   Property theorems only; proofs live in proofs/RaftLogProofs.v. *)
From Coq Require Import List NArith Bool Sorted.
From Verif Require Import RaftLog RaftLogProofs.
Import ListNotations.
Open Scope N_scope.

(* Refinement: after ANY sequence of appends (of any number of entries),
   truncations and snapshots, what the storage answers (get_entry at every index,
   snapshot metadata) is exactly the reference Raft log run on the same sequence:
   an append at index i replaces the entry at i and removes every later one, a
   truncation at k keeps < k, a snapshot at k keeps > k. *)
Theorem C31_refines : forall ops,
  (forall i, get_entry (run ops) i = rmap (rrun ops) i) /\ snap (run ops) = rsnap (rrun ops).
Proof. exact refines_run. Qed.

(* one step, from any storage state whatsoever *)
Theorem C31_refines_step : forall s o,
  (forall i, get_entry (step s o) i = rmap (rstep (abs s) o) i) /\
  snap (step s o) = rsnap (rstep (abs s) o).
Proof. exact refines_step. Qed.

(* never two entries for one index: the vector is strictly increasing in index
   after every history, and get_entry finds exactly the entries it holds *)
Theorem C31_unique_index : forall ops,
  StronglySorted (fun a b => eidx a < eidx b) (log (run ops)) /\
  NoDup (map eidx (log (run ops))) /\
  (forall e, In e (log (run ops)) <-> get_entry (run ops) (eidx e) = Some e).
Proof. exact unique_index. Qed.

Theorem C31_append_replaces_suffix : forall ops e,
  let s := run ops in let s' := step s (Append [e]) in
  get_entry s' (eidx e) = Some e /\
  (forall j, eidx e < j -> get_entry s' j = None) /\
  (forall j, j < eidx e -> get_entry s' j = get_entry s j).
Proof. exact append_replaces_suffix. Qed.

Theorem C31_snapshot_keeps_tail : forall ops k t,
  let s := run ops in let s' := step s (Snapshot k t) in
  (forall j, k < j -> get_entry s' j = get_entry s j) /\
  (forall j, j <= k -> get_entry s' j = None) /\
  snap s' = Some (k, t).
Proof. exact snapshot_keeps_tail. Qed.

Theorem C31_truncate : forall ops k,
  let s := run ops in let s' := step s (DeleteFrom k) in
  (forall j, j < k -> get_entry s' j = get_entry s j) /\
  (forall j, k <= j -> get_entry s' j = None) /\ snap s' = snap s.
Proof. exact delete_from_spec. Qed.

(* last index/term = those of the retained entry with the greatest index in the
   reference log, or the snapshot's (else (0,0)) when the reference log is empty *)
Theorem C31_last_index_term : forall ops,
  (forall i e, rmap (rrun ops) i = Some e -> (forall j, i < j -> rmap (rrun ops) j = None) ->
               last_index_term (run ops) = (i, eterm e)) /\
  ((forall i, rmap (rrun ops) i = None) ->
   last_index_term (run ops) = match rsnap (rrun ops) with Some p => p | None => (0, 0) end).
Proof. exact last_index_term_ref. Qed.

(* get_entries(a,b) = the retained entries with a <= index < b, in increasing index order *)
Theorem C31_get_entries : forall ops a b,
  let s := run ops in
  StronglySorted (fun x y => eidx x < eidx y) (get_entries s a b) /\
  forall e, In e (get_entries s a b) <-> get_entry s (eidx e) = Some e /\ a <= eidx e < b.
Proof. exact get_entries_spec. Qed.

(* non-vacuity: a history with a conflicting append (index 2 re-appended under term 2
   removes 2..4), a snapshot below the tail, and the hypotheses of C31_last_index_term met *)
Example C31_nonvacuous :
  let ops := [Append [E 1 1 [1]; E 2 1 [2]; E 3 1 [3]; E 4 1 [4]]; Append [E 2 2 [5]; E 3 2 [6]];
              Snapshot 2 2; Append [E 4 3 [7]]] in
  log (run ops) = [E 3 2 [6]; E 4 3 [7]] /\ snap (run ops) = Some (2, 2) /\
  last_index_term (run ops) = (4, 3) /\
  rmap (rrun ops) 4 = Some (E 4 3 [7]) /\ rmap (rrun ops) 2 = None /\
  last_index_term (run [Append [E 1 1 []]; Snapshot 5 2]) = (5, 2).
Proof. vm_compute. repeat split; reflexivity. Qed.

Print Assumptions C31_refines.
Print Assumptions C31_refines_step.
Print Assumptions C31_unique_index.
Print Assumptions C31_append_replaces_suffix.
Print Assumptions C31_snapshot_keeps_tail.
Print Assumptions C31_truncate.
Print Assumptions C31_last_index_term.
Print Assumptions C31_get_entries.
