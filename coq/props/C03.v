(* C03 — the parsed-query cache never changes what a query means.
   Property theorems only; proofs live in proofs/QueryCacheProofs.v. *)
From Coq Require Import List NArith Bool.
From Verif Require Import QueryCache QueryCacheProofs.
Import ListNotations.
Open Scope N_scope.

(* two texts with the same cache key have the same tokens ahead of the first projection
   (words and string literals byte for byte; whitespace and comments only separate) and the
   same text, byte for byte, from there on — for all byte strings *)
Theorem C03_key_sound : forall s1 s2, key s1 = key s2 -> lex s1 = lex s2.
Proof. exact key_sound. Qed.

(* cache transparency: for every parser whose result depends on the text only through lex
   (error texts may depend on the exact text), all executors, every capacity, every initial
   store and every history of execute / execute_mut requests, the engine with its LRU cache
   returns the same results and leaves the same store as parsing every text afresh *)
Theorem C03_cache_transparent :
  forall (ast err store res : Type)
         (parse_tok : list token * bytes -> option ast) (parse_err : bytes -> err)
         (exec_ro : ast -> store -> res) (exec_rw : ast -> store -> store * res)
         (res_err : err -> res) (cap : nat) (h : list req) (g : store),
  let '(_, g', os) := run_cached ast err store res parse_tok parse_err exec_ro exec_rw res_err cap [] g h in
  (g', os) = run_fresh ast err store res parse_tok parse_err exec_ro exec_rw res_err g h.
Proof. exact cache_transparent. Qed.

(* the property as worded: a request after any history (whatever was cached or evicted
   before) answers like parsing and executing that exact text afresh *)
Theorem C03_after_any_history :
  forall (ast err store res : Type)
         (parse_tok : list token * bytes -> option ast) (parse_err : bytes -> err)
         (exec_ro : ast -> store -> res) (exec_rw : ast -> store -> store * res)
         (res_err : err -> res) (cap : nat) (h : list req) (g : store) (r : req),
  let '(c, g1, _) := run_cached ast err store res parse_tok parse_err exec_ro exec_rw res_err cap [] g h in
  let '(_, g2, o) := exec_cached ast err store res parse_tok parse_err exec_ro exec_rw res_err cap c g1 r in
  (g2, o) = exec_fresh ast err store res parse_tok parse_err exec_ro exec_rw res_err g1 r.
Proof. exact exec_after_history. Qed.

(* non-vacuity of C03_key_sound: distinct texts that do share a key
   ("MATCH  (n:P)<tab>RETURN  n" / "MATCH (n:P) RETURN n"), and the three families that the
   old split_whitespace key merged now have different keys:
   "RETURN 'a b'" / "RETURN 'a  b'";  "RETURN 1 // c<LF>+ 1" / "RETURN 1 // c + 1";
   "RETURN 1 + 2" / "RETURN 1 +  2" (column named after the text) *)
Example C03_nonvacuous :
  let a := [77;65;84;67;72;32;32;40;110;58;80;41;9;82;69;84;85;82;78;32;32;110] in
  let b := [77;65;84;67;72;32;40;110;58;80;41;32;82;69;84;85;82;78;32;110] in
  a <> b /\ key a = key b /\
  key [82;69;84;85;82;78;32;39;97;32;98;39] <> key [82;69;84;85;82;78;32;39;97;32;32;98;39] /\
  key [82;69;84;85;82;78;32;49;32;47;47;32;99;10;43;32;49] <> key [82;69;84;85;82;78;32;49;32;47;47;32;99;32;43;32;49] /\
  key [82;69;84;85;82;78;32;49;32;43;32;50] <> key [82;69;84;85;82;78;32;49;32;43;32;32;50].
Proof. vm_compute. repeat split; try reflexivity; discriminate. Qed.

Print Assumptions C03_key_sound.
Print Assumptions C03_cache_transparent.
Print Assumptions C03_after_any_history.
