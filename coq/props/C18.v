(* C18 — tenant quotas hold under every interleaving of writers.
   Property theorems only; proofs live in proofs/TenantProofs.v.

   [run (init q targets) sched] : any number of writers (one per element of [targets],
   the id each creates; ids may repeat = overwrites), started together on an empty
   tenant, executed in the order [sched] says (a list of writer indices; each occurrence
   runs that writer's next atomic step: reserve / WAL append / storage put / settle).
   Every theorem quantifies over ALL schedules, so it holds at every intermediate
   point of every interleaving, not only at the end. *)
From Coq Require Import List NArith Bool.
From Verif Require Import Tenant TenantProofs.
Import ListNotations.
Open Scope N_scope.

(* the entities accepted into storage are distinct and never more than the quota, the usage
   counter never exceeds the quota, every call that returned Ok has its entity in storage,
   and storage holds nothing that no writer asked for *)
Theorem C18_quota : forall m targets sched,
  let s := run (init (Some m) targets) sched in
  NoDup (stored s) /\ nlen (stored s) <= m /\ usage s <= m /\
  (forall i t, nth_error (threads s) i = Some t -> at_pc t = Done Accepted -> In (target t) (stored s)) /\
  (forall x, In x (stored s) -> In x targets).
Proof. exact quota_holds. Qed.

(* a refused creation leaves nothing behind: the refused writer has appended nothing to
   the WAL and put nothing into storage ... *)
Theorem C18_refused_leaves_nothing : forall q targets sched i t,
  let s := run (init q targets) sched in
  nth_error (threads s) i = Some t -> at_pc t = Done Refused ->
  (forall x, ~ In (i, x) (wal s)) /\ (forall x, ~ In (i, x) (puts s)).
Proof. exact refused_wrote_nothing. Qed.

(* ... and the step that refuses it changes neither usage, storage, WAL nor quota *)
Theorem C18_refusal_changes_nothing : forall s i t',
  nth_error (threads (step s i)) i = Some t' -> at_pc t' = Done Refused ->
  usage (step s i) = usage s /\ stored (step s i) = stored s /\ wal (step s i) = wal s /\
  puts (step s i) = puts s /\ quota (step s i) = quota s.
Proof. exact refusal_changes_nothing. Qed.

(* usage = entities in storage + reservations in flight, at every point; equal at quiescence *)
Theorem C18_usage_exact : forall q targets sched,
  let s := run (init q targets) sched in
  usage s = nlen (stored s) + pend (threads s) /\
  (quiescent s = true -> usage s = nlen (stored s)).
Proof. exact usage_exact. Qed.

(* recovery repeated on the same manager: after n+1 recoveries usage is the stored count and
   storage is untouched; recover is idempotent; at quiescence it changes nothing *)
Theorem C18_recover_idempotent : forall q targets sched n,
  let s := run (init q targets) sched in
  usage (Nat.iter (S n) recover s) = nlen (stored s) /\
  stored (Nat.iter (S n) recover s) = stored s /\
  recover (recover s) = recover s /\
  (quiescent s = true -> Nat.iter n recover s = s).
Proof. exact recover_idempotent. Qed.

(* non-vacuity: quota 1, three writers (ids 1, 2, 1).  Writers 0 and 1 race: 0 reserves, 1 is
   refused while 0 is still in flight, 0 finishes; then writer 2 (same id as 0) is refused
   because the quota is used up.  Quiescent, one entity, usage 1, the refused writers wrote
   nothing.  With quota 3 the same schedule lets writer 2 overwrite id 1: usage ends at the
   number of stored entities (2), not at the number of accepted calls (3). *)
Example C18_nonvacuous :
  let sched := [0; 1; 0; 0; 0; 2; 2; 2; 2; 1; 1; 1]%nat in
  let s := run (init (Some 1) [1; 2; 1]) sched in
  let s2 := run (init (Some 3) [1; 2; 1]) sched in
  quiescent s = true /\ map result_of (threads s) = [Some Accepted; Some Refused; Some Refused] /\
  stored s = [1] /\ usage s = 1 /\ wal s = [(0%nat, 1)] /\
  quiescent s2 = true /\ map result_of (threads s2) = [Some Accepted; Some Accepted; Some Accepted] /\
  stored s2 = [1; 2] /\ usage s2 = 2.
Proof. vm_compute. repeat split; reflexivity. Qed.

Print Assumptions C18_quota.
Print Assumptions C18_refused_leaves_nothing.
Print Assumptions C18_refusal_changes_nothing.
Print Assumptions C18_usage_exact.
Print Assumptions C18_recover_idempotent.
