(* C18 — tenant quotas hold under every interleaving of writers.
   Property theorems only; proofs live in proofs/TenantProofs.v.

   [run (init q writers) sched] : any number of writers (one per element of [writers]:
   a creator or a deleter and the id it creates / deletes; ids may repeat = overwrites,
   deletes racing creates, deletes of absent ids), started together on an empty tenant,
   executed in the order [sched] says (a list of writer indices; each occurrence runs that
   writer's next atomic step: reserve / WAL append / storage put / settle for a creator,
   check / WAL append / guarded get+delete+decrement / return for a deleter).
   Every theorem quantifies over ALL schedules, so it holds at every intermediate
   point of every interleaving, not only at the end. *)
From Coq Require Import List NArith Bool.
From Verif Require Import Tenant TenantProofs.
Import ListNotations.
Open Scope N_scope.

(* the entities accepted into storage are distinct and never more than the quota, the usage
   counter never exceeds the quota, every creation that returned Ok has its entity in storage
   unless a delete of exactly that id was executed, and storage holds nothing that no
   creator asked for *)
Theorem C18_quota : forall m writers sched,
  let s := run (init (Some m) writers) sched in
  NoDup (stored s) /\ nlen (stored s) <= m /\ usage s <= m /\
  (forall i t, nth_error (threads s) i = Some t -> kind t = Creator -> at_pc t = Done Accepted ->
     In (target t) (stored s) \/ exists j, In (j, target t) (dels s) /\ nth_error writers j = Some (Deleter, target t)) /\
  (forall x, In x (stored s) -> In (Creator, x) writers).
Proof. exact quota_holds. Qed.

(* a refused creation leaves nothing behind: the refused writer has appended nothing to
   the WAL, put nothing into storage and deleted nothing ... *)
Theorem C18_refused_leaves_nothing : forall q writers sched i t,
  let s := run (init q writers) sched in
  nth_error (threads s) i = Some t -> at_pc t = Done Refused ->
  (forall x, ~ In (i, x) (wal s)) /\ (forall x, ~ In (i, x) (puts s)) /\ (forall x, ~ In (i, x) (dels s)).
Proof. exact refused_wrote_nothing. Qed.

(* ... and the step that refuses it changes neither usage, storage, WAL nor quota *)
Theorem C18_refusal_changes_nothing : forall s i t',
  nth_error (threads (step s i)) i = Some t' -> at_pc t' = Done Refused ->
  usage (step s i) = usage s /\ stored (step s i) = stored s /\ wal (step s i) = wal s /\
  puts (step s i) = puts s /\ dels (step s i) = dels s /\ quota (step s i) = quota s.
Proof. exact refusal_changes_nothing. Qed.

(* usage = entities in storage + reservations in flight, at every point of every schedule of
   creators and deleters; equal at quiescence *)
Theorem C18_usage_exact : forall q writers sched,
  let s := run (init q writers) sched in
  usage s = nlen (stored s) + pend (threads s) /\
  (quiescent s = true -> usage s = nlen (stored s)).
Proof. exact usage_exact. Qed.

(* a delete, at any point of any schedule: deleting an id that is not stored changes neither
   storage nor usage; deleting a stored id removes exactly that id and frees exactly one unit
   (no underflow); the other steps of a delete touch neither storage nor usage *)
Theorem C18_delete_exact : forall q writers sched i t,
  let s := run (init q writers) sched in
  nth_error (threads s) i = Some t -> kind t = Deleter ->
  let s' := step s i in
  quota s' = quota s /\ puts s' = puts s /\
  (at_pc t <> Logged -> stored s' = stored s /\ usage s' = usage s) /\
  (at_pc t = Logged -> ~ In (target t) (stored s) -> stored s' = stored s /\ usage s' = usage s) /\
  (at_pc t = Logged -> In (target t) (stored s) ->
     (forall y, In y (stored s') <-> In y (stored s) /\ y <> target t) /\
     nlen (stored s') + 1 = nlen (stored s) /\ usage s' + 1 = usage s).
Proof. exact delete_exact. Qed.

(* recovery repeated on the same manager: after n+1 recoveries usage is the stored count and
   storage is untouched; recover is idempotent; at quiescence it changes nothing *)
Theorem C18_recover_idempotent : forall q writers sched n,
  let s := run (init q writers) sched in
  usage (Nat.iter (S n) recover s) = nlen (stored s) /\
  stored (Nat.iter (S n) recover s) = stored s /\
  recover (recover s) = recover s /\
  (quiescent s = true -> Nat.iter n recover s = s).
Proof. exact recover_idempotent. Qed.

(* non-vacuity: quota 1, three creators (ids 1, 2, 1).  Writers 0 and 1 race: 0 reserves, 1 is
   refused while 0 is still in flight, 0 finishes; then writer 2 (same id as 0) is refused
   because the quota is used up.  Quiescent, one entity, usage 1, the refused writers wrote
   nothing.  With quota 3 the same schedule lets writer 2 overwrite id 1: usage ends at the
   number of stored entities (2), not at the number of accepted calls (3). *)
Example C18_nonvacuous :
  let sched := [0; 1; 0; 0; 0; 2; 2; 2; 2; 1; 1; 1]%nat in
  let w := [(Creator, 1); (Creator, 2); (Creator, 1)] in
  let s := run (init (Some 1) w) sched in
  let s2 := run (init (Some 3) w) sched in
  quiescent s = true /\ map result_of (threads s) = [Some Accepted; Some Refused; Some Refused] /\
  stored s = [1] /\ usage s = 1 /\ wal s = [(0%nat, 1)] /\
  quiescent s2 = true /\ map result_of (threads s2) = [Some Accepted; Some Accepted; Some Accepted] /\
  stored s2 = [1; 2] /\ usage s2 = 2.
Proof. vm_compute. repeat split; reflexivity. Qed.

(* non-vacuity with deletes: quota 1.  Writer 0 creates id 1 (runs alone).  Then a delete of the
   absent id 7 (writer 1) changes nothing: usage stays 1 and the creation of id 2 (writer 3) is
   refused.  The delete of id 1 (writer 2) races a re-creation of id 1 (writer 4): 4 is refused
   while 1 is still stored; after the delete's storage step usage is 0 and writer 5 can create
   id 3.  A second delete of id 1 (writer 6) finds nothing and frees nothing. *)
Example C18_nonvacuous_deletes :
  let w := [(Creator, 1); (Deleter, 7); (Deleter, 1); (Creator, 2); (Creator, 1); (Creator, 3); (Deleter, 1)] in
  let sched := [0; 0; 0; 0;  1; 1; 1; 1;  3;  2; 2; 4; 2; 2;  5; 5; 6; 6; 6; 5; 5; 6]%nat in
  let s := run (init (Some 1) w) sched in
  quiescent s = true /\
  map result_of (threads s) = [Some Accepted; Some Accepted; Some Accepted; Some Refused; Some Refused;
                               Some Accepted; Some Accepted] /\
  stored s = [3] /\ usage s = 1 /\ dels s = [(1%nat, 7); (2%nat, 1); (6%nat, 1)] /\
  usage (run (init (Some 1) w) [0; 0; 0; 0; 1; 1; 1; 1]%nat) = 1.
Proof. vm_compute. repeat split; reflexivity. Qed.

Print Assumptions C18_quota.
Print Assumptions C18_refused_leaves_nothing.
Print Assumptions C18_refusal_changes_nothing.
Print Assumptions C18_usage_exact.
Print Assumptions C18_delete_exact.
Print Assumptions C18_recover_idempotent.
