(* C07 — versioned reads are stable, duplicate-free and respect deletion.
   Property theorems only; proofs live in proofs/MvccReadsProofs.v.  The node-chain model
   (model/MvccReads.v) is of the repaired code; two defects are recorded, not repaired:
   class [Known_C07] (the history deletes the node whose past is read - needs tombstones)
   and the relationship log's missing pre-image (C07_refuted_edge, on model/Mvcc.v). *)
From Coq Require Import List NArith Bool.
From Verif Require Import Txn Mvcc MvccReads MvccReadsProofs.
Import ListNotations.
Open Scope N_scope.

(* the full statement (not provable on the current code: see C07_refuted / C07_refuted_edge) *)
Definition C07_full : Prop :=
  forall ops1 ops2 id v, v < ncur (nrun ops1) ->
    read_at (nrun (ops1 ++ ops2)) id v = read_at (nrun ops1) id v.

(* reads of a node at a version older than the current one never change afterwards, for every
   history of create / set / remove / version bump / delete, outside the recorded class *)
Theorem C07_read_stable_partial : forall ops1 ops2 id v,
  v < ncur (nrun ops1) -> Known_C07 id ops2 = false ->
  read_at (nrun (ops1 ++ ops2)) id v = read_at (nrun ops1) id v.
Proof. exact read_stable. Qed.

Theorem C07_refuted : exists ops1 ops2 id v,
  Known_C07 id ops2 = true /\ v < ncur (nrun ops1) /\
  read_at (nrun (ops1 ++ ops2)) id v <> read_at (nrun ops1) id v.
Proof. exact read_refuted. Qed.

Theorem C07_refuted_edge :
  let ops1 := [Mvcc.CreateNode []; Mvcc.CreateNode []; Mvcc.CreateEdge 1 2; Tx (Begin RC); Tx (Commit 1)] in
  let ops2 := [SetEdge 1 0 5] in
  1 < curv (Mvcc.run ops1) /\
  read_edge (Mvcc.run (ops1 ++ ops2)) 1 1 <> read_edge (Mvcc.run ops1) 1 1.
Proof. exact edge_read_refuted. Qed.

(* scans and counts: each id once, count = number of scanned ids = entities readable now *)
Theorem C07_scan_unique : forall ops,
  let s := nrun ops in
  NoDup (scan_ids s) /\ node_count s = N.of_nat (length (scan_ids s)) /\ scan_ids s = live_ids s.
Proof.
  intros ops s. destruct (scan_unique s) as [H1 H2]. repeat split; auto. apply scan_is_live, wf_run.
Qed.

(* a deleted node is not readable at the current (or any) version *)
Theorem C07_deleted_unreadable : forall s id s',
  nstep s (NDelete id) = (s', NOk) -> forall v, read_at s' id v = None.
Proof. exact deleted_unreadable. Qed.

(* non-vacuity: a three-version node, a removal under copy-on-write, then reads of the past *)
Example C07_nonvacuous :
  let ops1 := [NCreate 1 [(0, 1)]; NBump; NSet 1 0 2; NBump] in
  let ops2 := [NRemove 1 0; NCreate 2 []; NBump; NSet 1 1 7] in
  Known_C07 1 ops2 = false /\ ncur (nrun ops1) = 3 /\
  read_at (nrun (ops1 ++ ops2)) 1 2 = Some {| v_ver := 2; v_props := [(0, 2)] |} /\
  read_at (nrun (ops1 ++ ops2)) 1 3 = Some {| v_ver := 3; v_props := [] |} /\
  node_count (nrun (ops1 ++ ops2)) = 2.
Proof. vm_compute. repeat split; reflexivity. Qed.

Print Assumptions C07_read_stable_partial.
Print Assumptions C07_refuted.
Print Assumptions C07_refuted_edge.
Print Assumptions C07_scan_unique.
Print Assumptions C07_deleted_unreadable.
