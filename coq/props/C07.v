(* C07 — versioned reads are stable, duplicate-free and respect deletion.
   Property theorems only; proofs live in proofs/MvccReadsProofs.v (node chains with
   deletion, model/MvccReads.v) and proofs/MvccProofs.v (relationship log, model/Mvcc.v).
   Both models are of the repaired code; one defect is recorded, not repaired: class
   [Known_C07] (the history deletes the node whose past is read - needs tombstones).
   The relationship log's missing pre-image / creation version has been repaired
   (C07_read_stable_edge; the original behaviour is kept as C07_original_edge_defect). *)
From Coq Require Import List NArith Bool.
From Verif Require Import Txn Mvcc MvccProofs MvccReads MvccReadsProofs.
Import ListNotations.
Open Scope N_scope.

(* the full statement for nodes (not provable on the current code: see C07_refuted) *)
Definition C07_full : Prop :=
  forall ops1 ops2 id v, v < ncur (nrun ops1) ->
    read_at (nrun (ops1 ++ ops2)) id v = read_at (nrun ops1) id v.

(* reads of a node at a version older than the current one never change afterwards, for every
   history of create / set / remove / version bump / delete, outside the recorded class *)
Theorem C07_read_stable_partial : forall ops1 ops2 id v,
  v < ncur (nrun ops1) -> Known_C07 id ops2 = false ->
  read_at (nrun (ops1 ++ ops2)) id v = read_at (nrun ops1) id v.
Proof. exact read_stable. Qed.

Theorem C07_refuted : exists ops1 ops2 id v,
  Known_C07 id ops2 = true /\ v < ncur (nrun ops1) /\
  read_at (nrun (ops1 ++ ops2)) id v <> read_at (nrun ops1) id v.
Proof. exact read_refuted. Qed.

(* relationships (and the nodes of model/Mvcc.v): for every history ops1 of create (with or
   without properties) / set / remove property / transaction / gc calls and every continuation ops2, a read at a version older than
   current_version never changes afterwards; a collection in ops2 must be gc_versions(w) with
   w <= v (reads below a collection's watermark are given up by design, C08) *)
Theorem C07_read_stable_edge : forall ops1 ops2 v,
  v < curv (Mvcc.run ops1) -> forallb (gc_ok v) ops2 = true ->
  (forall e, read_edge (Mvcc.run (ops1 ++ ops2)) e v = read_edge (Mvcc.run ops1) e v) /\
  (forall n, read_node (Mvcc.run (ops1 ++ ops2)) n v = read_node (Mvcc.run ops1) n v).
Proof. exact past_reads_stable. Qed.

(* the behaviour before the repair, on the original functions: the read at version 1 of a
   relationship created at version 1 changed with its first update at version 2; the repaired
   functions keep it *)
Example C07_original_edge_defect :
  let ops1 := [Mvcc.CreateNode []; Mvcc.CreateNode []; Mvcc.CreateEdge 1 2; Tx (Begin RC); Tx (Commit 1)] in
  let s1 := Mvcc.run ops1 in
  1 < curv s1 /\
  read_edge_orig (set_edge_orig s1 1 0 5) 1 1 <> read_edge_orig s1 1 1 /\
  read_edge (Mvcc.run (ops1 ++ [SetEdge 1 0 5])) 1 1 = read_edge s1 1 1 /\
  read_edge s1 1 1 = Some {| v_ver := 1; v_props := [] |}.
Proof. exact edge_read_original_defect. Qed.

(* non-vacuity for relationships: created at version 2 (None below it), first update at 3,
   a relationship created at version 1 first updated at 3 (pre-image), a collection at 2 *)
Example C07_nonvacuous_edge :
  let ops1 := [Mvcc.CreateNode []; Mvcc.CreateNode []; Mvcc.CreateEdge 1 2; Tx (Begin RC); Tx (Commit 1);
               Mvcc.CreateEdge 2 1; Tx (Begin RC); Tx (Commit 2)] in
  let ops2 := [SetEdge 1 0 5; SetEdge 2 1 6; Tx (Gc 2); Tx (Begin RC); Tx (Commit 3); SetEdge 2 1 7] in
  curv (Mvcc.run ops1) = 3 /\ forallb (gc_ok 2) ops2 = true /\
  read_edge (Mvcc.run (ops1 ++ ops2)) 1 2 = Some {| v_ver := 1; v_props := [] |} /\
  read_edge (Mvcc.run (ops1 ++ ops2)) 2 2 = Some {| v_ver := 2; v_props := [] |} /\
  read_edge (Mvcc.run ops1) 2 1 = None /\
  read_edge (Mvcc.run (ops1 ++ ops2)) 2 3 = Some {| v_ver := 3; v_props := [(1, 6)] |} /\
  read_edge (Mvcc.run (ops1 ++ ops2)) 2 4 = Some {| v_ver := 4; v_props := [(1, 7)] |}.
Proof. vm_compute. repeat split; reflexivity. Qed.

(* the same for relationships filled by the loader's setter at creation (Cypher CREATE / MERGE)
   and for property removal (REMOVE r.k, SET r = {..}), which is a versioned change *)
Example C07_nonvacuous_edge_remove :
  let ops1 := [Mvcc.CreateNode []; Mvcc.CreateNode []; CreateEdgeP 1 2 [(0, 1)]; Tx (Begin RC); Tx (Commit 1);
               CreateEdgeP 2 1 [(1, 4)]; Tx (Begin RC); Tx (Commit 2)] in
  let ops2 := [RemoveEdge 1 0; RemoveEdge 2 1; RemoveEdge 2 0] in
  curv (Mvcc.run ops1) = 3 /\ forallb (gc_ok 2) ops2 = true /\
  read_edge (Mvcc.run (ops1 ++ ops2)) 1 2 = Some {| v_ver := 1; v_props := [(0, 1)] |} /\
  read_edge (Mvcc.run (ops1 ++ ops2)) 2 2 = Some {| v_ver := 2; v_props := [(1, 4)] |} /\
  read_edge (Mvcc.run (ops1 ++ ops2)) 2 1 = None /\
  read_edge (Mvcc.run (ops1 ++ ops2)) 1 3 = Some {| v_ver := 3; v_props := [] |} /\
  read_edge (Mvcc.run (ops1 ++ ops2)) 2 3 = Some {| v_ver := 3; v_props := [] |}.
Proof. vm_compute. repeat split; reflexivity. Qed.

(* a node read is the state as of that version in the append-only history of acknowledged
   events, for every history and every version (current, past or future), outside the recorded
   class (no deletion of that node; a deletion erases its past, C07_refuted) *)
Theorem C07_read_is_asof : forall ops id v,
  Known_C07 id ops = false ->
  fst (hrun ops) = nrun ops /\
  option_map v_props (read_at (nrun ops) id v) = asof (snd (hrun ops)) id v.
Proof. exact read_is_asof. Qed.

Example C07_nonvacuous_asof :
  let ops := [NCreate 1 [(0, 1)]; NBump; NSet 1 0 2; NSet 1 1 9; NBump; NBump; NRemove 1 0; NCreate 2 []; NDelete 2] in
  Known_C07 1 ops = false /\
  snd (hrun ops) = [(1, 1, Some [(0, 1)]); (1, 2, Some [(0, 2)]); (1, 2, Some [(0, 2); (1, 9)]);
                    (1, 4, Some [(1, 9)]); (2, 4, Some []); (2, 4, None)] /\
  asof (snd (hrun ops)) 1 1 = Some [(0, 1)] /\ asof (snd (hrun ops)) 1 3 = Some [(0, 2); (1, 9)] /\
  asof (snd (hrun ops)) 1 4 = Some [(1, 9)] /\ asof (snd (hrun ops)) 1 0 = None.
Proof. vm_compute. repeat split; reflexivity. Qed.

(* scans and counts: each id once, count = number of scanned ids = entities readable now *)
Theorem C07_scan_unique : forall ops,
  let s := nrun ops in
  NoDup (scan_ids s) /\ node_count s = N.of_nat (length (scan_ids s)) /\ scan_ids s = live_ids s.
Proof.
  intros ops s. destruct (scan_unique s) as [H1 H2]. repeat split; auto. apply scan_is_live, wf_run.
Qed.

(* a deleted node is not readable at the current (or any) version *)
Theorem C07_deleted_unreadable : forall s id s',
  nstep s (NDelete id) = (s', NOk) -> forall v, read_at s' id v = None.
Proof. exact deleted_unreadable. Qed.

(* non-vacuity: a three-version node, a removal under copy-on-write, then reads of the past *)
Example C07_nonvacuous :
  let ops1 := [NCreate 1 [(0, 1)]; NBump; NSet 1 0 2; NBump] in
  let ops2 := [NRemove 1 0; NCreate 2 []; NBump; NSet 1 1 7] in
  Known_C07 1 ops2 = false /\ ncur (nrun ops1) = 3 /\
  read_at (nrun (ops1 ++ ops2)) 1 2 = Some {| v_ver := 2; v_props := [(0, 2)] |} /\
  read_at (nrun (ops1 ++ ops2)) 1 3 = Some {| v_ver := 3; v_props := [] |} /\
  node_count (nrun (ops1 ++ ops2)) = 2.
Proof. vm_compute. repeat split; reflexivity. Qed.

Print Assumptions C07_read_stable_partial.
Print Assumptions C07_refuted.
Print Assumptions C07_read_stable_edge.
Print Assumptions C07_read_is_asof.
Print Assumptions C07_scan_unique.
Print Assumptions C07_deleted_unreadable.
