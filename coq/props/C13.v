(* C13 — a failed snapshot import leaves the store unchanged; a successful one adds exactly
   the snapshot.  Property theorems only; proofs live in proofs/SnapshotImportProofs.v. *)
From Coq Require Import List NArith ZArith Bool.
From Verif Require Import SnapshotJson SnapshotImportProofs.
Import ListNotations.
Open Scope N_scope.

(* Every store (sound id allocator, relationships between existing nodes), every header,
   every line stream - any records, any truncation or corruption point (LFail anywhere, a
   record that does not parse, an edge to an unknown node), version 1 or 2, any dedup keys:
   if the import fails and no dedup merge happened before the failure (the recorded class),
   nodes, relationships and hierarchy declarations are exactly what they were. *)
Theorem C13_atomic : forall narrow norm numstr s h ls ks s',
  Aw s -> closed s ->
  import narrow norm numstr s h ls ks = Failed s' ->
  merges_of narrow norm numstr s h ls ks = 0 ->
  nodes s' = nodes s /\ edges s' = edges s /\ hier s' = hier s.
Proof. exact atomic. Qed.

(* the recorded class is genuinely violated: existing (:P {name:"x"}); the stream merges a
   (:P:S {name:"x", extra:7}) record into it on dedup key name, adds a self relationship and
   then fails; the label, the property and the relationship stay *)
Theorem C13_refuted :
  let imp := import no_narrow (fun s => s) (fun _ => []) c13_start (HOk true [[80]; [83]]) c13_lines c13_keys in
  Aw c13_start /\ closed c13_start
  /\ (exists s', imp = Failed s' /\ ~ (nodes s' = nodes c13_start /\ edges s' = edges c13_start /\ hier s' = hier c13_start))
  /\ merges_of no_narrow (fun s => s) (fun _ => []) c13_start (HOk true [[80]; [83]]) c13_lines c13_keys = 1.
Proof. exact refuted_merge. Qed.

(* A successful import, for every store, stream and dedup keys: one created-or-merged node
   per node record, the created ones are additional nodes, and the relationships are the
   previous ones followed by exactly one per edge record. *)
Theorem C13_success_exact : forall narrow norm numstr s h ls ks s' c m,
  import narrow norm numstr s h ls ks = Imported s' c m ->
  (N.to_nat c + N.to_nat m = count_n ls)%nat
  /\ (length (nodes s') = length (nodes s) + N.to_nat c)%nat
  /\ exists E, edges s' = edges s ++ E /\ length E = count_e ls.
Proof. exact success_exact. Qed.

(* non-vacuity of C13_atomic: the same store and stream without dedup keys fails with no
   merge, after having created a node and a relationship that the rollback removes *)
Example C13_nonvacuous :
  merges_of no_narrow (fun s => s) (fun _ => []) c13_start (HOk true [[80]; [83]]) c13_lines [] = 0
  /\ exists s', import no_narrow (fun s => s) (fun _ => []) c13_start (HOk true [[80]; [83]]) c13_lines [] = Failed s'
                /\ free_n s' = [2].
Proof. split; [vm_compute; reflexivity|]. eexists. split; vm_compute; reflexivity. Qed.

Print Assumptions C13_atomic.
Print Assumptions C13_refuted.
Print Assumptions C13_success_exact.
