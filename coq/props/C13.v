(* C13 — a failed snapshot import leaves the store unchanged; a successful one adds exactly
   the snapshot.  Property theorems only; proofs live in proofs/SnapshotImportProofs.v. *)
From Coq Require Import List NArith ZArith Bool.
From Verif Require Import SnapshotJson SnapshotImportProofs SnapshotContentProofs SnapshotProvenanceProofs.
Import ListNotations.
Open Scope N_scope.

(* Every store (sound id allocator, relationships between existing nodes), every header,
   every line stream - any records, any truncation or corruption point (LFail anywhere, a
   record that does not parse, an edge to an unknown node), version 1 or 2, any dedup keys:
   if the import fails and no dedup merge happened before the failure (the recorded class),
   nodes, relationships and hierarchy declarations are exactly what they were. *)
Theorem C13_atomic : forall narrow norm numstr s h ls ks s',
  Aw s -> closed s ->
  import narrow norm numstr s h ls ks = Failed s' ->
  merges_of narrow norm numstr s h ls ks = 0 ->
  nodes s' = nodes s /\ edges s' = edges s /\ hier s' = hier s.
Proof. exact atomic. Qed.

(* the recorded class is genuinely violated: existing (:P {name:"x"}); the stream merges a
   (:P:S {name:"x", extra:7}) record into it on dedup key name, adds a self relationship and
   then fails; the label, the property and the relationship stay *)
Theorem C13_refuted :
  let imp := import no_narrow (fun s => s) (fun _ => []) c13_start (HOk true [[80]; [83]]) c13_lines c13_keys in
  Aw c13_start /\ closed c13_start
  /\ (exists s', imp = Failed s' /\ ~ (nodes s' = nodes c13_start /\ edges s' = edges c13_start /\ hier s' = hier c13_start))
  /\ merges_of no_narrow (fun s => s) (fun _ => []) c13_start (HOk true [[80]; [83]]) c13_lines c13_keys = 1.
Proof. exact refuted_merge. Qed.

(* A successful import, for every store, stream and dedup keys: one created-or-merged node
   per node record, the created ones are additional nodes, and the relationships are the
   previous ones followed by exactly one per edge record. *)
Theorem C13_success_exact : forall narrow norm numstr s h ls ks s' c m,
  import narrow norm numstr s h ls ks = Imported s' c m ->
  (N.to_nat c + N.to_nat m = count_n ls)%nat
  /\ (length (nodes s') = length (nodes s) + N.to_nat c)%nat
  /\ exists E, edges s' = edges s ++ E /\ length E = count_e ls.
Proof. exact success_exact. Qed.

(* non-vacuity of C13_atomic: the same store and stream without dedup keys fails with no
   merge, after having created a node and a relationship that the rollback removes *)
Example C13_nonvacuous :
  merges_of no_narrow (fun s => s) (fun _ => []) c13_start (HOk true [[80]; [83]]) c13_lines [] = 0
  /\ exists s', import no_narrow (fun s => s) (fun _ => []) c13_start (HOk true [[80]; [83]]) c13_lines [] = Failed s'
                /\ free_n s' = [2].
Proof. split; [vm_compute; reflexivity|]. eexists. split; vm_compute; reflexivity. Qed.

(* ---- the content of a successful import ---- *)

(* For every store (sound allocator, distinct node ids, column maps with unique keys), every
   header, every line stream (property maps of node records with unique keys), every set of
   dedup keys: a successful import is a sequence of actions, exactly one per node record or
   edge record and in their order (acts): a node record is either merged into one existing
   node (AMerge: a node that exists at that point, chosen by the dedup index, and changed
   exactly as merge_spec says - same id, labels united, per property key a value the node's
   column tier holds wins, otherwise the record's value is taken, a null in the record only
   marks an absent key; every other node is untouched) or created once (ACreate: a node id
   not in use, the record's label set and property values, create_spec); an edge record
   becomes one relationship between the current images of its endpoint ids with the record's
   type and properties (ALink).  The counts returned are the numbers of creations and merges. *)
Theorem C13_success_content : forall narrow norm numstr s h ls ks s' c m,
  wf_pre s -> wf_lines ls ->
  import narrow norm numstr s h ls ks = Imported s' c m ->
  exists acts im,
    map act_rec acts = line_recs ls
    /\ astar narrow norm numstr ks (nodes s, edges s, []) acts (nodes s', edges s', im)
    /\ c = nlen (created_ids acts) /\ m = N.of_nat (count_merges acts).
Proof. exact success_actions. Qed.

(* "merged on the requested dedup keys": C13_success_content, plus, for every merge action in
   the sequence, what its target matched (hit_prov): under one of the dedup keys the record
   carries a string or number whose normalised form vs, together with one of the record's
   labels l ("" if it has none), is answered by the target - which is either a node of the
   start store carrying label l (a label of the header) whose row or column value under that
   key normalises to vs, or a node created earlier from this stream by a record carrying
   label l and a value normalising to vs under that key. *)
Theorem C13_success_content_merged_on_keys : forall narrow norm numstr s v2 labels ls ks s' c m,
  wf_pre s -> wf_lines ls ->
  import narrow norm numstr s (HOk v2 labels) ls ks = Imported s' c m ->
  exists acts im,
    map act_rec acts = line_recs ls
    /\ astar narrow norm numstr ks (nodes s, edges s, []) acts (nodes s', edges s', im)
    /\ c = nlen (created_ids acts) /\ m = N.of_nat (count_merges acts)
    /\ (forall p r eid q, acts = p ++ AMerge r eid :: q ->
         hit_prov narrow norm numstr s labels v2 ks p r eid).
Proof. exact success_actions_prov. Qed.

(* what any such sequence of actions means: *)

(* relationships: the previous ones, unchanged and in place, followed by exactly one per edge
   record; node ids: the previous ones followed by the created ones *)
Theorem C13_content_relationships : forall narrow norm numstr ks ns es im acts ns' es' im',
  astar narrow norm numstr ks (ns, es, im) acts (ns', es', im') ->
  es' = es ++ links_of narrow acts /\ im' = images acts ++ im
  /\ map n_id ns' = map n_id ns ++ created_ids acts.
Proof. exact astar_edges_images. Qed.

(* each new relationship joins the images of its record's endpoint ids: the node the latest
   earlier node record with that snapshot id was merged into or created as *)
Theorem C13_content_link_endpoints : forall narrow norm numstr ks ns es pre r a b post c',
  astar narrow norm numstr ks (ns, es, []) (pre ++ ALink r a b :: post) c' ->
  rget (er_src r) (images pre) = Some a /\ rget (er_tgt r) (images pre) = Some b.
Proof. exact astar_link_images. Qed.

(* every pre-existing node is still there, changed exactly by the records merged into it, in
   order (merge_chain of merge_spec); a node no record was merged into is there unchanged *)
Theorem C13_content_existing_nodes : forall narrow norm numstr ks ns es im acts ns' es' im',
  astar narrow norm numstr ks (ns, es, im) acts (ns', es', im') ->
  forall n, In n ns ->
  exists n', In n' ns' /\ merge_chain narrow (merged_into (n_id n) acts) n n'.
Proof. exact astar_node_fate. Qed.

(* every created node carries its record's labels and values, then whatever later records of
   the same stream were merged into it *)
Theorem C13_content_created_nodes : forall narrow norm numstr ks ns es im pre r id post ns' es' im',
  astar narrow norm numstr ks (ns, es, im) (pre ++ ACreate r id :: post) (ns', es', im') ->
  exists n0 n', create_spec narrow r id n0 /\ merge_chain narrow (merged_into id post) n0 n' /\ In n' ns'.
Proof. exact astar_created_fate. Qed.

(* node ids stay pairwise distinct: created ids are new and differ from each other *)
Theorem C13_content_ids_distinct : forall narrow norm numstr ks ns es im acts ns' es' im',
  astar narrow norm numstr ks (ns, es, im) acts (ns', es', im') ->
  NoDup (map n_id ns) -> NoDup (map n_id ns').
Proof. exact astar_nodup. Qed.

(* the merge rule in purely observable terms, for a node whose row and column tiers agree
   (every node written through set_node_property or by an import): per key of the record, a
   non-null value the node has wins; otherwise the record's value is taken; a null in the
   record replaces nothing and only marks an absent key *)
Theorem C13_merge_rule_observable : forall narrow r n n',
  col_ok n -> tiers_agree n -> merge_spec narrow r n n' ->
  forall k, aget k (merged n') =
    match aget k (nr_props r) with
    | None => aget k (merged n)
    | Some j =>
        match aget k (merged n) with
        | Some o => if is_null o then (if is_null (j2p narrow j) then Some o else Some (j2p narrow j)) else Some o
        | None => if is_null (j2p narrow j) then Some PNull else Some (j2p narrow j)
        end
    end.
Proof. exact merge_spec_observable. Qed.

(* non-vacuity of C13_success_content: a store with (:P {name:"x"}), a stream with a record
   that merges into it on name, a record that is created, and an edge between them *)
Example C13_content_nonvacuous :
  wf_pre c13_start /\ wf_lines nv13_lines
  /\ exists s', import no_narrow (fun s => s) (fun _ => []) c13_start (HOk true [[80]; [83]; [81]]) nv13_lines c13_keys
                = Imported s' 1 1.
Proof. exact nv13_content. Qed.

Print Assumptions C13_atomic.
Print Assumptions C13_refuted.
Print Assumptions C13_success_exact.
Print Assumptions C13_success_content.
Print Assumptions C13_content_relationships.
Print Assumptions C13_content_link_endpoints.
Print Assumptions C13_content_existing_nodes.
Print Assumptions C13_content_created_nodes.
Print Assumptions C13_content_ids_distinct.
Print Assumptions C13_merge_rule_observable.
Print Assumptions C13_success_content_merged_on_keys.
