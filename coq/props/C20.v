(* C20 — RESP framing survives any TCP chunking and pipelining.
   Property theorems only; proofs live in proofs/RespProofs.v. *)
From Coq Require Import List NArith ZArith Bool.
From Verif Require Import Resp RespProofs.
Import ListNotations.
Open Scope N_scope.

(* encode then decode returns the value and leaves exactly what followed it, for every
   well-formed value (UTF-8 strings without CR/LF, i64 integers, bulk strings up to
   512 MiB, nesting up to 32) and every continuation of the stream *)
Theorem C20_roundtrip : forall v r,
  wf MAX_BULK MAX_DEPTH v -> decode (encode v ++ r) = Done v r.
Proof. exact wf_roundtrip. Qed.

(* every strict prefix of a frame: the decoder asks for more (k tells Ok(None) from
   Err(Incomplete)) and the buffer is left exactly as it was *)
Theorem C20_prefix : forall v p t,
  wf MAX_BULK MAX_DEPTH v -> p ++ t = encode v -> t <> [] ->
  exists k, decode p = More k p.
Proof. exact wf_prefix. Qed.

(* the same two laws for inline commands *)
Theorem C20_inline_roundtrip : forall l r,
  wf_inline l -> decode ((l ++ crlf) ++ r) = Done (inline_value l) r.
Proof. exact inline_frame_roundtrip. Qed.

Theorem C20_inline_prefix : forall l p t,
  wf_inline l -> p ++ t = l ++ crlf -> t <> [] -> decode p = More false p.
Proof. exact inline_frame_prefix. Qed.

(* every sequence of well-formed frames (RESP values and inline commands mixed), every
   way of cutting its bytes into reads (empty reads included): the server loop hands
   exactly these frames, in order, once each, to the command handler, reports no
   protocol error, and ends with an empty buffer *)
Theorem C20_chunking : forall fs chunks,
  Forall frame_wf fs -> concat chunks = flat_map frame_bytes fs ->
  run [] chunks = ([], map (fun f => Frame (frame_value f)) fs).
Proof. exact chunking. Qed.

(* non-vacuity: three frames (an array command with a binary and an empty bulk string, an
   inline command, a nested array with a null), cut inside the "$5" header, inside the
   payload, inside a CRLF and inside the inline line *)
Definition ex_frames : list frame :=
  [ FVal (Arr [Bulk (Some [69; 67; 72; 79]); Bulk (Some [0; 255; 13; 10; 7]); Bulk (Some [])]);
    FInline [80; 73; 78; 71; 32; 34; 97; 32; 98; 34];
    FVal (Arr [Arr [RInt (-5)%Z; Bulk None]; SStr [79; 75]; RNull]) ].

Definition ex_stream : bytes := flat_map frame_bytes ex_frames.

Definition ex_chunks : list bytes :=
  [ firstn 15 ex_stream;                       (* ... "$" *)
    firstn 2 (skipn 15 ex_stream);             (* "5" CR : cut inside the header CRLF *)
    firstn 5 (skipn 17 ex_stream);             (* LF and part of the payload *)
    [];
    firstn 12 (skipn 22 ex_stream);
    skipn 34 ex_stream ].

Example C20_nonvacuous :
  Forall frame_wf ex_frames /\ concat ex_chunks = ex_stream /\
  (forall c, In c ex_chunks -> c <> ex_stream) /\
  run [] ex_chunks = ([], map (fun f => Frame (frame_value f)) ex_frames) /\
  fst (feed [] (firstn 16 ex_stream)) = firstn 16 ex_stream.
Proof.
  split.
  { repeat constructor; cbn; try (vm_compute; intuition congruence);
      repeat constructor; try discriminate; try (vm_compute; intuition congruence).
    all: try (eexists; eexists; vm_compute; reflexivity). }
  split; [vm_compute; reflexivity|].
  split; [intros c Hc; vm_compute in Hc; intuition (subst; discriminate)|].
  split; vm_compute; reflexivity.
Qed.

Print Assumptions C20_roundtrip.
Print Assumptions C20_prefix.
Print Assumptions C20_inline_roundtrip.
Print Assumptions C20_inline_prefix.
Print Assumptions C20_chunking.

(* statement pinning *)
Check C20_chunking : forall fs chunks,
  Forall frame_wf fs -> concat chunks = flat_map frame_bytes fs ->
  run [] chunks = ([], map (fun f => Frame (frame_value f)) fs).
