(* C17 — persistent storage never mixes tenants.
   Property theorems only; proofs live in proofs/StorageProofs.v.

   The statements range over EVERY tenant name (any byte string: prefixes of other
   names, names containing the key separator ':', the empty name, any bytes) and
   EVERY history of puts and deletes of nodes and relationships whose ids are u64
   ([valid_op]).  [stored_node ops t id] / [stored_edge ops t id] is the abstract
   view: the payload of the last put that named exactly tenant [t] and [id], unless
   a delete of that slot followed.  A stored value is (id, payload). *)
From Coq Require Import List NArith Bool.
From Verif Require Import Storage StorageProofs.
Import ListNotations.
Open Scope N_scope.

(* point reads return exactly what that tenant stored under that id *)
Theorem C17_get_node_exact : forall ops t id, Forall valid_op ops -> id < u64_bound ->
  get_node (run ops) t id = option_map (pair id) (stored_node ops t id).
Proof. exact get_node_exact. Qed.

Theorem C17_get_edge_exact : forall ops t id, Forall valid_op ops -> id < u64_bound ->
  get_edge (run ops) t id = option_map (pair id) (stored_edge ops t id).
Proof. exact get_edge_exact. Qed.

(* a scan returns exactly the values stored under that tenant, each once *)
Theorem C17_scan_nodes_exact : forall ops t, Forall valid_op ops ->
  (forall x, In x (scan_nodes (run ops) t) <-> exists id p, x = (id, p) /\ stored_node ops t id = Some p)
  /\ NoDup (map fst (scan_nodes (run ops) t)).
Proof. exact scan_nodes_exact. Qed.

Theorem C17_scan_edges_exact : forall ops t, Forall valid_op ops ->
  (forall x, In x (scan_edges (run ops) t) <-> exists id p, x = (id, p) /\ stored_edge ops t id = Some p)
  /\ NoDup (map fst (scan_edges (run ops) t)).
Proof. exact scan_edges_exact. Qed.

(* scans of two different tenants never return the same stored entry *)
Theorem C17_scans_disjoint : forall ops t1 t2 e, t1 <> t2 ->
  ~ (In e (scan_entries (nodes_cf (run ops)) t1) /\ In e (scan_entries (nodes_cf (run ops)) t2)) /\
  ~ (In e (scan_entries (edges_cf (run ops)) t1) /\ In e (scan_entries (edges_cf (run ops)) t2)).
Proof. exact scans_disjoint. Qed.

(* an operation of another tenant changes nothing this tenant can read *)
Theorem C17_noninterference : forall ops o t, Forall valid_op ops -> valid_op o -> op_tenant o <> t ->
  (forall x, In x (scan_nodes (run (ops ++ [o])) t) <-> In x (scan_nodes (run ops) t)) /\
  (forall x, In x (scan_edges (run (ops ++ [o])) t) <-> In x (scan_edges (run ops) t)) /\
  (forall id, id < u64_bound -> get_node (run (ops ++ [o])) t id = get_node (run ops) t id) /\
  (forall id, id < u64_bound -> get_edge (run (ops ++ [o])) t id = get_edge (run ops) t id).
Proof. exact noninterference. Qed.

(* the tenant listing is exactly the set of tenants that have a node stored, each once *)
Theorem C17_list_exact : forall ops, Forall valid_op ops ->
  (forall t, In t (list_persisted_tenants (run ops)) <-> exists id p, stored_node ops t id = Some p)
  /\ NoDup (list_persisted_tenants (run ops)).
Proof. exact list_exact. Qed.

(* recovery of a tenant returns exactly that tenant's nodes and relationships *)
Theorem C17_recover_exact : forall ops t, Forall valid_op ops ->
  (forall x, In x (fst (recover (run ops) t)) <-> exists id p, x = (id, p) /\ stored_node ops t id = Some p) /\
  (forall x, In x (snd (recover (run ops) t)) <-> exists id p, x = (id, p) /\ stored_edge ops t id = Some p).
Proof. exact recover_exact. Qed.

(* non-vacuity: tenants "a", "a:n" (shares the scan prefix "a:" and sorts inside it), "a;"
   (sorts right after the prefix range) and "" with overlapping ids, an overwrite and a
   delete; the history is valid, every tenant reads back its own data only, and the
   listing names the three tenants that still hold a node. *)
Example C17_nonvacuous :
  let a := [97] in let an := [97; 58; 110] in let a2 := [97; 59] in
  let ops := [PutNode a 1 101; PutNode an 1 102; PutNode a2 1 103; PutNode [] 18446744073709551615 104;
              PutEdge an 1 105; PutNode a 2 106; PutNode a 1 107; DelNode a2 1; PutEdge a 1 108] in
  Forall valid_op ops /\
  scan_nodes (run ops) a = [(1, 107); (2, 106)] /\
  scan_nodes (run ops) an = [(1, 102)] /\
  scan_nodes (run ops) a2 = [] /\
  scan_edges (run ops) a = [(1, 108)] /\
  scan_edges (run ops) an = [(1, 105)] /\
  stored_node ops a 1 = Some 107 /\ stored_node ops an 1 = Some 102 /\
  list_persisted_tenants (run ops) = [[]; [97]; [97; 58; 110]].
Proof.
  cbv zeta. split.
  - repeat constructor.
  - vm_compute. repeat split; reflexivity.
Qed.

Print Assumptions C17_get_node_exact.
Print Assumptions C17_get_edge_exact.
Print Assumptions C17_scan_nodes_exact.
Print Assumptions C17_scan_edges_exact.
Print Assumptions C17_scans_disjoint.
Print Assumptions C17_noninterference.
Print Assumptions C17_list_exact.
Print Assumptions C17_recover_exact.
