(* C24 — natural-language query translation never returns a mutating statement.
   Property theorems only; proofs live in proofs/NlqProofs.v. *)
From Coq Require Import List NArith Bool.
From Verif Require Import QueryCache Routing Nlq NlqProofs.
Import ListNotations.
Open Scope N_scope.

(* for every response text of the language model: a statement that text_to_cypher hands back
   parses and contains no write / DDL keyword outside literals and comments *)
Theorem C24_safe_is_readonly : forall (parses : bytes -> bool) (r q : bytes),
  text_to_cypher (plans_as_read_tok parses) r = VAccepted q ->
  is_write_tok (lexw q) = false /\ parses q = true.
Proof. exact accepted_is_read. Qed.

(* with the engine's own verdict as the check: whatever is handed back is exactly the extracted
   statement, starts with a read keyword and was planned as a read by the engine *)
Theorem C24_accepted_checked : forall (plans_as_read : bytes -> bool) (r q : bytes),
  text_to_cypher plans_as_read r = VAccepted q ->
  extract r = XSome q /\ prefix_ok q = true /\ plans_as_read q = true.
Proof. exact accepted_inv. Qed.

(* extract_cypher is total: none of its slices is out of range, for every response text *)
Theorem C24_extract_total : forall r, exists q, extract r = XSome q.
Proof. exact extract_total. Qed.

Theorem C24_never_panics : forall (plans_as_read : bytes -> bool) (r : bytes),
  text_to_cypher plans_as_read r <> VPanic.
Proof. exact never_panics. Qed.

(* the part not carried by a theorem: the planner's is_write equals the token classifier *)
Definition C24_full : Prop :=
  forall (ast store : Type) (parse : bytes -> option ast) (plan_is_write : ast -> store -> bool),
  forall q a g, parse q = Some a -> plan_is_write a g = is_write_tok (lexw q).

(* non-vacuity: "```cypher<LF>MATCH (n) RETURN n<LF>```" is accepted (as "MATCH (n) RETURN n");
   "MATCH (n) DETACH DELETE n" — accepted by the old first-keyword check — is rejected *)
Example C24_nonvacuous :
  let ok := [96;96;96;99;121;112;104;101;114;10;77;65;84;67;72;32;40;110;41;32;82;69;84;85;82;78;32;110;10;96;96;96] in
  let bad := [77;65;84;67;72;32;40;110;41;32;68;69;84;65;67;72;32;68;69;76;69;84;69;32;110] in
  text_to_cypher (plans_as_read_tok (fun _ => true)) ok
    = VAccepted [77;65;84;67;72;32;40;110;41;32;82;69;84;85;82;78;32;110] /\
  prefix_ok bad = true /\
  text_to_cypher (plans_as_read_tok (fun _ => true)) bad = VRejected.
Proof. vm_compute. repeat split; reflexivity. Qed.

Print Assumptions C24_safe_is_readonly.
Print Assumptions C24_accepted_checked.
Print Assumptions C24_extract_total.
Print Assumptions C24_never_panics.
