(* C22 — every server reply is exactly one well-formed RESP frame.
   Property theorems only; proofs live in proofs/RespProofs.v. *)
From Coq Require Import List NArith ZArith Bool.
From Verif Require Import Resp RespProofs.
Import ListNotations.
Open Scope N_scope.

(* Every RespValue the handler can build — [repr I64_MAX] is only what the Rust types
   guarantee: Strings are UTF-8, integers are i64, lengths are below 2^63 — encodes to
   bytes that a RESP reader with room for the value's own nesting decodes as exactly one
   frame with nothing left over; what it reads is the value with CR and LF of line-type
   payloads replaced by spaces.  No condition on the payloads: CR, LF and CRLF anywhere. *)
Theorem C22_one_frame : forall v,
  repr I64_MAX v ->
  exists v', decode_with I64_MAX (depth v) (encode v) = Done v' [] /\ v' = sanitize v.
Proof. exact reply_one_frame_ex. Qed.

(* with the server's own decoder limits (bulk <= 512 MiB, nesting <= 32) *)
Theorem C22_one_frame_limits : forall v,
  repr MAX_BULK v -> (depth v <= MAX_DEPTH)%nat ->
  decode (encode v) = Done (sanitize v) [].
Proof. exact reply_one_frame_limits. Qed.

(* what the reader gets has no CR or LF in any line-type payload, and values without them
   are read back unchanged *)
Theorem C22_sanitize_clean : forall v, clean (sanitize v).
Proof. exact clean_sanitize. Qed.

Theorem C22_clean_unchanged : forall v, clean v -> sanitize v = v.
Proof. exact sanitize_clean. Qed.

(* non-vacuity: an error reply echoing "a\r\nb", inside a nested array with a bulk string
   that itself contains CRLF *)
Example C22_nonvacuous :
  let v := Arr [RErr [69; 82; 82; 32; 97; 13; 10; 98]; Arr [Bulk (Some [13; 10; 43; 13; 10]); SStr [10]]] in
  repr I64_MAX v /\
  decode (encode v) = Done (Arr [RErr [69; 82; 82; 32; 97; 32; 32; 98];
                                 Arr [Bulk (Some [13; 10; 43; 13; 10]); SStr [32]]]) [] /\
  encode (RErr [97; 13; 10; 98]) = [45; 97; 32; 32; 98; 13; 10].
Proof. vm_compute. repeat split; try reflexivity; intros H; discriminate H. Qed.

Print Assumptions C22_one_frame.
Print Assumptions C22_one_frame_limits.
Print Assumptions C22_sanitize_clean.
Print Assumptions C22_clean_unchanged.

Check C22_one_frame : forall v,
  repr I64_MAX v ->
  exists v', decode_with I64_MAX (depth v) (encode v) = Done v' [] /\ v' = sanitize v.
