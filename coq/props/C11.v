(* C11 — unique constraints reject exactly the duplicates.
   Property theorems only; proofs live in proofs/ConstraintProofs.v.
   State: live nodes (labels, properties), constraint set, constraint index (label, key, value,
   holder).  Operations: create constraint (duplicate check + backfill), create node with
   properties, set / remove property, add / remove label, delete — with the repaired maintenance
   rules of src/graph/store.rs.  All theorems are over every history ([run ops], any length). *)
From Coq Require Import List NArith Bool.
From Verif Require Import Constraint ConstraintProofs.
Import ListNotations.
Open Scope N_scope.

(* the invariant (distinct ids, index = exactly the live holders, one holder per value)
   holds initially and is preserved by every operation, accepted or refused *)
Theorem C11_invariant : Inv empty /\ forall s o, Inv s -> Inv (fst (step s o)).
Proof. split; [exact empty_inv | exact step_inv]. Qed.

(* after any history the constraint index is exactly the live (label, key, value) holders:
   no stale holder, no missing one *)
Theorem C11_index_exact : forall ops l k v h,
  let s := run ops in
  In (l, k, v, h) (idx s) <->
  In (l, k) (cons s) /\
  exists n, In n (nodes s) /\ nid n = h /\ In l (nlabels n) /\ pget k (nprops n) = Some v.
Proof. intros ops l k v h. apply index_exact. apply run_inv. Qed.

(* after any history no two live nodes of a constrained label hold equal values *)
Theorem C11_no_dups : forall ops l k v n1 n2,
  let s := run ops in
  In (l, k) (cons s) -> In n1 (nodes s) -> In n2 (nodes s) ->
  In l (nlabels n1) -> In l (nlabels n2) ->
  pget k (nprops n1) = Some v -> pget k (nprops n2) = Some v -> n1 = n2.
Proof. intros ops l k v n1 n2. apply no_dups. apply run_inv. Qed.

(* SET n.k = x on a live node is refused iff another live node of one of its constrained
   labels holds x — and accepted otherwise; SET n.k = null is always accepted *)
Theorem C11_set_refuse_iff : forall ops id k x n,
  let s := run ops in
  find_node id (nodes s) = Some n ->
  (snd (set_prop s id k (Some x)) = RViolation <->
   exists l, In l (nlabels n) /\ In (l, k) (cons s) /\ other_holds s id l k x) /\
  (snd (set_prop s id k (Some x)) = ROk \/ snd (set_prop s id k (Some x)) = RViolation) /\
  snd (set_prop s id k None) = ROk.
Proof.
  intros ops id k x n s F. split; [apply set_prop_refuse_iff; [apply run_inv | exact F]|].
  split; [apply set_prop_result | apply set_null_accepted].
Qed.

(* CREATE (:ls {ps}) is refused iff one of its values is held by a live node under a constraint
   of one of its labels *)
Theorem C11_create_refuse_iff : forall ops ls ps,
  let s := run ops in
  (snd (create_node s ls ps) = RViolation <->
   exists k v l m, In (k, v) ps /\ In l ls /\ In (l, k) (cons s) /\
                   In m (nodes s) /\ In l (nlabels m) /\ pget k (nprops m) = Some v) /\
  (snd (create_node s ls ps) = ROk \/ snd (create_node s ls ps) = RViolation).
Proof.
  intros ops ls ps s. split; [apply create_node_refuse_iff; apply run_inv|].
  unfold create_node. apply set_props_result.
Qed.

(* SET n:l is refused iff another live :l node holds one of n's values for a constrained key *)
Theorem C11_add_label_refuse_iff : forall ops id l n,
  let s := run ops in
  find_node id (nodes s) = Some n ->
  (snd (add_label s id l) = RViolation <->
   exists k v, In (l, k) (cons s) /\ pget k (nprops n) = Some v /\ other_holds s id l k v).
Proof. intros ops id l n s F. apply add_label_refuse_iff; [apply run_inv | exact F]. Qed.

(* CREATE CONSTRAINT is refused iff two live nodes of the label already hold equal values *)
Theorem C11_constraint_refuse_iff : forall ops l k,
  let s := run ops in
  snd (create_constraint s l k) = RRefused <->
  exists n1 n2 v, In n1 (nodes s) /\ In n2 (nodes s) /\ n1 <> n2 /\
                  In l (nlabels n1) /\ In l (nlabels n2) /\
                  pget k (nprops n1) = Some v /\ pget k (nprops n2) = Some v.
Proof. intros ops l k s. apply create_constraint_refuse_iff. apply run_inv. Qed.

(* removals never fail *)
Theorem C11_removals_accepted : forall s id x,
  snd (remove_prop s id x) = ROk /\ snd (remove_label s id x) = ROk /\ snd (delete s id) = ROk.
Proof.
  intros s id x. unfold remove_prop, remove_label, delete.
  destruct (find_node id (nodes s)) as [n|]; [|auto]. destruct (memN x (nlabels n)); auto.
Qed.

(* a refused operation leaves the graph, the constraints and the index (as a set) unchanged *)
Theorem C11_refused_unchanged : forall ops o,
  let s := run ops in
  snd (step s o) <> ROk -> same_graph s (fst (step s o)).
Proof. intros ops o s. apply refused_unchanged. apply run_inv. Qed.

(* ---- non-vacuity ---- *)
(* constraint on (1,1); a node takes value 1, changes to 2, a second node may then take 1
   (the stale-holder history), a third may not; the value is free again after REMOVE, after
   losing the label, and after DELETE; adding the label to a duplicate holder is refused *)
Example C11_nonvacuous :
  map fst (trace empty
    [CreateConstraint 1 1; CreateNode [1] [(1,1)]; CreateNode [1] [(1,1)]; SetProp 1 1 (Some 2);
     CreateNode [1] [(1,1)]; CreateNode [1] [(1,1)]; RemoveProp 3 1; CreateNode [1] [(1,1)];
     RemoveLabel 5 1; CreateNode [1] [(1,1)]; Delete 6; CreateNode [1] [(1,1)];
     CreateNode [2] [(1,1)]; AddLabel 8 1; SetProp 7 1 (Some 2)])
  = [ROk; ROk; RViolation; ROk; ROk; RViolation; ROk; ROk; ROk; ROk; ROk; ROk; ROk; RViolation; RViolation]
  /\ snd (create_constraint (run [CreateNode [1] [(1,1)]; CreateNode [1] [(1,1)]]) 1 1) = RRefused
  /\ find_node 1 (nodes (run [CreateConstraint 1 1; CreateNode [1] [(1,1)]])) <> None.
Proof. vm_compute. repeat split; try reflexivity. discriminate. Qed.

Print Assumptions C11_invariant.
Print Assumptions C11_index_exact.
Print Assumptions C11_no_dups.
Print Assumptions C11_set_refuse_iff.
Print Assumptions C11_create_refuse_iff.
Print Assumptions C11_add_label_refuse_iff.
Print Assumptions C11_constraint_refuse_iff.
Print Assumptions C11_removals_accepted.
Print Assumptions C11_refused_unchanged.
