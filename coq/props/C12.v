(* C12 — snapshot export then import reproduces the graph.
   Property theorems only; proofs live in proofs/SnapshotJsonProofs.v. *)
From Coq Require Import List NArith ZArith Bool.
From Verif Require Import SnapshotJson SnapshotJsonProofs SnapshotJsonWitness SnapshotImportProofs SnapshotContentProofs.
Import ListNotations.
Open Scope N_scope.

(* every property value outside the two recorded value classes survives
   property_to_json / json_to_property unchanged, type included
   (wfv is the i32 range of Duration.nanos, a type invariant of PropertyValue) *)
Theorem C12_value_rt : forall narrow v,
  wfv v -> nonfinite v = false -> type_tag_map v = false -> j2p narrow (p2j v) = v.
Proof. exact value_rt. Qed.

(* every hierarchy declaration outside the recorded class survives export / import *)
Theorem C12_hier_decl_rt : forall h, hier_ops_default h = false -> import_hier (export_hier h) = h.
Proof. exact import_export_hier. Qed.

(* every graph (any number of nodes, label sets, row / column tiers, parallel and self
   relationships, hierarchy declarations) outside the recorded classes: importing its export
   into an empty store succeeds, creates one node per node, merges none, and the result is
   isomorphic through an explicit id bijection m: same label sets, same property values as
   reads resolve them, relationships renamed one for one (direction, type, properties,
   multiplicity), same hierarchy declarations *)
Theorem C12_graph_rt : forall narrow norm numstr g,
  wf_store g -> Known_C12 g = false ->
  exists g' m,
    import narrow norm numstr empty_store (fst (export g)) (snd (export g)) []
      = Imported g' (nlen (nodes g)) 0
    /\ iso m g g'.
Proof. exact graph_rt. Qed.

(* import into ANY store (not only an empty one) without dedup keys is the disjoint union:
   nothing is merged, the nodes are the previous ones unchanged followed by one new node per
   node record (new pairwise distinct ids, the record's labels and values), the relationships
   the previous ones followed by one per edge record *)
Theorem C12_import_disjoint_union : forall narrow norm numstr s h ls s' c m,
  wf_pre s -> wf_lines ls ->
  import narrow norm numstr s h ls [] = Imported s' c m ->
  exists acts cr,
    map act_rec acts = line_recs ls /\ m = 0
    /\ nodes s' = nodes s ++ cr
    /\ Forall2 (fun p n' => create_spec narrow (fst p) (snd p) n') (creates acts) cr
    /\ NoDup (map n_id (nodes s'))
    /\ edges s' = edges s ++ links_of narrow acts.
Proof. exact disjoint_union. Qed.

(* ---- the recorded classes are genuinely violated (faithful model) ---- *)
(* rt_holds g: importing the export of g into an empty store yields a graph isomorphic to g *)
(* a node property +infinity comes back as null *)
Theorem C12_refuted_nonfinite :
  exists g, Known_C12_nonfinite g = true /\ wf_store g /\ ~ rt_holds g.
Proof. exact refuted_nonfinite. Qed.

(* a map {__type: "Duration"} comes back as a zero Duration *)
Theorem C12_refuted_type_tag :
  exists g, Known_C12_type_tag g = true /\ wf_store g /\ ~ rt_holds g.
Proof. exact refuted_type_tag. Qed.

(* a hierarchy with a measure and no monoids comes back with [sum] *)
Theorem C12_refuted_hier_ops :
  exists g, Known_C12_hier_ops g = true /\ wf_store g /\ ~ rt_holds g.
Proof. exact refuted_hier_ops. Qed.

(* non-vacuity: an unlabelled node, a two-label node with a string that has outer
   whitespace, a null and a nested map, two parallel relationships and a self loop, one
   hierarchy declaration with reverse and a measure label *)
Example C12_nonvacuous : wf_store nv_graph /\ Known_C12 nv_graph = false.
Proof. exact nv_graph_ok. Qed.

Print Assumptions C12_value_rt.
Print Assumptions C12_hier_decl_rt.
Print Assumptions C12_graph_rt.
Print Assumptions C12_refuted_nonfinite.
Print Assumptions C12_refuted_type_tag.
Print Assumptions C12_refuted_hier_ops.
Print Assumptions C12_import_disjoint_union.
