(* C23 — RESP and HTTP run every supported statement like the engine does.
   Property theorems only; proofs live in proofs/RoutingProofs.v. *)
From Coq Require Import List NArith Bool.
From Verif Require Import QueryCache Routing RoutingProofs.
Import ListNotations.
Open Scope N_scope.

(* a statement routed as a read never modifies the graph: for every parser, classifier,
   executor pair, fallback guess, query text and graph *)
Theorem C23_read_route_pure :
  forall (ast store res perr : Type) (parse : bytes -> ast + perr)
         (classify : ast -> store -> option bool)
         (exec_ro : ast -> store -> res) (exec_rw : ast -> store -> store * res)
         (res_perr : perr -> res) (heuristic : bytes -> bool) (q : bytes) (g : store),
  routed_write ast store perr parse classify heuristic q g = false ->
  fst (front_end ast store res perr parse classify exec_ro exec_rw res_perr heuristic q g) = g.
Proof. exact read_route_pure. Qed.

(* the routing decision is the planner's write-ness for every text that parses and plans
   (whatever the substring guess says) *)
Theorem C23_routing_exact :
  forall (ast store perr : Type) (parse : bytes -> ast + perr)
         (classify : ast -> store -> option bool) (heuristic : bytes -> bool)
         (q : bytes) (g : store) (a : ast) (b : bool),
  parse q = inl a -> classify a g = Some b ->
  routed_write ast store perr parse classify heuristic q g = b /\
  is_write ast store perr parse classify q g = b.
Proof. exact routing_exact. Qed.

(* both front ends (any fallback guess) give the outcome — result and graph afterwards — of
   the engine, for every query text including those that do not parse or plan; the one law
   used: a statement that cannot be planned fails identically on both executors *)
Theorem C23_same_outcome :
  forall (ast store res perr : Type) (parse : bytes -> ast + perr)
         (classify : ast -> store -> option bool)
         (exec_ro : ast -> store -> res) (exec_rw : ast -> store -> store * res)
         (res_perr : perr -> res) (heuristic : bytes -> bool),
  (forall a g, classify a g = None -> exec_rw a g = (g, exec_ro a g)) ->
  forall q g,
  front_end ast store res perr parse classify exec_ro exec_rw res_perr heuristic q g =
  engine ast store res perr parse classify exec_ro exec_rw res_perr q g.
Proof. exact front_end_engine. Qed.

(* full statement with the planner replaced by the token-level classifier of this model
   (is_write_tok (lexw q) standing for plan(parse q).is_write): not proved — the link between
   tokens and the planner is checked by correspondence only *)
Definition C23_full : Prop :=
  forall (ast store : Type) (parse : bytes -> option ast) (plan_is_write : ast -> store -> bool),
  forall q a g, parse q = Some a -> plan_is_write a g = is_write_tok (lexw q).

(* non-vacuity: an instance where the law holds and the three witnesses of the old substring
   routing are routed as writes although both old guesses say "read":
   "MATCH (n)<LF>SET n.x=1", "MATCH (n) REMOVE n.x" (RESP), "UNWIND [1] AS x CREATE ()" (HTTP) *)
Example C23_nonvacuous :
  let q1 := [77;65;84;67;72;32;40;110;41;10;83;69;84;32;110;46;120;61;49] in
  let q2 := [77;65;84;67;72;32;40;110;41;32;82;69;77;79;86;69;32;110;46;120] in
  let q3 := [85;78;87;73;78;68;32;91;49;93;32;65;83;32;120;32;67;82;69;65;84;69;32;40;41] in
  let parse := fun q : bytes => @inl (list bytes) unit (lexw q) in
  let classify := fun (a : list bytes) (g : nat) => Some (is_write_tok a) in
  (forall a g, classify a g = None -> (fun (a : list bytes) (g : nat) => (S g, true)) a g = (g, (fun _ _ => false) a g)) /\
  heur_resp q1 = false /\ heur_resp q2 = false /\ heur_http q3 = false /\
  routed_write (list bytes) nat unit parse classify heur_resp q1 0%nat = true /\
  routed_write (list bytes) nat unit parse classify heur_resp q2 0%nat = true /\
  routed_write (list bytes) nat unit parse classify heur_http q3 0%nat = true.
Proof. vm_compute. repeat split; try reflexivity. intros a g H; discriminate. Qed.

Print Assumptions C23_read_route_pure.
Print Assumptions C23_routing_exact.
Print Assumptions C23_same_outcome.
