(* C28 — hierarchy index answers equal the brute-force poset answers.
   Property theorems only; proofs live in proofs/HierarchyProofs.v. *)
From Coq Require Import List NArith ZArith Bool Arith Lia.
From Verif Require Import Hierarchy HierarchyProofs.
Import ListNotations.

(* The executable brute-force closure used as the specification (and by the correspondence
   check) is the reflexive-transitive closure of the covering relation, for every acyclic
   relation of every size (acyclicity witnessed by a rank below n). *)
Theorem C28_spec_closure : forall par n rk, ranked par n rk ->
  forall x y, reachb (S n) par x y = true <-> reach par x y.
Proof. exact closure_spec. Qed.

(* A write to an edge type of the covering relation makes the entry unusable, and it stays
   unusable through every further history of edge and measure writes until a rebuild. *)
Theorem C28_stale_until_rebuild : forall e ty ops,
  memn ty (e_types e) = true ->
  forallb (fun o => negb (is_rebuild o)) ops = true ->
  usable (fold_left m_step ops (m_step e (MEdgeWrite ty))) = false.
Proof. exact stale_until_rebuild. Qed.

Definition ex_entry : entry :=
  {| e_types := [0]; e_prop := Some 0; e_label := None; e_elig := None;
     e_index := match build_index 3 [(1, 0); (2, 0)] FAuto with
                | inl i => Some (set_measure i [Some 1; Some 2; Some 3]%Z [OSum])
                | inr _ => None
                end;
     e_stale := false |}.

Example C28_stale_nonvacuous :
  usable ex_entry = true /\
  usable (fold_left m_step [MMeasureWrite 0 1 (Some 5%Z); MEdgeWrite 1] (m_step ex_entry (MEdgeWrite 0))) = false /\
  usable (m_step ex_entry (MMeasureWrite 0 1 (Some 5%Z))) = true.
Proof. vm_compute. repeat split; reflexivity. Qed.

(* A node gaining or losing the label the measure is restricted to makes the entry unusable, and
   it stays unusable through every further history until a rebuild. *)
Theorem C28_label_write_stale_until_rebuild : forall e l ops,
  e_label e = Some l ->
  forallb (fun o => negb (is_rebuild o)) ops = true ->
  usable (fold_left m_step ops (m_step e (MLabelWrite l))) = false.
Proof. exact label_write_stale_until_rebuild. Qed.

Example C28_label_write_nonvacuous :
  let e := {| e_types := [0]; e_prop := Some 0; e_label := Some 7; e_elig := Some [1; 2];
              e_index := e_index ex_entry; e_stale := false |} in
  usable e = true /\ usable (m_step e (MLabelWrite 7)) = false /\ usable (m_step e (MLabelWrite 8)) = true /\
  usable (m_step e (MMeasureWrite 0 0 (Some 9%Z))) = true /\
  option_map (fun ix => rollup ix 0 OSum) (e_index (m_step e (MMeasureWrite 0 0 (Some 9%Z)))) = Some (Some (RInt 6)).
Proof. vm_compute. repeat split; reflexivity. Qed.

(* EVERY history of edge writes, property writes, property removals (REMOVE n.prop), label writes
   and rebuilds keeps the measure held by a usable index equal to the measure in the graph
   ([synced]); the ghost measure g follows the graph (g_step), the entry follows the code (m_step). *)
Theorem C28_measure_synced : forall ops e g, synced e g ->
  forallb rebuild_ok ops = true ->
  synced (fst (mg_run e g ops)) (snd (mg_run e g ops)).
Proof. exact measure_synced. Qed.

Example C28_measure_synced_nonvacuous :
  let ops := [MMeasureWrite 0 2 (Some 9%Z); MPropRemove 1 2; MEdgeWrite 1; MPropRemove 0 0; MLabelWrite 3] in
  synced ex_entry [Some 1; Some 2; Some 3]%Z /\ forallb rebuild_ok ops = true /\
  usable (fst (mg_run ex_entry [Some 1; Some 2; Some 3]%Z ops)) = true /\
  snd (mg_run ex_entry [Some 1; Some 2; Some 3]%Z ops) = [None; Some 2; Some 9]%Z /\
  option_map (fun ix => rollup ix 0 OSum) (e_index (fst (mg_run ex_entry [Some 1; Some 2; Some 3]%Z ops)))
    = Some (Some (RInt 11)).
Proof.
  cbv zeta. split; [intros _; eexists; split; reflexivity|]. vm_compute. repeat split; reflexivity.
Qed.

(* The behaviour before the store.rs repair (remove_node_property did not reach the manager, i.e.
   MPropRemove was a no-op on the entry) did violate [synced]: kept as a regression witness. *)
Definition m_step_before_fix (e : entry) (o : mop) : entry :=
  match o with MPropRemove _ _ => e | _ => m_step e o end.

Example C28_noop_remove_breaks_sync :
  synced ex_entry [Some 1; Some 2; Some 3]%Z /\
  ~ synced (m_step_before_fix ex_entry (MPropRemove 0 2))
           (g_step ex_entry [Some 1; Some 2; Some 3]%Z (MPropRemove 0 2)) /\
  synced (m_step ex_entry (MPropRemove 0 2)) (g_step ex_entry [Some 1; Some 2; Some 3]%Z (MPropRemove 0 2)).
Proof.
  split; [intros _; eexists; split; reflexivity|]. split.
  - intros S. destruct (S eq_refl) as [ix [E1 E2]]. vm_compute in E1. inversion E1; subst ix.
    vm_compute in E2. discriminate.
  - intros _. eexists; split; reflexivity.
Qed.

(* ---- Poset::from_edges (dedup + Kahn): every accepted input is a well-formed poset ---- *)
(* acyclicity witness (rank = position in topo_up), children/parents consistent and duplicate-free,
   topo_up a permutation of the nodes with every child before its parents, parents = the edges *)
Theorem C28_from_edges_wf : forall n edges p,
  (forall c q, In (c, q) edges -> c < n /\ q < n) ->
  from_edges n edges = inl p ->
  (exists rk, wf_poset p rk) /\ topo_ok p /\ pn p = n /\ length (ppar p) = n /\ length (pch p) = n /\
  (forall c q, In q (parents p c) <-> In (c, q) edges).
Proof. exact from_edges_wf. Qed.

(* ---- nested-set encoding: trees and forests of every size ---- *)
(* subsumption test = brute-force closure *)
Theorem C28_nested_subsumes : forall p rk m r, wf_poset p rk -> forest p ->
  forall x y, x < pn p -> y < pn p ->
  subsumes (mk_index p (build_nested p) m r) x y = spec_subsumes p x y.
Proof. exact nested_subsumes. Qed.

(* descendant enumeration is duplicate-free, is exactly the brute-force descendant set, and
   the structural count is its size *)
Theorem C28_nested_desc : forall p rk m r, wf_poset p rk -> forest p ->
  forall y, y < pn p ->
  let d := descendants (mk_index p (build_nested p) m r) y in
  NoDup d /\ (forall x, In x d <-> In x (spec_desc p y)) /\
  descendant_count (mk_index p (build_nested p) m r) y = length d /\
  length d = length (spec_desc p y).
Proof. exact nested_descendants. Qed.

(* the same, unconditionally on every poset from_edges accepts and the probe sends to nested-set *)
Theorem C28_nested_reachable : forall n edges p m r,
  (forall c q, In (c, q) edges -> c < n /\ q < n) ->
  from_edges n edges = inl p -> is_tree p = true ->
  forall x y, x < n -> y < n ->
  let ix := mk_index p (build_nested p) m r in
  subsumes ix x y = spec_subsumes p x y /\
  NoDup (descendants ix y) /\ (forall z, In z (descendants ix y) <-> In z (spec_desc p y)) /\
  descendant_count ix y = length (spec_desc p y).
Proof.
  intros n edges p m r Hr H Ht x y Hx Hy.
  destruct (from_edges_wf n edges p Hr H) as [[rk W] [_ [Hn _]]]. subst n.
  pose proof (is_tree_forest p Ht) as F.
  destruct (nested_descendants p rk m r W F y Hy) as [D1 [D2 [D3 D4]]].
  cbv zeta. repeat split; auto; try apply D2.
  - apply (nested_subsumes p rk m r W F); auto.
  - congruence.
Qed.

Definition ex_forest : poset :=
  {| pn := 5; ppar := [[]; [0]; [0]; [1]; []]; pch := [[1; 2]; [3]; []; []; []]; ptopo := [2; 3; 4; 1; 0] |}.
Definition ex_rk (v : nat) : nat := match v with 0 => 2 | 1 => 1 | _ => 0 end.

(* a forest with two roots (0 and the isolated 4), as produced by from_edges *)
Example C28_nested_nonvacuous :
  from_edges 5 [(1, 0); (2, 0); (3, 1)] = inl ex_forest /\
  wf_poset ex_forest ex_rk /\ forest ex_forest /\
  subsumes (mk_index ex_forest (build_nested ex_forest) None []) 3 0 = true /\
  subsumes (mk_index ex_forest (build_nested ex_forest) None []) 2 1 = false /\
  descendants (mk_index ex_forest (build_nested ex_forest) None []) 0 = [0; 1; 3; 2].
Proof.
  split; [vm_compute; reflexivity|].
  split; [|split; [|vm_compute; repeat split; reflexivity]].
  - constructor.
    + intros x q. destruct x as [|[|[|[|[|[|x]]]]]]; cbn; intuition (subst; cbn; lia).
    + intros c v. destruct c as [|[|[|[|[|[|c]]]]]]; destruct v as [|[|[|[|[|[|v]]]]]]; cbn;
        intuition (try discriminate; try lia).
    + intros v. destruct v as [|[|[|[|[|[|v]]]]]]; cbn; repeat constructor; cbn; intuition (try discriminate; try lia).
    + intros c v. destruct c as [|[|[|[|[|[|c]]]]]]; cbn; intuition (subst; lia).
  - intros c. destruct c as [|[|[|[|[|[|c]]]]]]; cbn; lia.
Qed.

(* ---- nested-set roll-up at index level: SUM (Fenwick), MIN/MAX (segment tree), COUNT ---- *)
(* For every poset from_edges accepts and the probe sends to nested-set, every integer measure, every
   set of built monoids and EVERY sequence of update_measure calls: rollup(y, o) is the fold of the
   monoid over the brute-force descendant set under the updated measure.  So a point update lands
   where a rebuild with the updated measure lands (us = [] is the freshly built index). *)
Theorem C28_nested_rollup : forall n edges p measure ops us,
  (forall c q, In (c, q) edges -> c < n /\ q < n) ->
  from_edges n edges = inl p -> is_tree p = true ->
  length measure = n -> (forall u, In u us -> fst u < n) ->
  exists ix', apply_updates (set_measure (mk_index p (build_nested p) None []) measure ops) us = Some ix' /\
    forall y o, y < n -> (o = OCount \/ In o ops) ->
      rollup ix' y o = Some (rollup_spec p (upd_all measure us) y o).
Proof.
  intros n edges p measure ops us Hr H Ht Hm Hus.
  destruct (from_edges_wf n edges p Hr H) as [[rk W] [_ [Hn _]]]. rewrite <- Hn in *.
  apply (nested_rollup_all p rk W (is_tree_forest p Ht)); auto.
Qed.

(* update_measure == rebuild, as an equation between the two indexes' answers *)
Theorem C28_nested_update_commutes : forall n edges p measure ops node v,
  (forall c q, In (c, q) edges -> c < n /\ q < n) ->
  from_edges n edges = inl p -> is_tree p = true ->
  length measure = n -> node < n ->
  exists ix', update_measure (set_measure (mk_index p (build_nested p) None []) measure ops) node v = Some ix' /\
    forall y o, y < n -> (o = OCount \/ In o ops) ->
      rollup ix' y o = rollup (set_measure (mk_index p (build_nested p) None []) (upd measure node v) ops) y o.
Proof.
  intros n edges p measure ops node v Hr H Ht Hm Hnode.
  destruct (from_edges_wf n edges p Hr H) as [[rk W] [_ [Hn _]]]. rewrite <- Hn in *.
  pose proof (is_tree_forest p Ht) as F.
  destruct (nested_rollup_all p rk W F measure ops [(node, v)] Hm) as [ix' [E R]].
  { intros u [<-|[]]. auto. }
  cbn [apply_updates] in E.
  destruct (update_measure (set_measure (mk_index p (build_nested p) None []) measure ops) node v) as [ix1|]; [|discriminate].
  inversion E; subst ix1. exists ix'. split; auto. intros y o Hy Ho. rewrite (R y o Hy Ho).
  destruct (nested_rollup_all p rk W F (upd measure node v) ops []) as [ix2 [E2 R2]].
  { rewrite upd_length. auto. } { intros u []. }
  cbn [apply_updates] in E2. inversion E2; subst ix2. symmetry. apply (R2 y o Hy Ho).
Qed.

Example C28_nested_rollup_nonvacuous :
  let ix := set_measure (mk_index ex_forest (build_nested ex_forest) None [])
                        [Some 5; None; Some 7; Some (-2); Some 1]%Z [OSum; OMin] in
  is_tree ex_forest = true /\
  rollup ix 0 OSum = Some (RInt 10) /\ rollup ix 1 OMin = Some (RInt (-2)) /\
  option_map (fun i => rollup i 1 OMin) (apply_updates ix [(3, Some 4%Z); (2, None)]) = Some (Some (RInt 4)) /\
  option_map (fun i => rollup i 0 OSum) (apply_updates ix [(3, Some 4%Z); (2, None)]) = Some (Some (RInt 9)) /\
  rollup_spec ex_forest (upd_all [Some 5; None; Some 7; Some (-2); Some 1]%Z [(3, Some 4%Z); (2, None)]) 0 OSum = RInt 9.
Proof. vm_compute. repeat split; reflexivity. Qed.

(* ---- Fenwick tree (SUM) over an abstract array, all sizes ---- *)
(* built tree answers every range with the exact range sum *)
Theorem C28_fenwick_build : forall vs lo hi, lo <= hi -> hi < length vs ->
  fw_range (fw_build vs) lo hi =
  (sum_to (fun i => nth i vs 0%Z) (hi + 1) - sum_to (fun i => nth i vs 0%Z) lo)%Z.
Proof. intros vs lo hi H1 H2. eapply fw_range_spec; eauto. apply fw_build_inv. Qed.

(* a point update (Fenwick::add) followed by any range query = the range sum over the updated
   array; the invariant is preserved, so this holds after every sequence of updates *)
Theorem C28_fenwick_update : forall t a n pos d, fw_inv t a n -> pos < n ->
  fw_inv (fw_add t pos d) (addf a pos d) n /\
  forall lo hi, lo <= hi -> hi < n ->
    fw_range (fw_add t pos d) lo hi = (sum_to (addf a pos d) (hi + 1) - sum_to (addf a pos d) lo)%Z.
Proof.
  intros t a n pos d H Hp. pose proof (fw_add_inv t a n pos d H Hp) as H'. split; auto.
  intros lo hi H1 H2. eapply fw_range_spec; eauto.
Qed.

Example C28_fenwick_nonvacuous :
  fw_range (fw_add (fw_build [3; 1; 4; 1; 5; 9; 2]%Z) 2 10%Z) 1 5 = 30%Z.
Proof. vm_compute. reflexivity. Qed.

(* ---- segment tree (MIN / MAX; any monoid whose declared identity is Null), all sizes ---- *)
(* build answers every range with the fold of the range; a point update (SegmentTree::set) followed
   by any range query = the fold over the updated array; st_ok is preserved, so this holds after
   every sequence of updates *)
Theorem C28_segtree : forall vals o, identity o = RNull ->
  st_ok (st_build vals o) vals /\ st_op (st_build vals o) = o /\
  (forall s vs, st_ok s vs -> identity (st_op s) = RNull ->
     (forall lo hi, lo <= hi -> hi < length vs ->
        st_range s lo hi = mfold (st_op s) (firstn (hi + 1 - lo) (skipn lo vs))) /\
     (forall pos v, pos < length vs ->
        st_ok (st_set s pos v) (upd vs pos v) /\ st_op (st_set s pos v) = st_op s)).
Proof.
  intros vals o Hid. destruct (st_build_ok vals o Hid) as [B1 B2]. split; auto. split; auto.
  intros s vs Hok Hid'. split.
  - intros lo hi H1 H2. apply st_range_ok; auto.
  - intros pos v Hp. apply st_set_ok; auto.
Qed.

Example C28_segtree_nonvacuous :
  let s := st_build [RInt 5; RInt 3; RInt 9; RInt 1; RInt 7]%Z OMin in
  st_range s 0 4 = RInt 1 /\ st_range (st_set s 3 (RInt 100)) 0 4 = RInt 3 /\ st_range (st_set s 3 RNull) 3 3 = RNull.
Proof. vm_compute. repeat split; reflexivity. Qed.

(* ---- chain decomposition: the greedy chains partition the nodes ---- *)
(* on every poset from_edges accepts: every node lies on exactly one chain (so per-chain suffixes
   never count a descendant twice), and consecutive chain elements are parent -> child edges *)
Theorem C28_chain_partition : forall n edges p,
  (forall c q, In (c, q) edges -> c < n /\ q < n) ->
  from_edges n edges = inl p ->
  NoDup (concat (decompose_chains p)) /\
  (forall v, In v (concat (decompose_chains p)) <-> v < n) /\
  (forall ch, In ch (decompose_chains p) -> linked p ch /\ ch <> []).
Proof.
  intros n edges p Hr H.
  destruct (from_edges_wf n edges p Hr H) as [[rk W] [TO [Hn _]]]. rewrite <- Hn.
  apply (chains_partition p rk W TO).
Qed.

Example C28_chain_partition_nonvacuous :
  match from_edges 4 [(3, 1); (3, 2); (1, 0); (2, 0)] with
  | inl p => decompose_chains p = [[0; 1; 3]; [2]]
  | inr _ => False
  end.
Proof. vm_compute. reflexivity. Qed.

(* ---- chain encoding: subsumption test, descendant enumeration and count == brute force ---- *)
(* on EVERY poset from_edges accepts (the chain encoding can be selected by the probe or forced on any
   poset): reach maps hold the least reachable position per chain, so subsumes == the closure, and
   the per-chain suffixes enumerate each descendant exactly once *)
Theorem C28_chain_reachable : forall n edges p m r,
  (forall c q, In (c, q) edges -> c < n /\ q < n) ->
  from_edges n edges = inl p ->
  forall x y, x < n -> y < n ->
  let ix := mk_index p (build_chain p) m r in
  subsumes ix x y = spec_subsumes p x y /\
  NoDup (descendants ix y) /\ (forall z, In z (descendants ix y) <-> In z (spec_desc p y)) /\
  descendant_count ix y = length (spec_desc p y).
Proof.
  intros n edges p m r Hr H x y Hx Hy.
  destruct (from_edges_wf n edges p Hr H) as [[rk W] [TO [Hn _]]]. subst n.
  destruct (chain_descendants p rk W TO m r y Hy) as [D1 [D2 [D3 D4]]].
  cbv zeta. repeat split; auto; try apply D2.
  - apply (chain_subsumes p rk W TO); auto.
  - congruence.
Qed.

Example C28_chain_nonvacuous :
  match from_edges 4 [(3, 1); (3, 2); (1, 0); (2, 0)] with
  | inl p => let ix := mk_index p (build_chain p) None [] in
             subsumes ix 3 0 = true /\ subsumes ix 2 1 = false /\ descendants ix 0 = [0; 1; 3; 2] /\
             descendant_count ix 2 = 2
  | inr _ => False
  end.
Proof. vm_compute. repeat split; reflexivity. Qed.

(* ---- chain encoding roll-up at index level, all four monoids, after every update sequence ---- *)
(* on EVERY accepted poset: update_measure yields EXACTLY the index a rebuild with the updated measure
   yields (same suffix tables), and every roll-up is the fold over the brute-force descendant set *)
Theorem C28_chain_rollup : forall n edges p measure ops us,
  (forall c q, In (c, q) edges -> c < n /\ q < n) ->
  from_edges n edges = inl p ->
  length measure = n -> (forall u, In u us -> fst u < n) ->
  let ix0 := mk_index p (build_chain p) None [] in
  apply_updates (set_measure ix0 measure ops) us = Some (set_measure ix0 (upd_all measure us) ops) /\
  forall y o, y < n -> (o = OCount \/ In o ops) ->
    rollup (set_measure ix0 (upd_all measure us) ops) y o = Some (rollup_spec p (upd_all measure us) y o).
Proof.
  intros n edges p measure ops us Hr H Hm Hus.
  destruct (from_edges_wf n edges p Hr H) as [[rk W] [TO [Hn _]]]. rewrite <- Hn in *.
  apply (chain_rollup_after_updates p rk W TO); auto.
Qed.

Example C28_chain_rollup_nonvacuous :
  match from_edges 4 [(3, 1); (3, 2); (1, 0); (2, 0)] with
  | inl p => let ix := set_measure (mk_index p (build_chain p) None []) [Some 1; Some 1; Some 1; Some 1]%Z [OSum; OMax] in
             rollup ix 0 OSum = Some (RInt 4) /\
             option_map (fun i => rollup i 0 OMax) (apply_updates ix [(3, Some 9%Z)]) = Some (Some (RInt 9)) /\
             option_map (fun i => rollup i 2 OSum) (apply_updates ix [(3, Some 9%Z); (2, None)]) = Some (Some (RInt 9))
  | inr _ => False
  end.
Proof. vm_compute. repeat split; reflexivity. Qed.

(* ---- lowest common ancestors == minimal common ancestors (nested-set walk; chain filter) ---- *)
Theorem C28_lca_nested : forall n edges p m r,
  (forall c q, In (c, q) edges -> c < n /\ q < n) ->
  from_edges n edges = inl p -> is_tree p = true ->
  forall x y, x < n -> y < n ->
  lowest_common_ancestors (mk_index p (build_nested p) m r) x y = spec_lca p x y.
Proof.
  intros n edges p m r Hr H Ht x y Hx Hy.
  destruct (from_edges_wf n edges p Hr H) as [[rk W] [TO [Hn _]]]. subst n.
  apply (nested_lca p rk W TO (is_tree_forest p Ht)); auto.
Qed.

Theorem C28_lca_chain : forall n edges p m r,
  (forall c q, In (c, q) edges -> c < n /\ q < n) ->
  from_edges n edges = inl p ->
  forall x y, x < n -> y < n ->
  lowest_common_ancestors (mk_index p (build_chain p) m r) x y = spec_lca p x y.
Proof.
  intros n edges p m r Hr H x y Hx Hy.
  destruct (from_edges_wf n edges p Hr H) as [[rk W] [TO [Hn _]]]. subst n.
  apply lca_generic; auto.
  - reflexivity.
  - intros a b Ha Hb. apply (chain_subsumes p rk W TO); auto.
Qed.

Example C28_lca_nonvacuous :
  lowest_common_ancestors (mk_index ex_forest (build_nested ex_forest) None []) 3 2 = [0] /\
  lowest_common_ancestors (mk_index ex_forest (build_nested ex_forest) None []) 3 4 = [] /\
  match from_edges 4 [(2, 0); (2, 1); (3, 0); (3, 1)] with
  | inl p => lowest_common_ancestors (mk_index p (build_chain p) None []) 2 3 = [0; 1]
  | inr _ => False
  end.
Proof. vm_compute. repeat split; reflexivity. Qed.

(* ---- near-tree encoding: subsumption (interval test or a search through chained exception edges
   with a seen-set) == brute force, and the LCA set that is filtered with it ---- *)
Theorem C28_near_subsumes : forall n edges p m r,
  (forall c q, In (c, q) edges -> c < n /\ q < n) ->
  from_edges n edges = inl p ->
  forall x y, x < n -> y < n ->
  subsumes (mk_index p (build_near p) m r) x y = spec_subsumes p x y /\
  lowest_common_ancestors (mk_index p (build_near p) m r) x y = spec_lca p x y.
Proof.
  intros n edges p m r Hr H x y Hx Hy.
  destruct (from_edges_wf n edges p Hr H) as [[rk W] [_ [Hn _]]]. subst n. split.
  - apply (near_subsumes p rk W); auto.
  - apply lca_generic; auto.
    + unfold mk_index. cbn [ix_enc]. rewrite (near_enc p). exact I.
    + intros a b Ha Hb. apply (near_subsumes p rk W); auto.
Qed.

(* two chained exception edges: 4 -> 3 (exception), 3 -> 1 (exception); 4 reaches 1 only through both *)
Example C28_near_nonvacuous :
  match from_edges 5 [(2, 0); (3, 2); (4, 0); (4, 3); (3, 1)] with
  | inl p => let ix := mk_index p (build_near p) None [] in
             subsumes ix 4 1 = true /\ subsumes ix 2 1 = false /\ subsumes ix 4 2 = true /\
             spec_subsumes p 4 1 = true /\ lowest_common_ancestors ix 4 2 = [2]
  | inr _ => False
  end.
Proof. vm_compute. repeat split; reflexivity. Qed.

(* ---- near-tree encoding: descendants (frontier loop with a seen-set), roll-up, update == rebuild ---- *)
(* the sorted, de-duplicated enumeration IS the brute-force descendant list; the frontier loop is
   proved to terminate within the model's fuel (potential argument) *)
Theorem C28_near_descendants : forall n edges p m r,
  (forall c q, In (c, q) edges -> c < n /\ q < n) ->
  from_edges n edges = inl p ->
  forall y, y < n -> descendants (mk_index p (build_near p) m r) y = spec_desc p y.
Proof.
  intros n edges p m r Hr H y Hy.
  destruct (from_edges_wf n edges p Hr H) as [[rk W] [_ [Hn _]]]. subst n.
  apply (near_descendants p rk W); auto.
Qed.

Theorem C28_near_rollup : forall n edges p measure ops us,
  (forall c q, In (c, q) edges -> c < n /\ q < n) ->
  from_edges n edges = inl p ->
  length measure = n -> (forall u, In u us -> fst u < n) ->
  let ix0 := mk_index p (build_near p) None [] in
  apply_updates (set_measure ix0 measure ops) us = Some (set_measure ix0 (upd_all measure us) ops) /\
  forall y o, y < n -> (o = OCount \/ In o ops) ->
    rollup (set_measure ix0 (upd_all measure us) ops) y o = Some (rollup_spec p (upd_all measure us) y o).
Proof.
  intros n edges p measure ops us Hr H Hm Hus.
  destruct (from_edges_wf n edges p Hr H) as [[rk W] [_ [Hn _]]]. rewrite <- Hn in *.
  apply (near_rollup_after_updates p rk W); auto.
Qed.

Example C28_near_rollup_nonvacuous :
  match from_edges 5 [(2, 0); (3, 2); (4, 0); (4, 3); (3, 1)] with
  | inl p => let ix := set_measure (mk_index p (build_near p) None []) [Some 1; Some 2; Some 4; Some 8; Some 16]%Z [OSum; OMin] in
             descendants ix 1 = [1; 3; 4] /\ rollup ix 1 OSum = Some (RInt 26) /\
             option_map (fun i => rollup i 1 OMin) (apply_updates ix [(4, Some (-3)%Z)]) = Some (Some (RInt (-3)))
  | inr _ => False
  end.
Proof. vm_compute. repeat split; reflexivity. Qed.

(* ================= EVERY encoding the probe can select or that can be forced ================= *)
(* the statements of the property for every index build_enc can return, on every accepted poset *)
Theorem C28_subsumes_desc : forall n edges p f en m r,
  (forall c q, In (c, q) edges -> c < n /\ q < n) ->
  from_edges n edges = inl p -> build_enc p f = inl en ->
  forall x y, x < n -> y < n ->
  subsumes (mk_index p en m r) x y = spec_subsumes p x y /\
  NoDup (descendants (mk_index p en m r) y) /\
  (forall z, In z (descendants (mk_index p en m r) y) <-> In z (spec_desc p y)) /\
  descendant_count (mk_index p en m r) y = length (spec_desc p y).
Proof.
  intros n edges p f en m r Hr H He x y Hx Hy.
  destruct (from_edges_wf n edges p Hr H) as [[rk W] [TO [Hn _]]]. subst n.
  apply (all_subsumes_desc p rk f en m r W TO He); auto.
Qed.

(* roll-ups after EVERY sequence of measure updates (so update_measure == rebuild), all monoids *)
Theorem C28_rollup : forall n edges p f en measure ops us,
  (forall c q, In (c, q) edges -> c < n /\ q < n) ->
  from_edges n edges = inl p -> build_enc p f = inl en ->
  length measure = n -> (forall u, In u us -> fst u < n) ->
  exists ix', apply_updates (set_measure (mk_index p en None []) measure ops) us = Some ix' /\
    forall y o, y < n -> (o = OCount \/ In o ops) ->
      rollup ix' y o = Some (rollup_spec p (upd_all measure us) y o).
Proof.
  intros n edges p f en measure ops us Hr H He Hm Hus.
  destruct (from_edges_wf n edges p Hr H) as [[rk W] [TO [Hn _]]]. rewrite <- Hn in *.
  apply (all_rollup p rk f en measure ops us W TO He); auto.
Qed.

Theorem C28_lca : forall n edges p f en m r,
  (forall c q, In (c, q) edges -> c < n /\ q < n) ->
  from_edges n edges = inl p -> build_enc p f = inl en ->
  forall x y, x < n -> y < n ->
  lowest_common_ancestors (mk_index p en m r) x y = spec_lca p x y.
Proof.
  intros n edges p f en m r Hr H He x y Hx Hy.
  destruct (from_edges_wf n edges p Hr H) as [[rk W] [TO [Hn _]]]. subst n.
  apply (all_lca p rk f en m r W TO He); auto.
Qed.

(* ---- per-chain suffix folds (chain encoding roll-ups), all chain lengths, all four monoids ---- *)
Theorem C28_monoid_laws : forall o,
  (forall a b c, combine o a (combine o b c) = combine o (combine o a b) c) /\
  (forall a b, combine o a b = combine o b a) /\
  (forall a, combine o RNull a = a /\ combine o a RNull = a) /\
  (forall z, combine o (identity o) (RInt z) = RInt z).
Proof.
  intros o. repeat split; intros.
  - apply combine_assoc. - apply combine_comm. - apply combine_null_r. - apply combine_identity_l.
Qed.

(* set_measure: cell i of a chain's table is the fold of the chain's values from position i on *)
Theorem C28_chain_suffix_build : forall o vals i, i <= length vals ->
  nth i (suffix_folds o vals) RNull = fold_vals o (skipn i vals).
Proof. exact suffix_folds_spec. Qed.

(* update_measure: refolding cells pos..0 from the updated measure gives exactly the table a
   rebuild with the updated measure produces (update commutes with rebuild, chain encoding) *)
Theorem C28_chain_suffix_update : forall o chain m suf pos,
  let vals := map (fun v => rv_of (nth v m None) (identity o)) chain in
  pos < length chain ->
  length suf = S (length chain) ->
  (forall i, pos < i -> i <= length chain -> nth i suf RNull = nth i (suffix_folds o vals) RNull) ->
  refold o chain m suf pos = suffix_folds o vals.
Proof. exact refold_spec. Qed.

Example C28_chain_suffix_nonvacuous :
  let chain := [2; 0; 1] in
  let m := [Some 5; Some 7; Some 1]%Z in
  let m' := [Some 5; Some 7; Some 9]%Z in
  let vals mm := map (fun v => rv_of (nth v mm None) (identity OMin)) chain in
  suffix_folds OMin (vals m) = [RInt 1; RInt 5; RInt 7; RNull]%Z /\
  refold OMin chain m' (suffix_folds OMin (vals m)) 0 = suffix_folds OMin (vals m') /\
  suffix_folds OMin (vals m') = [RInt 5; RInt 5; RInt 7; RNull]%Z.
Proof. vm_compute. repeat split; reflexivity. Qed.

(* Poset::from_edges rejects ONLY cyclic inputs: whenever the covering relation admits a rank (is
   acyclic) the poset is built, so together with C28_from_edges_wf the index exists for exactly the
   acyclic covering relations *)
Theorem C28_from_edges_complete : forall n edges err,
  (forall c q, In (c, q) edges -> c < n /\ q < n) ->
  from_edges n edges = inr err ->
  ~ exists rk : nat -> nat, forall c q, In (c, q) edges -> rk c < rk q.
Proof. exact from_edges_complete. Qed.

Example C28_from_edges_complete_nonvacuous :
  from_edges 3 [(0, 1); (1, 2); (2, 0)] = inr ENotAcyclic /\
  (exists p, from_edges 3 [(0, 1); (1, 2); (0, 2)] = inl p).
Proof. split; [vm_compute; reflexivity|eexists; vm_compute; reflexivity]. Qed.

Print Assumptions C28_spec_closure.
Print Assumptions C28_stale_until_rebuild.
Print Assumptions C28_measure_synced.
Print Assumptions C28_label_write_stale_until_rebuild.
Print Assumptions C28_from_edges_wf.
Print Assumptions C28_nested_reachable.
Print Assumptions C28_nested_rollup.
Print Assumptions C28_nested_update_commutes.
Print Assumptions C28_segtree.
Print Assumptions C28_chain_partition.
Print Assumptions C28_chain_reachable.
Print Assumptions C28_chain_rollup.
Print Assumptions C28_lca_nested.
Print Assumptions C28_lca_chain.
Print Assumptions C28_near_subsumes.
Print Assumptions C28_near_descendants.
Print Assumptions C28_near_rollup.
Print Assumptions C28_subsumes_desc.
Print Assumptions C28_rollup.
Print Assumptions C28_lca.
Print Assumptions C28_from_edges_complete.
Print Assumptions C28_nested_subsumes.
Print Assumptions C28_nested_desc.
Print Assumptions C28_fenwick_build.
Print Assumptions C28_fenwick_update.
Print Assumptions C28_monoid_laws.
Print Assumptions C28_chain_suffix_build.
Print Assumptions C28_chain_suffix_update.
