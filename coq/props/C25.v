(* C25 — the Cypher parser never panics and never silently changes numbers.
   Property theorems only; proofs live in proofs/NumeralProofs.v.

   PARTIAL.  What is proved is the numeric part, at full strength (every byte string,
   unbounded length): each conversion the (repaired) parser applies to a numeral is
   exact-or-error and never panics.  "parse_query returns without panicking for EVERY
   input string" is a statement about the pest grammar and ~4k lines of AST building
   that are not modelled; it is kept below as C25_full (unproved) and is carried only
   by the correspondence run (testing). *)
From Coq Require Import List NArith ZArith Bool.
From Verif Require Import Numeral NumeralProofs.
Import ListNotations.
Open Scope Z_scope.

(* The full property, as a predicate on a whole parser (input string -> for an accepted
   query, the list of numerals written in it paired with the number stored in the AST).
   Not proved for parse_query: the whole parser (pest grammar + AST building) is not modelled;
   that part is tested by the correspondence run only. *)
Definition C25_full (parse_query : bytes -> outcome (list (bytes * Z))) : Prop :=
  forall input,
    parse_query input <> Panic /\
    forall nums, parse_query input = Ok nums ->
      forall tok v, In (tok, v) nums -> denote tok = Some v.

(* integer literals (decimal, 0x, 0o, optional sign): an accepted literal has exactly the
   value written (denote = unbounded mathematical value of the numeral) and fits i64 *)
Theorem C25_numeral_exact_partial : forall s n,
  parse_integer_literal s = Ok n -> denote s = Some n /\ I64_MIN <= n <= I64_MAX.
Proof. exact parse_integer_literal_exact. Qed.

(* the same for the plainest numerals, with the value spelled out: for every non-empty string
   of decimal digits (any length, leading zeros allowed) an accepted literal / SKIP / LIMIT
   count is the decimal value  sum d_i * 10^(k-i)  of the string — never another number *)
Theorem C25_decimal_exact_partial : forall s,
  s <> [] -> forallb is_dec s = true ->
  denote s = Some (dec_value s) /\
  (forall n, parse_integer_literal s = Ok n -> n = dec_value s) /\
  (forall n, skip_limit s = Ok n -> Z.of_N n = dec_value s).
Proof.
  intros s Hne H. split; [apply denote_decimal; assumption|].
  split; intros n Hn; [eapply decimal_literal_exact | eapply decimal_count_exact]; eassumption.
Qed.

(* no conversion panics, whatever the string *)
Theorem C25_numeral_no_panic_partial : forall s,
  parse_integer_literal s <> Panic /\ skip_limit s <> Panic /\
  parse_bound_literal s <> Panic /\ float_conv s <> Panic.
Proof.
  intros s. split; [apply parse_integer_literal_no_panic|].
  split; [apply skip_limit_no_panic|]. split; [apply usize_no_panic | apply float_conv_no_panic].
Qed.

(* variable-length patterns  *, *n, *m..n, *..n, *m..  (with any skipped text around ".."):
   an accepted pattern has exactly the written bounds (defaults: min 1, max unbounded) *)
Theorem C25_bounds_exact_partial : forall f mn mx,
  length_pattern f = Ok (mn, mx) -> lp_exact f mn mx.
Proof. exact length_pattern_exact. Qed.

Theorem C25_bounds_no_panic_partial : forall f, length_pattern f <> Panic.
Proof. exact length_pattern_no_panic. Qed.

(* SKIP n / LIMIT n: an accepted count is exactly the written number *)
Theorem C25_skip_limit_exact_partial : forall tok n,
  skip_limit tok = Ok n -> denote tok = Some (Z.of_N n) /\ Z.of_N n <= I64_MAX.
Proof. exact skip_limit_exact. Qed.

(* float literals: an accepted literal m * 10^e is below the binary64 overflow threshold
   2^1024 - 2^970, i.e. it is never replaced by infinity *)
Theorem C25_float_fits_partial : forall s neg m e,
  float_conv s = Ok (neg, m, e) -> below_overflow m e.
Proof. exact float_conv_fits. Qed.

(* ---- non-vacuity: concrete accepted numerals at the boundaries ---- *)
Definition b_i64_max : bytes := [57;50;50;51;51;55;50;48;51;54;56;53;52;55;55;53;56;48;55]%N.      (* 9223372036854775807 *)
Definition b_i64_min : bytes := (45 :: [57;50;50;51;51;55;50;48;51;54;56;53;52;55;55;53;56;48;56])%N. (* -9223372036854775808 *)
Definition b_2_64 : bytes := [49;56;52;52;54;55;52;52;48;55;51;55;48;57;53;53;49;54;49;54]%N.      (* 18446744073709551616 *)

Example C25_numeral_nonvacuous :
  parse_integer_literal b_i64_max = Ok 9223372036854775807 /\
  parse_integer_literal b_i64_min = Ok (-9223372036854775808) /\
  parse_integer_literal [48;120;49;70]%N = Ok 31 /\          (* 0x1F *)
  parse_integer_literal b_2_64 = Err /\ denote b_2_64 = Some 18446744073709551616.
Proof. vm_compute. repeat split; reflexivity. Qed.

Example C25_bounds_nonvacuous :
  length_pattern (LpRange (Some ([50]%N, [32]%N)) [32]%N (Some [53]%N)) = Ok (Some 2%N, Some 5%N) /\   (* *2 .. 5 *)
  length_pattern (LpRange None [] (Some [53]%N)) = Ok (Some 1%N, Some 5%N) /\                           (* *..5 *)
  length_pattern (LpExact b_2_64) = Err.
Proof. vm_compute. repeat split; reflexivity. Qed.

Example C25_skip_limit_nonvacuous :
  skip_limit [48;48;49;50]%N = Ok 12%N /\ skip_limit b_2_64 = Err /\ skip_limit [45;49]%N = Err.
Proof. vm_compute. repeat split; reflexivity. Qed.

Example C25_float_nonvacuous :
  float_conv [49;46;53]%N = Ok (false, 15, -1) /\            (* 1.5 *)
  float_conv [49;101;52;48;48]%N = Err.                       (* 1e400 *)
Proof. vm_compute. split; reflexivity. Qed.

(* the code before the repair violated the property at these three sites:
   *18446744073709551616 panicked, a lower bound 18446744073709551616 became 1,
   LIMIT 18446744073709551616 became "no limit" *)
Example C25_original_code_refuted :
  orig_bound_unwrap b_2_64 = Panic /\
  orig_bound_unwrap_or_1 b_2_64 = Ok 1 /\
  orig_skip_limit b_2_64 = Ok None.
Proof. vm_compute. repeat split; reflexivity. Qed.

Print Assumptions C25_numeral_exact_partial.
Print Assumptions C25_decimal_exact_partial.
Print Assumptions C25_numeral_no_panic_partial.
Print Assumptions C25_bounds_exact_partial.
Print Assumptions C25_bounds_no_panic_partial.
Print Assumptions C25_skip_limit_exact_partial.
Print Assumptions C25_float_fits_partial.
