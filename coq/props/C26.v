(* C26 — graph algorithms match their reference definitions.
   Property theorems only; proofs live in proofs/AlgosProofs.v.

   Level reached: every executable reference specification used by the correspondence check
   (model/Algos.v) is proved equal to its declarative definition for ALL graphs; the
   validation predicate for returned paths accepts exactly real paths; the models of bfs,
   dijkstra, the repaired prim_mst and count_triangles as written are proved to return the
   specification's answer on every graph (C26_bfs_optimal, C26_dijkstra_optimal,
   C26_prim_minimal, C26_count_triangles_model); Prim's original incoming-edge lookup is
   refuted on a witness; the model of edmonds_karp returns the minimum cut for every
   iteration order of its hash maps (C26_ek_equals_mincut).  Not modelled as written:
   union-find, Tarjan, the LCC loops (hash-map iteration order / recursion) — see checks/C26.json "partial". *)
From Coq Require Import List NArith Bool Arith.
From Verif Require Import Algos AlgosProofs AlgosOptimal AlgosDijkstra AlgosTriangles AlgosPrim Flow FlowProofs.
Import ListNotations.

(* ---- shortest paths / reachability ------------------------------------------------ *)

(* the |V|-rounds relaxation specification is the cheapest cost over ALL walks s ~> t
   (any length), and None exactly when no walk exists; every well-formed graph *)
Theorem C26_spec_shortest : forall g s t, wf g -> s < gn g -> t < gn g ->
  is_dist g s t (sp_cost g s t).
Proof. exact sp_cost_spec. Qed.

(* BFS reference: the hop distance is the optimum over all walks of the unit-weight graph *)
Theorem C26_spec_hops : forall g s t, wf g -> s < gn g -> t < gn g ->
  is_dist (unitw g) s t (hop_dist g s t).
Proof. exact hop_dist_spec. Qed.

Theorem C26_unit_weight_graph : forall g u v w,
  In (u, v, w) (ge (unitw g)) <-> w = 1%N /\ exists w', In (u, v, w') (ge g).
Proof. exact unitw_edges. Qed.

Theorem C26_spec_reach : forall g s t, wf g -> s < gn g -> t < gn g ->
  reachb g s t = true <-> reach g s t.
Proof. exact reachb_spec. Qed.

(* the predicate with which returned paths are validated accepts exactly the vertex lists
   that are paths of the graph whose chosen edge weights sum to the reported cost *)
Theorem C26_path_predicate : forall g p c, path_costb g p c = true <-> path_cost g p c.
Proof. exact path_costb_spec. Qed.

(* a result accepted by the check is a real path from s to t with the reported cost, that
   cost is the specification's optimum, and "none" is accepted only when the spec says unreachable *)
Theorem C26_path_is_real : forall g s t spec o, path_ok g s t spec o = true ->
  match o with
  | Some (p, c) => spec = Some c /\ path_cost g p c /\ hd_error p = Some s /\ last p s = t /\ walk g s t c
  | None => spec = None
  end.
Proof. exact path_ok_real. Qed.

(* ---- components -------------------------------------------------------------------- *)

(* strongly connected components: the specification is the partition of the nodes into the
   classes of mutual reachability *)
Theorem C26_scc_partition : forall g, wf g ->
  (forall C, In C (scc_spec g) ->
     C <> [] /\ NoDup C /\
     forall u, In u C -> forall v, In v C <-> v < gn g /\ mutual g u v) /\
  (forall v, v < gn g -> exists C, In C (scc_spec g) /\ In v C) /\
  (forall C1 C2 v, In C1 (scc_spec g) -> In C2 (scc_spec g) -> In v C1 -> In v C2 -> C1 = C2).
Proof. exact components_partition. Qed.

(* weakly connected components: the partition into classes of reachability ignoring direction *)
Theorem C26_wcc_partition : forall g, wf g ->
  (forall C, In C (wcc_spec g) ->
     C <> [] /\ NoDup C /\
     forall u, In u C -> forall v, In v C <-> v < gn g /\ reach (sym g) u v) /\
  (forall v, v < gn g -> exists C, In C (wcc_spec g) /\ In v C) /\
  (forall C1 C2 v, In C1 (wcc_spec g) -> In C2 (wcc_spec g) -> In v C1 -> In v C2 -> C1 = C2).
Proof. exact wcc_partition. Qed.

Theorem C26_undirected_graph : forall g u v w,
  In (u, v, w) (ge (sym g)) <-> In (u, v, w) (ge g) \/ In (v, u, w) (ge g).
Proof. exact sym_edges. Qed.

(* ---- max flow reference = minimum cut ---------------------------------------------- *)

(* the enumeration returns the minimum capacity over ALL source-side sets (arbitrary
   predicates on nodes) containing s and not t; it is undefined only for s = t *)
Theorem C26_spec_mincut : forall g s t, wf g -> s < gn g -> t < gn g ->
  match mincut g s t with
  | Some c => is_mincut g s t c
  | None => s = t
  end.
Proof. exact mincut_spec. Qed.

(* ---- minimum spanning tree reference ----------------------------------------------- *)

(* the enumeration returns the minimum total weight over all spanning trees of node 0's
   component in the undirected multigraph (sub-multisets of the edge list with |C|-1 edges
   connecting the component) *)
Theorem C26_spec_mst : forall g, wf g -> 0 < gn g ->
  match mst_spec g with
  | Some c => is_mst_weight g c
  | None => forall T, ~ spanning_tree g T
  end.
Proof. exact mst_spec_ok. Qed.

Theorem C26_component_of_start : forall g, wf g -> 0 < gn g ->
  NoDup (comp_of (sym g) 0) /\
  forall v, In v (comp_of (sym g) 0) <-> v < gn g /\ reach (sym g) 0 v.
Proof. exact component_enumeration. Qed.

(* Prim with the original `position(|x| x == u)` lookup returns 5 on two parallel edges
   1 -> 0 of weights [5, 1]; the repaired algorithm and the specification give 1 *)
Theorem C26_prim_original_defect :
  mres_total (prim_original prim_witness) = Some 5%N /\
  mres_total (prim_model prim_witness) = Some 1%N /\
  mst_spec prim_witness = Some 1%N.
Proof. exact prim_original_defect. Qed.

(* ---- triangles and clustering ------------------------------------------------------ *)

Theorem C26_triangle_def : forall g,
  NoDup (tri_list g) /\
  (forall u v w, In (u, (v, w)) (tri_list g) <-> triangle g u v w) /\
  triangles_spec g = N.of_nat (length (tri_list g)).
Proof. exact triangles_def. Qed.

Theorem C26_lcc_def : forall g v,
  NoDup (nbrs g v) /\
  (forall u, In u (nbrs g v) <-> u < gn g /\ u <> v /\ adj g u v) /\
  NoDup (nbr_pairs g v) /\
  (forall a b, In (a, b) (nbr_pairs g v) <->
               a < b /\ In a (nbrs g v) /\ In b (nbrs g v) /\ adj g a b) /\
  lcc_u g v =
    (let d := length (nbrs g v) in
     if d <? 2 then (0%N, 1%N)
     else (N.of_nat (length (nbr_pairs g v)), N.of_nat (d * (d - 1) / 2))).
Proof. exact lcc_u_def. Qed.

(* the directed coefficient is Fagiolo's formula over the loop-free 0/1 adjacency *)
Theorem C26_lcc_directed_arc : forall g u v, darc g u v = true <-> u <> v /\ arc g u v.
Proof. exact darc_spec. Qed.

(* ---- the algorithms as written ------------------------------------------------------ *)

(* [pres_optimal g s t spec r] : the result r is "a real path of optimal cost, or none when
   unreachable":  RNone only when spec = None;  RPath p c only when spec = Some c and p is a
   path of the graph from s to t whose edge weights sum to c;  never the model's out-of-fuel
   outcome. *)

(* the model of pathfinding.rs bfs (FIFO queue, visited map with parents) returns a real path
   with the minimum number of hops, None exactly when t is unreachable, and its fuel always
   suffices; every well-formed graph, every s, t *)
Theorem C26_bfs_optimal : forall g s t, wf g -> s < gn g -> t < gn g ->
  pres_optimal (unitw g) s t (hop_dist g s t) (bfs_model g s t).
Proof. exact bfs_optimal. Qed.

(* the model of pathfinding.rs dijkstra (priority queue popping a minimal entry, stale-entry
   skip, strict-improvement relaxation, parent map) returns a real path whose cost is the
   minimum over all walks, None exactly when t is unreachable, and never runs out of fuel;
   weights are naturals (non-negative) *)
Theorem C26_dijkstra_optimal : forall g s t, wf g -> s < gn g -> t < gn g ->
  pres_optimal g s t (sp_cost g s t) (dijkstra_model g s t).
Proof. exact dijkstra_optimal. Qed.

(* the model of topology.rs count_triangles as written equals the specification *)
Theorem C26_count_triangles_model : forall g, count_triangles_model g = triangles_spec g.
Proof. exact count_triangles_model_spec. Qed.

(* the model of the repaired mst.rs prim_mst (priority queue of (weight, source, target),
   add_edges pushing every outgoing edge and the LIGHTEST parallel edge of every incoming
   neighbour) terminates within its fuel and returns the minimum total weight over all
   spanning trees of node 0's component in the undirected multigraph *)
Theorem C26_prim_minimal : forall g, wf g -> 0 < gn g ->
  exists c T, prim_model g = MRes c T /\ mst_spec g = Some c.
Proof. exact prim_minimal. Qed.

(* ---- max flow as written (model/Flow.v) ---------------------------------------------- *)

(* SOUNDNESS of any valid flow in residual form (pairwise r(u,v)+r(v,u) constant, conservation
   at every inner node, net outflow of s = total): its value is at most the capacity of every
   s-t cut *)
Theorem C26_flow_le_every_cut : forall g s t, wf g -> s < gn g -> t < gn g -> s <> t ->
  forall (r : rmap) (total : N) (S : nat -> bool),
  finv g s t r total -> S s = true -> S t = false -> (total <= cut_cap g S)%N.
Proof. exact flow_le_cut. Qed.

(* ... and equals the capacity of a cut that no residual capacity leaves *)
Theorem C26_flow_saturated_cut : forall g s t, wf g -> s < gn g -> t < gn g -> s <> t ->
  forall (r : rmap) (total : N) (S : nat -> bool),
  finv g s t r total -> S s = true -> S t = false ->
  (forall u v, u < gn g -> v < gn g -> S u = true -> S v = false -> r u v = 0%N) ->
  total = cut_cap g S.
Proof. exact flow_eq_cut. Qed.

(* the model of flow.rs edmonds_karp (residual map seeded from the capacities, BFS augmenting
   path over the positive residual entries, bottleneck, update) returns the minimum cut —
   "max-flow equals the minimum cut" — for EVERY iteration order [ord] of the residual hash
   maps that visits every node; it returns None exactly for source = sink and never exhausts
   its fuel (integer capacities: every augmentation adds at least 1) *)
Theorem C26_ek_equals_mincut : forall g s t ord, wf g -> s < gn g -> t < gn g ->
  (forall u v, In v (ord u) -> v < gn g) -> (forall u v, u < gn g -> v < gn g -> In v (ord u)) ->
  ek_model ord g s t = match mincut g s t with Some c => FFlow c | None => FNone end.
Proof. exact ek_equals_mincut. Qed.

(* hence the result does not depend on the iteration order *)
Theorem C26_ek_order_independent : forall g s t o1 o2, wf g -> s < gn g -> t < gn g ->
  (forall u v, In v (o1 u) -> v < gn g) -> (forall u v, u < gn g -> v < gn g -> In v (o1 u)) ->
  (forall u v, In v (o2 u) -> v < gn g) -> (forall u v, u < gn g -> v < gn g -> In v (o2 u)) ->
  ek_model o1 g s t = ek_model o2 g s t.
Proof.
  intros g s t o1 o2 Hwf Hs Ht A1 B1 A2 B2.
  rewrite (ek_equals_mincut g s t o1 Hwf Hs Ht A1 B1), (ek_equals_mincut g s t o2 Hwf Hs Ht A2 B2). reflexivity.
Qed.

(* ---- non-vacuity ------------------------------------------------------------------- *)

Definition ex_graph : graph :=
  {| gn := 4; ge := [(0, 1, 5%N); (0, 1, 2%N); (1, 2, 1%N); (0, 2, 5%N); (2, 0, 1%N); (3, 2, 2%N)] |}.

(* a well-formed multigraph with parallel edges, a cycle and a node (3) nothing reaches:
   cheapest 0~>2 costs 3 over two hops although a direct edge exists; 3 is unreachable;
   SCCs {0,1,2},{3}; one weak component; min cut 0|2 = 6; MST weight 4; one triangle *)
Example C26_nonvacuous :
  wf ex_graph /\
  sp_cost ex_graph 0 2 = Some 3%N /\ hop_dist ex_graph 0 2 = Some 1%N /\
  sp_cost ex_graph 0 3 = None /\
  scc_spec ex_graph = [[0; 1; 2]; [3]] /\ wcc_spec ex_graph = [[0; 1; 2; 3]] /\
  mincut ex_graph 0 2 = Some 6%N /\ mst_spec ex_graph = Some 4%N /\
  triangles_spec ex_graph = 1%N /\ lcc_u ex_graph 2 = (1%N, 3%N) /\
  path_ok ex_graph 0 2 (sp_cost ex_graph 0 2) (Some ([0; 1; 2], 3%N)) = true /\
  bfs_model ex_graph 0 2 = RPath [0; 2] 1%N /\
  dijkstra_model ex_graph 0 2 = RPath [0; 1; 2] 3%N /\
  mres_total (prim_model ex_graph) = Some 4%N /\
  ek_model (ord_asc 4) ex_graph 0 2 = FFlow 6%N /\ ek_model (fun _ => [3; 2; 1; 0]) ex_graph 0 2 = FFlow 6%N.
Proof.
  split; [apply wfb_wf; vm_compute; reflexivity|]. vm_compute. repeat split.
Qed.

Print Assumptions C26_spec_shortest.
Print Assumptions C26_spec_hops.
Print Assumptions C26_spec_reach.
Print Assumptions C26_path_predicate.
Print Assumptions C26_path_is_real.
Print Assumptions C26_scc_partition.
Print Assumptions C26_wcc_partition.
Print Assumptions C26_spec_mincut.
Print Assumptions C26_spec_mst.
Print Assumptions C26_prim_original_defect.
Print Assumptions C26_triangle_def.
Print Assumptions C26_lcc_def.
Print Assumptions C26_bfs_optimal.
Print Assumptions C26_dijkstra_optimal.
Print Assumptions C26_count_triangles_model.
Print Assumptions C26_prim_minimal.
Print Assumptions C26_flow_le_every_cut.
Print Assumptions C26_ek_equals_mincut.
Print Assumptions C26_ek_order_independent.
