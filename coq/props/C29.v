(* C29 — vector search returns live, current, correctly ranked nodes.
   Property theorems only; proofs live in proofs/VectorProofs.v.

   Every theorem is for EVERY history [ops] of node creations (with or without the
   label / a vector / a vector of the wrong dimension / a non-vector value),
   vector updates, property removals, label additions and removals, deletions
   (node ids are recycled through the free list, as in the store) and searches,
   followed by a search [Search q k] whose answer is [r].

   The distance of the index's declared metric is an oracle: [dist q v] is the
   distance from query [q] to stored vector [v] (None = non-finite, which the code
   skips), compared by [leb]; the only laws assumed are that [leb] is a total
   preorder.  [ann] is whatever the approximate (HNSW) structure proposes above
   128 entries: the theorems hold for every [ann]. *)
From Coq Require Import List NArith Bool Sorted.
From Verif Require Import Vector VectorProofs.
Import ListNotations.
Open Scope N_scope.

Section C29.
Variable V : Type.
Variable D : Type.
Variable okdim : V -> bool.
Variable dist : V -> V -> option D.
Variable leb : D -> D -> bool.
Variable ann : list (N * V) -> V -> N -> list N.

Definition C29_total : Prop := forall a b : D, leb a b = true \/ leb b a = true.
Definition C29_trans : Prop := forall a b c : D, leb a b = true -> leb b c = true -> leb a c = true.

Notation run := (run V D okdim dist leb ann).
Notation answer ops q k := (snd (step V D okdim dist leb ann (run ops) (Search q k))).

(* node [id] exists now, carries the label, holds a vector of the index's dimension at
   the property, and [d] is the declared distance from [q] to that current vector *)
Definition C29_eligible (s : state V) (q : V) (id : N) (d : D) : Prop :=
  exists nd v, In (id, nd) (nodes s) /\ nlabel nd = true /\ nprop nd = Some (PVec v) /\
               okdim v = true /\ dist q v = Some d.
End C29.

(* only nodes that currently exist, carry the label and a vector at the property *)
Theorem C29_live : forall V D okdim dist leb ann, C29_total D leb -> C29_trans D leb ->
  forall ops q k r id d,
  snd (step V D okdim dist leb ann (run V D okdim dist leb ann ops) (Search q k)) = ORes (Some r) ->
  In (id, d) r ->
  exists nd v, In (id, nd) (nodes (run V D okdim dist leb ann ops)) /\ nlabel nd = true /\
               nprop nd = Some (PVec v) /\ okdim v = true.
Proof. exact live_thm. Qed.

(* each node at most once *)
Theorem C29_unique : forall V D okdim dist leb ann, C29_total D leb -> C29_trans D leb ->
  forall ops q k r,
  snd (step V D okdim dist leb ann (run V D okdim dist leb ann ops) (Search q k)) = ORes (Some r) ->
  NoDup (map fst r).
Proof. exact unique_thm. Qed.

(* the distance a node is reported (and ranked) with is the declared distance to the
   vector it holds NOW: node ids are unique keys of the store, and whatever node
   carries the returned id holds a vector v with dist q v = the reported distance *)
Theorem C29_current : forall V D okdim dist leb ann, C29_total D leb -> C29_trans D leb ->
  forall ops q k r id d,
  snd (step V D okdim dist leb ann (run V D okdim dist leb ann ops) (Search q k)) = ORes (Some r) ->
  In (id, d) r ->
  NoDup (map fst (nodes (run V D okdim dist leb ann ops))) /\
  forall nd, In (id, nd) (nodes (run V D okdim dist leb ann ops)) ->
    exists v, nprop nd = Some (PVec v) /\ dist q v = Some d.
Proof. exact current_thm. Qed.

(* non-decreasing distance: every result is <= every later one *)
Theorem C29_sorted : forall V D okdim dist leb ann, C29_total D leb -> C29_trans D leb ->
  forall ops q k r,
  snd (step V D okdim dist leb ann (run V D okdim dist leb ann ops) (Search q k)) = ORes (Some r) ->
  StronglySorted (fun a b => leb (snd a) (snd b) = true) r.
Proof. exact sorted_thm. Qed.

(* up to 128 entries the answer is exactly the k nearest: every eligible node that was
   left out is at least as far as every returned one, and the answer has
   min k (number of eligible nodes) rows *)
Theorem C29_exact_k : forall V D okdim dist leb ann, C29_total D leb -> C29_trans D leb ->
  forall ops q k r,
  snd (step V D okdim dist leb ann (run V D okdim dist leb ann ops) (Search q k)) = ORes (Some r) ->
  nlen (idx (run V D okdim dist leb ann ops)) <= 128 ->
  (forall id d id' d', In (id, d) r ->
     C29_eligible V D okdim dist (run V D okdim dist leb ann ops) q id' d' ->
     ~ In id' (map fst r) -> leb d d' = true) /\
  exists E : list (N * D),
    NoDup (map fst E) /\
    (forall id d, In (id, d) E <-> C29_eligible V D okdim dist (run V D okdim dist leb ann ops) q id d) /\
    length r = Nat.min (N.to_nat k) (length E).
Proof. exact exact_k_thm. Qed.

(* what makes the above possible: after every history the index holds exactly the nodes
   that carry the label and a vector of the right dimension, once each, with their
   current vector (no duplicate after an update, nothing left after delete / REMOVE) *)
Theorem C29_index_exact : forall V D okdim dist leb ann ops,
  NoDup (map fst (idx (run V D okdim dist leb ann ops))) /\
  forall id v, In (id, v) (idx (run V D okdim dist leb ann ops)) <->
    exists nd, In (id, nd) (nodes (run V D okdim dist leb ann ops)) /\ nlabel nd = true /\
               nprop nd = Some (PVec v) /\ okdim v = true.
Proof. exact index_exact_thm. Qed.

(* ---- non-vacuity: concrete oracle (ranks as N, N.leb is a total preorder), a history with
   an update (node 1: vector 1 -> vector 3), a label removal (node 2), a property removal
   (node 3), a deletion and id reuse (node 4 deleted, id 4 given to a node of the wrong
   dimension), a node without the label; the search returns 2 of the 3 eligible nodes,
   ranked by their CURRENT vectors (node 1 by vector 3, not by vector 1) ---- *)
Definition C29_ex_table : table :=
  [(0, [(1, Some 5); (2, Some 1); (3, Some 0); (4, Some 2); (5, Some 3); (6, None); (7, Some 9)])].
Definition C29_ex_ops : list (op cvec) :=
  [Create true (Some (PVec (1, true)));      (* node 1 *)
   Create true (Some (PVec (2, true)));      (* node 2 *)
   Create true (Some (PVec (4, true)));      (* node 3 *)
   Create true (Some (PVec (5, true)));      (* node 4 *)
   Create false (Some (PVec (2, true)));     (* node 5: no label *)
   Create true (Some (PVec (7, true)));      (* node 6 *)
   SetProp 1 (PVec (3, true)); RemoveLabel 2; RemoveProp 3; Delete 4;
   Create true (Some (PVec (5, false)));     (* id 4 again, wrong dimension *)
   Create true (Some (PVec (6, true)));      (* node 7: non-finite distance *)
   Create true (Some (PVec (4, true)))].     (* node 8 *)

Example C29_nonvacuous :
  C29_total N N.leb /\ C29_trans N N.leb /\
  snd (cstep C29_ex_table (Vector.run cvec N cokdim (tdist C29_ex_table) N.leb cann C29_ex_ops)
             (Search (0, true) 2)) = ORes (Some [(1, 0); (8, 2)]) /\
  nlen (idx (Vector.run cvec N cokdim (tdist C29_ex_table) N.leb cann C29_ex_ops)) <= 128 /\
  C29_eligible cvec N cokdim (tdist C29_ex_table)
     (Vector.run cvec N cokdim (tdist C29_ex_table) N.leb cann C29_ex_ops) (0, true) 6 9.
Proof.
  split; [|split; [|split; [|split]]].
  - intros a b. rewrite !N.leb_le. apply N.le_ge_cases.
  - intros a b c. rewrite !N.leb_le. apply N.le_trans.
  - vm_compute. reflexivity.
  - vm_compute. discriminate.
  - exists {| nlabel := true; nprop := Some (PVec (7, true)) |}, (7, true).
    vm_compute. repeat split; auto 10.
Qed.

Print Assumptions C29_live.
Print Assumptions C29_unique.
Print Assumptions C29_current.
Print Assumptions C29_sorted.
Print Assumptions C29_exact_k.
Print Assumptions C29_index_exact.
