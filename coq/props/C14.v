(* C14 — imported snapshots survive restart and crashes during persistence.
   Property theorems only; proofs live in proofs/SnapshotFsProofs.v and SnapshotFsWitness.v. *)
From Coq Require Import List NArith Bool Arith.
From Verif Require Import SnapshotJson SnapshotFs SnapshotFsProofs SnapshotFsWitness.
Import ListNotations.

(* File level, unconditional (persist_snapshot as repaired): for every history of
   acknowledged persists, every payload, every process-crash point of the next persist
   (i complete file-system operations, and k units of a write in progress), restore finds
   the last acknowledged payload or the new one - never a partial file, never nothing
   when something was acknowledged. *)
Theorem C14_crash_atomic_files : forall (A : Type) (acked : list (list A)) (b : list A) (i k : nat),
  let s := run A (after_acked A acked) (crash_ops A (persist A b) i k) in
  restore A s = last_of A acked \/ restore A s = Some b.
Proof. exact files_crash_atomic. Qed.

Theorem C14_clean_restart_files : forall (A : Type) (acked : list (list A)),
  restore A (after_acked A acked) = last_of A acked.
Proof. exact files_clean_restart. Qed.

(* Graph level, for any import function: outside the recorded classes (dedup keys not
   replayed; a later snapshot file replaces the earlier ones) the graph restored after a
   crash at any point is the graph as of the acknowledged imports or as of those plus the
   new one, and after a clean restart it is the graph as of the acknowledged imports. *)
Theorem C14_crash_atomic : forall (A G : Type) (g0 : G) (imp : G -> list A -> list (list N) -> G)
    (acked : list (import_ev A)) (new : import_ev A) (i k : nat),
  Known_C14 A acked new i = false ->
  let s := run A (after_acked A (map fst acked)) (crash_ops A (persist A (fst new)) i k) in
  restored A G g0 imp s = graph_after A G g0 imp acked
  \/ restored A G g0 imp s = graph_after A G g0 imp (acked ++ [new]).
Proof. exact graph_crash_atomic. Qed.

Theorem C14_clean_restart : forall (A G : Type) (g0 : G) (imp : G -> list A -> list (list N) -> G)
    (acked : list (import_ev A)),
  Known_C14_clean A acked = false ->
  restored A G g0 imp (after_acked A (map fst acked)) = graph_after A G g0 imp acked.
Proof. exact graph_clean_restart. Qed.

(* ---- the recorded classes are genuinely violated (import = the SnapshotJson model) ---- *)
Theorem C14_refuted_replaced_clean :
  exists acked, Known_C14_clean line acked = true /\
    restored line store empty_store imp_json (after_acked line (map fst acked))
    <> graph_after line store empty_store imp_json acked.
Proof. exact refuted_replaced_clean. Qed.

Theorem C14_refuted_replaced_crash :
  exists acked new i k, Known_C14 line acked new i = true /\
    let s := run line (after_acked line (map fst acked)) (crash_ops line (persist line (fst new)) i k) in
    restored line store empty_store imp_json s <> graph_after line store empty_store imp_json acked
    /\ restored line store empty_store imp_json s
       <> graph_after line store empty_store imp_json (acked ++ [new]).
Proof. exact refuted_replaced_crash. Qed.

Theorem C14_refuted_dedup :
  exists acked, Known_C14_dedup line acked = true /\ length acked = 1%nat /\
    restored line store empty_store imp_json (after_acked line (map fst acked))
    <> graph_after line store empty_store imp_json acked.
Proof. exact refuted_dedup. Qed.

(* power loss (no directory fsync): an acknowledged payload may restore as nothing *)
Theorem C14_refuted_power_loss :
  exists (b : list N) s', In s' (power_loss N (after_acked N [b]))
    /\ restore N (after_acked N [b]) = Some b /\ restore N s' = None.
Proof. exact refuted_power_loss. Qed.

(* the pinned ordering, for the record: with the marker removed first a crash restores
   nothing although a payload had been acknowledged (repaired in src/snapshot/persist.rs) *)
Theorem C14_pinned_order_refuted :
  exists (a b : list N) i,
    restore N (after_acked N [a]) = Some a /\
    restore N (run N (after_acked N [a]) (crash_ops N (persist_pinned N b) i 0)) = None.
Proof. exact pinned_order_refuted. Qed.

Example C14_nonvacuous :
  Known_C14 line [(snap_a, [])] (snap_b, []) 4 = false
  /\ Known_C14_clean line [(snap_a, [])] = false
  /\ length (nodes (restored line store empty_store imp_json (after_acked line [snap_a]))) = 1%nat.
Proof. exact nv_c14. Qed.

Print Assumptions C14_crash_atomic_files.
Print Assumptions C14_clean_restart_files.
Print Assumptions C14_crash_atomic.
Print Assumptions C14_clean_restart.
Print Assumptions C14_refuted_replaced_clean.
Print Assumptions C14_refuted_replaced_crash.
Print Assumptions C14_refuted_dedup.
Print Assumptions C14_refuted_power_loss.
Print Assumptions C14_pinned_order_refuted.
