(* C16 — recovery returns exactly the acknowledged persisted state.
   Property theorems only; proofs live in proofs/PersistProofs.v.

   Model: model/Persist.v (persist_* of src/persistence/mod.rs as repaired: property updates
   rewrite the stored entity, deletions refuse unknown tenants before writing, recover does not
   fail for an unregistered tenant).  A history is any list of creations, deletions, property
   updates (nodes and relationships, any tenants, any quotas) and clean restarts. *)
From Coq Require Import List NArith Bool.
From Verif Require Import Persist PersistProofs.
Import ListNotations.
Open Scope N_scope.

(* crash at any hook point: for every initial registry, history, position i of the operation in
   flight and number d of its durable steps completed, what is on disk is the specification
   (creations, deletions AND property updates folded in order) of the acknowledged operations,
   or of those plus the one in flight *)
Theorem C16_crash : forall rs ops i d o s1 acks s2,
  run (init rs) (firstn i ops) = (s1, acks) -> nth_error ops i = Some o ->
  crash_in s1 o d = Some s2 ->
  disk s2 = spec (acked (firstn i ops) acks) \/
  disk s2 = spec (acked (firstn i ops) acks ++ [o]).
Proof. exact crash_spec. Qed.

(* ... and that is what PersistenceManager::recover returns in the NEW process, for every
   tenant, whatever tenants the new process has registered *)
Theorem C16_recover : forall rs ops i d o s1 acks s2 rs' t,
  run (init rs) (firstn i ops) = (s1, acks) -> nth_error ops i = Some o ->
  crash_in s1 o d = Some s2 ->
  fst (recover (reopen s2 rs') t) = view (spec (acked (firstn i ops) acks)) t \/
  fst (recover (reopen s2 rs') t) = view (spec (acked (firstn i ops) acks ++ [o])) t.
Proof. exact recover_after_crash. Qed.

(* the operation in flight is applied atomically: nothing of it before its storage write
   (d < 2), all of it afterwards *)
Theorem C16_inflight_atomic : forall s1 o d s2, crash_in s1 o d = Some s2 ->
  disk s2 = if Nat.leb 2 d then effect (disk s1) o else disk s1.
Proof. exact crash_atomic. Qed.

(* no crash (or a crash between two operations): exactly the acknowledged operations *)
Theorem C16_recover_complete : forall rs ops s acks rs' t,
  run (init rs) ops = (s, acks) ->
  fst (recover (reopen s rs') t) = view (spec (acked ops acks)) t.
Proof. exact recover_after_run. Qed.

(* the same from ANY state, in particular from the state a crashed-and-reopened process finds:
   histories with several crashes compose *)
Theorem C16_from_any_state : forall ops s s' acks, run s ops = (s', acks) ->
  disk s' = fold_left effect (acked ops acks) (disk s) /\ length acks = length ops.
Proof. exact run_disk. Qed.

(* a refused operation (quota, unknown tenant) leaves the disk alone; an acknowledged one has
   exactly its effect *)
Theorem C16_ack_iff_effect : forall s o s' a, run_op s o = (s', a) ->
  disk s' = if a then effect (disk s) o else disk s.
Proof. exact run_op_disk. Qed.

(* the log holds one entry per acknowledged operation, in order *)
Theorem C16_log_matches_acks : forall ops s s' acks, run s ops = (s', acks) ->
  wal s' = wal s ++ entries (acked ops acks).
Proof. exact run_wal. Qed.

(* the original code (property updates appended to the log only) loses an acknowledged
   update: create node 1 with name="a", set name:=<value 5>; the repaired model recovers it *)
Theorem C16_original_loses_update :
  view (fold_left effect_original update_witness empty_store) 0 <> view (spec update_witness) 0 /\
  (let '(s, acks) := run (init []) update_witness in
   acks = [true; true] /\ fst (recover (reopen s []) 0) = view (spec update_witness) 0).
Proof. exact original_loses_update. Qed.

(* ---- non-vacuity: a history with an overwrite, a refused creation (quota 1), a restart that
   forgets tenant 1, a refused deletion for it, updates of present and absent entities; crashed
   inside the last update before and after its storage write: both outcomes occur, and the
   unregistered tenant's data is recovered ---- *)
Definition ex_ops : list op :=
  [CreateNode 1 1 [1] [(0, 0)]; CreateNode 1 2 [2] []; CreateNode 0 1 [] [];
   CreateEdge 0 7 1 1 0 [(1, 1)]; Reopen []; DeleteNode 1 1; UpdateNode 1 1 [(0, 5)];
   UpdateEdge 0 9 [(2, 2)]; UpdateEdge 0 7 [(2, 3)]].

Example C16_nonvacuous :
  let rs := [(1, (Some 1, None))] in
  let '(s1, acks) := run (init rs) (firstn 8 ex_ops) in
  acks = [true; false; true; true; true; false; true; true] /\
  (exists s2, crash_in s1 (UpdateEdge 0 7 [(2, 3)]) 1 = Some s2 /\
              disk s2 = spec (acked (firstn 8 ex_ops) acks) /\
              fst (recover (reopen s2 []) 1) = ([(1, ([1], [(0, 5)]))], [])) /\
  (exists s2, crash_in s1 (UpdateEdge 0 7 [(2, 3)]) 2 = Some s2 /\
              disk s2 = spec (acked (firstn 8 ex_ops) acks ++ [UpdateEdge 0 7 [(2, 3)]]) /\
              disk s2 <> spec (acked (firstn 8 ex_ops) acks) /\
              snd (fst (recover (reopen s2 []) 0)) = [(7, (1, 1, 0, [(2, 3)]))]).
Proof.
  vm_compute. split; [reflexivity|]. split; eexists; repeat split; try reflexivity. discriminate.
Qed.

Print Assumptions C16_crash.
Print Assumptions C16_recover.
Print Assumptions C16_inflight_atomic.
Print Assumptions C16_recover_complete.
Print Assumptions C16_from_any_state.
Print Assumptions C16_ack_iff_effect.
Print Assumptions C16_log_matches_acks.
Print Assumptions C16_original_loses_update.
