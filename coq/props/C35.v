(* C35 - parameterized queries never answer differently from inlined literals.
   The substitution lemma on the reference semantics: evaluating a query under a parameter
   environment equals evaluating the query in which every parameter bound by the environment
   has been replaced by its value written as a literal (parameters are not binders, so
   inlining is capture-free; a parameter the environment does not bind stays a parameter and
   is an error on both sides).  The engine's two paths (substitute_params / evaluation of
   Expression::Parameter vs literals) are tied to this by the metamorphic correspondence
   harness/src/bin/c35.rs.  Property theorems only; proofs live in proofs/CypherSubst.v. *)
From Coq Require Import List NArith ZArith Bool.
From Verif Require Import CypherCore Cypher CypherProofs CypherSubst CypherWrite CypherWriteSubst.
Import ListNotations.
Open Scope N_scope.

(* The full statement, NOT proved (the engine is not modelled): running with parameters either
   fails or answers what the inlined query answers. *)
Definition C35_full (engine : graph -> penv -> query -> option table) : Prop :=
  forall g pe q t, engine g pe q = Some t -> engine g [] (inline pe q) = Some t.

(* for every configuration of the semantics, graph, environment and query *)
Theorem C35_subst : forall cf g pe q,
  eval_query_cfg cf g pe q = eval_query_cfg cf g [] (inline pe q).
Proof. exact subst_query. Qed.

Theorem C35_subst_reference : forall g pe q,
  eval_query_env g pe q = eval_query g (inline pe q).
Proof. intros g pe q. exact (subst_query ref_cfg g pe q). Qed.

(* the same law one level down: expressions, in any row *)
Theorem C35_subst_expr : forall cf g pe e r,
  eval_expr cf g pe r e = eval_expr cf g [] r (inline_expr pe e).
Proof. exact inline_expr_ok. Qed.

(* non-vacuity: parameters in WHERE, in an inline pattern property, in a list and in RETURN *)
Definition ex_graph : graph :=
  Build_graph
    [Build_node 1 [0] [(0, VInt 1)]; Build_node 2 [0; 1] [(0, VInt 2)]; Build_node 3 [1] []]
    [Build_rel 1 1 2 0 []; Build_rel 2 2 3 1 []].
Definition ex_query : query :=
  Q [SQ [CMatch false [(NP (Some 1) [0] [(0, EParam 2)], [])]
                (Some (EIn (EProp 1 0) (EList [EParam 0; ELit (VInt 7)])))]
        (PJ false [(IExpr (EArith AAdd (EProp 1 0) (EParam 1)), 100)] [] None None)] false.
Example C35_nonvacuous :
  eval_query_env ex_graph [(0, VInt 2); (1, VInt 40); (2, VInt 2)] ex_query = Ok [[VInt 42]]
  /\ eval_query ex_graph (inline [(0, VInt 2); (1, VInt 40); (2, VInt 2)] ex_query) = Ok [[VInt 42]]
  /\ eval_query ex_graph ex_query = ErrT.
Proof. vm_compute. repeat split. Qed.

(* ---- parameters as the SKIP / LIMIT counts of the final RETURN: a parameter there must be
   bound to a non-negative integer, anything else is an error (on both sides) ---- *)
Theorem C35_subst_counts : forall cf g pe w,
  eval_wquery_cfg cf g pe w = eval_wquery_cfg cf g [] (inline_wquery pe w).
Proof. exact subst_wquery. Qed.

(* MATCH (n) RETURN id(n) ORDER BY id(n) SKIP $0 LIMIT $1 with $0 = 1, $1 = 1: the second node;
   with $1 = 'a' an error, inlined or not *)
Example C35_nonvacuous_counts :
  let w := WQ (Q [SQ [CMatch false [(NP (Some 1) [] [], [])] None]
                     (PJ false [(IExpr (EFn FId [EVar 1]), 100)] [(EVar 100, true)] None None)] false)
              (Some (CPar 0)) (Some (CPar 1)) in
  eval_wquery_cfg ref_cfg ex_graph [(0, VInt 1); (1, VInt 1)] w = Ok [[VInt 2]]
  /\ eval_wquery_cfg ref_cfg ex_graph [] (inline_wquery [(0, VInt 1); (1, VInt 1)] w) = Ok [[VInt 2]]
  /\ eval_wquery_cfg ref_cfg ex_graph [(0, VInt 1); (1, VStr [97])] w = ErrT.
Proof. vm_compute. repeat split. Qed.

(* ---- write statements (CREATE / MERGE / SET with parameters as property values), on the write
   semantics of coq/model/CypherWrite.v: the same result and the same effect on the graph ---- *)
Theorem C35_subst_stmt : forall wc cf pe g s,
  exec_stmt_env_cfg wc cf pe g s = exec_stmt_cfg wc cf g (inline_stmt pe s).
Proof. exact subst_stmt. Qed.

Theorem C35_subst_stmt_reference : forall pe g s,
  exec_stmt_env pe g s = exec_stmt g (inline_stmt pe s).
Proof. intros pe g s. exact (subst_stmt ref_w ref_cfg pe g s). Qed.

(* MATCH (n:A) SET n.p5 = $0 CREATE (:C {p0: $1}) : both nodes labelled A get p5 = 7, and
   two new nodes carry p0 = 'a' - under the environment and after inlining alike *)
Definition ex_stmt : stmt :=
  ST [CMatch false [(NP (Some 1) [0] [], [])] None]
     [USet [SetProp 1 5 (EParam 0)]; UCreate [(NP None [2] [(0, EParam 1)], [])]] None.
Example C35_nonvacuous_write :
  let pe := [(0, VInt 7); (1, VStr [97])] in
  match exec_stmt_env pe ex_graph ex_stmt, exec_stmt ex_graph (inline_stmt pe ex_stmt) with
  | Ok (g1, _), Ok (g2, _) =>
      map (fun n => (prop_of 5 (n_props n), prop_of 0 (n_props n))) (g_nodes g1)
      = [(VInt 7, VInt 1); (VInt 7, VInt 2); (VNull, VNull); (VNull, VStr [97]); (VNull, VStr [97])]
      /\ g_nodes g1 = g_nodes g2
  | _, _ => False
  end.
Proof. vm_compute. split; reflexivity. Qed.

(* the witness of the known finding set_param_in_clause_pipeline: CREATE (n:A) SET n.p0 = $0
   with $0 = 2.  The reference stores 2; leaving the parameter unsubstituted and turning the
   failing SET into null (the engine's recorded behaviour, eng_w) stores nothing. *)
Example C35_known_witness :
  let s := ST [] [UCreate [(NP (Some 1) [0] [], [])]; USet [SetProp 1 0 (EParam 0)]] None in
  Known_C35 s = true
  /\ match exec_stmt_env [(0, VInt 2)] ex_graph s, exec_stmt_cfg eng_w ref_cfg ex_graph s with
     | Ok (g1, _), Ok (g2, _) =>
         map (fun n => prop_of 0 (n_props n)) (g_nodes g1) = [VInt 1; VInt 2; VNull; VInt 2]
         /\ map (fun n => prop_of 0 (n_props n)) (g_nodes g2) = [VInt 1; VInt 2; VNull; VNull]
     | _, _ => False
     end.
Proof. vm_compute. repeat split. Qed.

(* the witness of the known finding param_in_earlier_with_where:
   MATCH (n) WITH n AS m WHERE $0 WITH m AS k RETURN id(k) with $0 = true keeps every node *)
Example C35_known_witness_with :
  let q := Q [SQ [CMatch false [(NP (Some 1) [] [], [])] None;
                  CWith (PJ false [(IExpr (EVar 1), 2)] [] None None) (Some (EParam 0));
                  CWith (PJ false [(IExpr (EVar 2), 3)] [] None None) None]
                 (PJ false [(IExpr (EFn FId [EVar 3]), 100)] [] None None)] false in
  Known_C35_query q = true
  /\ eval_query_env ex_graph [(0, VBool true)] q = Ok [[VInt 1]; [VInt 2]; [VInt 3]].
Proof. vm_compute. split; reflexivity. Qed.

Print Assumptions C35_subst_counts.
Print Assumptions C35_subst_stmt.
Print Assumptions C35_subst_stmt_reference.
Print Assumptions C35_subst.
Print Assumptions C35_subst_reference.
Print Assumptions C35_subst_expr.
