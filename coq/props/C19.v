(* C19 -- writes acknowledged by the server survive a restart.
   Property theorems only; proofs live in proofs/ServerPersistProofs.v.

   The faithful effect model (model/ServerPersist.v: the RESP write path persists exactly the
   nodes / relationships that occur as values in the result rows, the HTTP path persists nothing,
   recovery is a storage scan) VIOLATES the property.  The defect is recorded by cause, one class
   per losing path:
     resp-write-not-returned  an entity created or changed by an acknowledged RESP statement is
                              not returned as an entity by that statement
     resp-delete              DELETE / DETACH DELETE over RESP (deletions are never persisted)
     http-any-write           any write over HTTP
   Known_C19 h = "some statement of the history h is in one of the classes". *)
From Coq Require Import List ZArith NArith Bool.
From Verif Require Import ServerPersist ServerPersistProofs.
Import ListNotations.
Open Scope N_scope.

(* the property for every history of acknowledged statements: unproved -- and false *)
Definition C19_survives_full : Prop :=
  forall h, history_ok empty h = true -> same_graph (recover (snd (run h))) (fst (run h)).

(* outside the classes -- histories of RESP statements each of which returns every node and
   relationship it created or changed and deletes nothing, reads, and statements that change
   nothing -- the graph rebuilt by the recovery path has exactly the nodes (labels, properties)
   and relationships of the graph served before the shutdown; for all such histories *)
Theorem C19_survives : forall h,
  history_ok empty h = true -> Known_C19 h = false ->
  same_graph (recover (snd (run h))) (fst (run h)).
Proof. exact survives. Qed.

Theorem C19_refuted : exists h, history_ok empty h = true /\ Known_C19 h = true /\
  ~ same_graph (recover (snd (run h))) (fst (run h)).
Proof. exact refuted. Qed.

(* one witness per class *)
Theorem C19_refuted_resp_write_not_returned :
  history_ok empty w_not_returned = true /\ map class_of w_not_returned = [Some RespWriteNotReturned] /\
  Known_C19 w_not_returned = true /\ lost_at w_not_returned 1.
Proof. exact refuted_not_returned. Qed.

Theorem C19_refuted_resp_delete :
  history_ok empty w_delete = true /\ map class_of w_delete = [None; Some RespDelete] /\
  Known_C19 w_delete = true /\ lost_at w_delete 1.
Proof. exact refuted_delete. Qed.

Theorem C19_refuted_http_any_write :
  history_ok empty w_http = true /\ map class_of w_http = [Some HttpAnyWrite] /\
  Known_C19 w_http = true /\ lost_at w_http 1.
Proof. exact refuted_http. Qed.

Theorem C19_not_survives_full : ~ C19_survives_full.
Proof. exact not_survives_full. Qed.

(* non-vacuity of C19_survives: a history outside the classes with creations (path, returned),
   a property change and a label change (returned), a relationship between existing nodes
   (returned), a read that returns everything and a write that changes nothing *)
Example C19_nonvacuous :
  let n1 := {| c_labels := [1]; c_props := [(1, 1%Z)] |} in
  let n2 := {| c_labels := [2]; c_props := [(1, 2%Z); (2, 7%Z)] |} in
  let n1' := {| c_labels := [1; 3]; c_props := [(1, 1%Z); (3, 9%Z)] |} in
  let e1 := {| c_src := 1; c_dst := 2; c_type := 1; c_eprops := [(4, 5%Z)] |} in
  let e2 := {| c_src := 2; c_dst := 1; c_type := 1; c_eprops := [] |} in
  let h := [ {| s_chan := Resp; s_write := true; s_delta := [PutNode 1 n1; PutNode 2 n2; PutEdge 1 e1];
                s_returned := [RNode 1; REdge 1; RNode 2] |};
             {| s_chan := Resp; s_write := true; s_delta := [PutNode 1 n1']; s_returned := [RNode 1] |};
             {| s_chan := Resp; s_write := true; s_delta := [PutEdge 2 e2]; s_returned := [REdge 2] |};
             {| s_chan := Resp; s_write := false; s_delta := []; s_returned := [RNode 1; RNode 2] |};
             {| s_chan := Http; s_write := true; s_delta := []; s_returned := [] |} ] in
  history_ok empty h = true /\ Known_C19 h = false /\
  recover (snd (run h)) = {| g_nodes := [(1, n1'); (2, n2)]; g_edges := [(1, e1); (2, e2)] |} /\
  fst (run h) = {| g_nodes := [(1, n1'); (2, n2)]; g_edges := [(1, e1); (2, e2)] |}.
Proof. vm_compute. repeat split; reflexivity. Qed.

Print Assumptions C19_survives.
Print Assumptions C19_refuted.
Print Assumptions C19_refuted_resp_write_not_returned.
Print Assumptions C19_refuted_resp_delete.
Print Assumptions C19_refuted_http_any_write.
Print Assumptions C19_not_survives_full.
