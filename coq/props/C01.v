(* C01 - read queries return exactly the rows openCypher semantics define.
   The theorems are about the reference semantics (coq/model/CypherCore.v, Cypher.v) and about
   the rewrite laws a planner relies on; the engine is tied to the reference semantics by the
   differential correspondence check (harness/src/bin/c01.rs), which is what carries [C01_full].
   Property theorems only; proofs live in proofs/CypherProofs.v. *)
From Coq Require Import List NArith ZArith Bool Permutation Sorted.
From Verif Require Import CypherCore Cypher CypherProofs.
Import ListNotations.
Open Scope N_scope.

(* The full statement, NOT proved (the engine is 30 k lines of Rust, not modelled): whatever an
   engine answers without an error is, as a bag, the table the reference semantics defines. *)
Definition C01_full (engine : graph -> query -> option table) : Prop :=
  forall g q t, engine g q = Some t ->
    exists t', eval_query g q = Ok t' /\ Permutation t t'.

(* ---- matching ---- *)

(* The brute-force matcher enumerates exactly the assignments of the declarative matching
   relation: for every graph, pattern list, incoming row. [PatsMatch] / [PathMatch] /
   [SegsMatch] / [SegOk] / [Trail] / [Walk] are inductive, non-executable definitions. *)
Theorem C01_match_sound_complete : forall iso g ps r used a r' used',
  In (a, r', used') (enum_pats iso g ps r used) <-> PatsMatch iso g ps r used a r' used'.
Proof. exact enum_pats_spec. Qed.

Theorem C01_path_sound_complete : forall g p r used pa r' used',
  In (pa, r', used') (enum_path g p r used) <-> PathMatch g p r used pa r' used'.
Proof. exact enum_path_spec. Qed.

(* each assignment is enumerated exactly once (so the bag of rows has the right multiplicities),
   on every graph whose node ids and relationship ids are unique *)
Theorem C01_match_multiplicity : forall g,
  NoDup (map r_id (g_rels g)) -> NoDup (map n_id (g_nodes g)) ->
  forall iso ps r used, NoDup (map pats_key (enum_pats iso g ps r used)).
Proof. exact enum_pats_nodup. Qed.

(* a pattern node with several labels matches only nodes carrying all of them *)
Theorem C01_multilabel : forall g p r used pa r' used',
  PathMatch g p r used pa r' used' ->
  (exists n, In n (g_nodes g) /\ n_id n = fst pa /\
             forall l, In l (np_labels (fst p)) -> In l (n_labels n))
  /\ Forall2 (fun (seg : rpat value * npat value) (sa : seg_asg) =>
                exists n, find_node g (snd sa) = Some n /\
                          forall l, In l (np_labels (snd seg)) -> In l (n_labels n)) (snd p) (snd pa).
Proof. exact path_match_labels. Qed.

(* relationship isomorphism: the relationships matched by one MATCH are pairwise distinct,
   across all its comma-separated paths and inside variable-length segments *)
Theorem C01_rel_iso : forall g ps r a r' used',
  In (a, r', used') (enum_pats true g ps r []) -> NoDup (pats_rels a).
Proof. exact match_rel_iso. Qed.

(* a (fixed or variable-length) segment binds exactly the trails of admissible length *)
Theorem C01_varlen_trails : forall g rp u used rs w,
  In (rs, w) (seg_cands g rp u used) <-> SegOk g rp u used rs w.
Proof. exact seg_cands_spec. Qed.

(* the enumeration's fuel never cuts a trail off *)
Theorem C01_fuel_suffices : forall g rp u used fuel x,
  (length (g_rels g) <= fuel)%nat ->
  In x (trails fuel g rp u used) <-> In x (trails (length (g_rels g)) g rp u used).
Proof. exact fuel_suffices. Qed.

(* ---- WHERE ---- *)
(* WHERE keeps exactly the rows whose predicate is true; unknown (null) and false drop the row *)
Theorem C01_where_3vl : forall cf g pe e rows out,
  filter_rows cf g pe (Some e) rows = Ok out ->
  out = filter (pred_true cf g pe e) rows
  /\ Forall (fun r => exists b, eval_pred cf g pe r e = Ok b) rows.
Proof. exact filter_rows_spec. Qed.

Theorem C01_where_true_only : forall cf g pe r e,
  eval_pred cf g pe r e = Ok true <-> eval_expr cf g pe r e = Ok (VBool true).
Proof. exact eval_pred_true. Qed.

(* ---- ORDER BY / SKIP / LIMIT / DISTINCT / UNION / OPTIONAL MATCH ---- *)
Theorem C01_orderby_sorted_perm : forall dirs (l : list keyed),
  Permutation (sort_by (key_le dirs) l) l
  /\ Sorted (fun a b => key_le dirs a b = true) (sort_by (key_le dirs) l).
Proof. exact orderby_sorted_perm. Qed.

Theorem C01_skip_limit : forall (A : Type) p (l : list A),
  window p l =
  match p_limit p with
  | Some n => firstn (N.to_nat n) (skipn (nat_of_opt (p_skip p) 0) l)
  | None => skipn (nat_of_opt (p_skip p) 0) l
  end.
Proof. exact @window_spec. Qed.

Theorem C01_distinct : forall t : table,
  NoDup (dedup_by row_vals_eqb t) /\ forall r, In r (dedup_by row_vals_eqb t) <-> In r t.
Proof. exact distinct_rows. Qed.

Theorem C01_union : forall cf g pe parts all ts,
  omap (eval_squery cf g pe) parts = Ok ts ->
  eval_query_cfg cf g pe (Q parts all) =
  Ok (if all then concat ts
      else match parts with [_] => concat ts | _ => dedup_by row_vals_eqb (concat ts) end).
Proof. exact union_spec. Qed.

(* aggregation: one group per distinct grouping key (keys pairwise different, exactly the keys
   of the input), and the groups partition the input rows *)
Theorem C01_aggregate_groups : forall l : list (list value * row),
  NoDup (map fst (group_rows l))
  /\ (forall k, In k (map fst (group_rows l)) <-> In k (map fst l))
  /\ Permutation (concat (map snd (group_rows l))) (map snd l).
Proof.
  intros l. destruct (group_rows_keys_spec l) as [H1 H2].
  split; [exact H1 | split; [exact H2 | apply group_rows_partition]].
Qed.

(* what each aggregate computes inside a group, against a declarative reading: [vals] are the
   argument's values on the group's rows; nulls are dropped; DISTINCT keeps each value once;
   count = how many, sum = the integer sum, min / max = an element below / above every element
   under orderability (null for an empty input), collect = the list itself.  Stated for every
   configuration in which sum(DISTINCT) and collect(DISTINCT) are not deviated (the reference). *)
Theorem C01_aggregate_values : forall cf g pe a d e rows vals v,
  cf_sum_distinct cf = true -> cf_collect_distinct_entities cf = true ->
  omap (fun r => eval_expr cf g pe r e) rows = Ok vals ->
  eval_agg cf g pe a d (Some e) rows = Ok v ->
  let nn := filter (fun x => negb (value_eqb x VNull)) vals in
  exists xs,
    (if d then NoDup xs /\ (forall x, In x xs <-> In x nn) else xs = nn) /\
    match a with
    | GCount => v = VInt (Z.of_nat (length xs))
    | GSum => exists zs, xs = map VInt zs /\ v = VInt (fold_right Z.add 0%Z zs)
    | GMin => (xs = [] /\ v = VNull) \/ (In v xs /\ Forall (fun x => ord_cmp v x <> Gt) xs)
    | GMax => (xs = [] /\ v = VNull) \/ (In v xs /\ Forall (fun x => ord_cmp v x <> Lt) xs)
    | GCollect => v = VList xs
    end.
Proof. exact agg_value_spec. Qed.

Theorem C01_count_star : forall cf g pe a d rows,
  eval_agg cf g pe a d None rows = Ok (VInt (Z.of_nat (length rows))).
Proof. exact count_star_spec. Qed.

(* orderability (ORDER BY, min, max) is a total preorder *)
Theorem C01_orderability_preorder : forall a b c,
  ord_cmp a a = Eq
  /\ ord_cmp b a = CompOpp (ord_cmp a b)
  /\ (ord_cmp a b <> Gt -> ord_cmp b c <> Gt -> ord_cmp a c <> Gt).
Proof. intros a b c. split; [apply ord_cmp_refl | split; [apply ord_cmp_opp | apply vle_trans]]. Qed.

(* OPTIONAL MATCH = MATCH when something matches, else the incoming row with the new
   variables null *)
Theorem C01_optional_match : forall cf g pe pats w r vps kept,
  omap (resolve_ppat cf g pe r) pats = Ok vps ->
  filter_rows cf g pe w (match_rows (cf_path_iso cf) g vps r) = Ok kept ->
  eval_match cf g pe true pats w r =
  Ok (match kept with [] => [null_pad (flat_map ppat_vars pats) r] | _ => kept end)
  /\ eval_match cf g pe false pats w r = Ok kept.
Proof. exact optional_match_spec. Qed.

Theorem C01_optional_null_padding : forall vars r x,
  In x vars -> alookup x r = None -> alookup x (null_pad vars r) = Some VNull.
Proof. exact null_pad_new. Qed.

(* ---- planner rewrites, over the reference algebra ---- *)
Theorem RW_topn : forall (A : Type) (le : A -> A -> bool) k (l : list A),
  topn le k l = firstn k (sort_by le l).
Proof. exact @topn_spec. Qed.

Theorem RW_limit_pushdown : forall (A B : Type) (f : A -> B) k (l : list A),
  firstn k (map f l) = map f (firstn k l).
Proof. exact @limit_pushdown. Qed.

Theorem RW_limit_over_filter : forall (A : Type) (f : A -> bool) k (l : list A),
  exists n, firstn k (filter f l) = filter f (firstn n l).
Proof. exact @limit_filter_prefix. Qed.

Theorem RW_label_scan_intersection : forall (nodes : list node) (l : N) (ls : list N),
  filter (fun n => forallb (fun l => memN l (n_labels n)) (l :: ls)) nodes =
  filter (fun n => forallb (fun l => memN l (n_labels n)) ls)
         (filter (fun n => memN l (n_labels n)) nodes).
Proof. exact label_scan_intersection. Qed.

(* RW_anchor_choice, per segment: expanding a (fixed or variable-length) segment from its far
   end, against the direction, finds exactly the same trails, reversed - so which pattern node
   the planner anchors on does not change the set of matches of the segment *)
Theorem RW_anchor_choice : forall g rp u used rs w,
  Trail g rp u used rs w <-> Trail g (flip_rp rp) w used (rev rs) u.
Proof. exact trail_rev. Qed.

Theorem RW_expand_reverse : forall g rp u v r,
  In (r, v) (hops g rp u) <-> In (r, u) (hops g (flip_rp rp) v).
Proof. exact hops_flip. Qed.

(* what is claimed for C01: the conjunction of the laws above (see the individual theorems) *)
Theorem C01_partial :
  (forall iso g ps r used a r' used',
     In (a, r', used') (enum_pats iso g ps r used) <-> PatsMatch iso g ps r used a r' used')
  /\ (forall g ps r a r' used', In (a, r', used') (enum_pats true g ps r []) -> NoDup (pats_rels a))
  /\ (forall g rp u used rs w, In (rs, w) (seg_cands g rp u used) <-> SegOk g rp u used rs w)
  /\ (forall cf g pe e rows out,
        filter_rows cf g pe (Some e) rows = Ok out -> out = filter (pred_true cf g pe e) rows)
  /\ (forall dirs (l : list keyed),
        Permutation (sort_by (key_le dirs) l) l
        /\ Sorted (fun a b => key_le dirs a b = true) (sort_by (key_le dirs) l))
  /\ (forall t : table,
        NoDup (dedup_by row_vals_eqb t) /\ forall r, In r (dedup_by row_vals_eqb t) <-> In r t).
Proof.
  split; [exact enum_pats_spec|].
  split; [exact match_rel_iso|].
  split; [exact seg_cands_spec|].
  split; [intros cf g pe e rows out H; exact (proj1 (filter_rows_spec _ _ _ _ _ _ H))|].
  split; [exact orderby_sorted_perm | exact distinct_rows].
Qed.

(* ---- non-vacuity ---- *)
Definition ex_graph : graph :=
  Build_graph
    [Build_node 1 [0] [(0, VInt 1)]; Build_node 2 [0; 1] [(0, VInt 2)]; Build_node 3 [1] []]
    [Build_rel 1 1 2 0 []; Build_rel 2 1 2 0 []; Build_rel 3 2 3 1 []; Build_rel 4 3 3 0 []].

(* (a:A:B) matches node 2 only; a two-hop undirected pattern never reuses a relationship;
   *1..2 from node 1 yields the four trails [1] [2] [1;3] [2;3] *)
Example C01_nonvacuous_match :
  map (fun m => fst (fst m)) (enum_pats true ex_graph [(NP (Some 1) [0; 1] [], [])] [] []) = [[(2, [])]]
  /\ length (enum_pats true ex_graph
               [(NP (Some 1) [] [], [(RP (Some 2) [] DBoth [] None, NP (Some 3) [] []);
                                     (RP (Some 4) [] DBoth [] None, NP (Some 5) [] [])])] [] []) = 10%nat
  /\ map (fun t => map r_id (fst t))
         (seg_cands ex_graph (RP None [] DOut [] (Some (1%nat, Some 2%nat))) 1 [])
     = [[1]; [1; 3]; [2]; [2; 3]].
Proof. vm_compute. repeat split. Qed.

Example C01_nonvacuous_wf :
  NoDup (map r_id (g_rels ex_graph)) /\ NoDup (map n_id (g_nodes ex_graph)).
Proof. split; repeat (constructor; [cbn; intuition discriminate|]); constructor. Qed.

(* WHERE n.p0 > 1 over nodes with p0 = 1, 2 and no p0: false, true, unknown; one row is kept *)
Example C01_nonvacuous_where :
  eval_query ex_graph
    (Q [SQ [CMatch false [(NP (Some 1) [] [], [])] (Some (ECmp OGt (EProp 1 0) (ELit (VInt 1))))]
           (PJ false [(IExpr (EVar 1), 100)] [] None None)] false)
  = Ok [[VNode 2]].
Proof. vm_compute. reflexivity. Qed.

(* aggregates: count( * ) over no rows is one row 0; grouped by label list there are three groups *)
Example C01_nonvacuous_aggregate :
  eval_query ex_graph
    (Q [SQ [CMatch false [(NP (Some 1) [3] [], [])] None]
           (PJ false [(IAgg GCount false None, 100)] [] None None)] false) = Ok [[VInt 0]]
  /\ eval_query ex_graph
    (Q [SQ [CMatch false [(NP (Some 1) [] [], [(RP None [] DOut [] None, NP (Some 2) [] [])])] None]
           (PJ false [(IExpr (EFn FId [EVar 1]), 100); (IAgg GCount false None, 101)]
               [(EVar 100, true)] None None)] false)
     = Ok [[VInt 1; VInt 2]; [VInt 2; VInt 1]; [VInt 3; VInt 1]].
Proof. vm_compute. split; reflexivity. Qed.

(* OPTIONAL MATCH pads with null; ORDER BY DESC; LIMIT *)
Example C01_nonvacuous_pipeline :
  eval_query ex_graph
    (Q [SQ [CMatch false [(NP (Some 1) [] [], [])] None;
            CMatch true [(NP (Some 1) [] [], [(RP (Some 2) [1] DOut [] None, NP (Some 3) [] [])])] None]
           (PJ false [(IExpr (EFn FId [EVar 1]), 100); (IExpr (EVar 3), 101)]
               [(EVar 100, false)] None (Some 2))] false)
  = Ok [[VInt 3; VNull]; [VInt 2; VNode 3]].
Proof. vm_compute. reflexivity. Qed.

(* ---- the witnesses of the known findings (known_findings.txt; replayed on the engine by the
   harness every run): what the reference semantics defines on the harness's fixed graph, and,
   where the deviation is modelled, what [eng_cfg] - the engine's recorded behaviour - gives ---- *)
Definition fixed_graph : graph :=
  Build_graph
    [Build_node 1 [0] [(0, VInt 1); (1, VStr [97])]; Build_node 2 [0; 1] [(0, VInt 2)];
     Build_node 3 [1] [(0, VStr [97])]; Build_node 4 [] [(0, VBool true); (3, VList [VInt 1; VInt 2])]]
    [Build_rel 1 1 2 0 [(0, VInt 1)]; Build_rel 2 1 2 0 [(0, VInt 2)]; Build_rel 3 2 3 1 [];
     Build_rel 4 3 3 0 []; Build_rel 5 3 1 2 []; Build_rel 6 4 1 0 []].
Definition ret1 (i : item) : proj := PJ false [(i, 100)] [] None None.
Definition anyn (x : N) : npat expr := NP (Some x) [] [].
Definition anyr (x : N) : rpat expr := RP (Some x) [] DOut [] None.

Example C01_known_witnesses :
  (* multi_path_rel_iso: MATCH (a)-[r]->(b), (c)-[s]->(d) RETURN count( * ) *)
  (let q := Q [SQ [CMatch false [(anyn 1, [(anyr 2, anyn 3)]); (anyn 4, [(anyr 5, anyn 6)])] None]
                  (ret1 (IAgg GCount false None))] false in
   eval_query fixed_graph q = Ok [[VInt 30]] /\ eval_query_cfg eng_cfg fixed_graph [] q = Ok [[VInt 36]])
  (* list_eq_null: RETURN [1, null] = [1, null] *)
  /\ (let q := Q [SQ [] (ret1 (IExpr (ECmp OEq (ELit (VList [VInt 1; VNull])) (ELit (VList [VInt 1; VNull])))))] false in
      eval_query fixed_graph q = Ok [[VNull]] /\ eval_query_cfg eng_cfg fixed_graph [] q = Ok [[VBool true]])
  (* with_agg_empty: MATCH (n:D) WITH count( * ) AS c RETURN c *)
  /\ (let q := Q [SQ [CMatch false [(NP (Some 1) [3] [], [])] None;
                     CWith (PJ false [(IAgg GCount false None, 2)] [] None None) None]
                    (ret1 (IExpr (EVar 2)))] false in
      eval_query fixed_graph q = Ok [[VInt 0]] /\ eval_query_cfg eng_cfg fixed_graph [] q = Ok [])
  (* sum_distinct: MATCH (n) RETURN sum(DISTINCT 5) *)
  /\ (let q := Q [SQ [CMatch false [(anyn 1, [])] None] (ret1 (IAgg GSum true (Some (ELit (VInt 5)))))] false in
      eval_query fixed_graph q = Ok [[VInt 5]] /\ eval_query_cfg eng_cfg fixed_graph [] q = Ok [[VInt 20]])
  (* collect_distinct_entities: MATCH (n:A) RETURN size(collect(DISTINCT n)), via WITH *)
  /\ (let q := Q [SQ [CMatch false [(NP (Some 1) [0] [], [])] None;
                     CWith (PJ false [(IAgg GCollect true (Some (EVar 1)), 2)] [] None None) None]
                    (ret1 (IExpr (EFn FSize [EVar 2])))] false in
      eval_query fixed_graph q = Ok [[VInt 2]] /\ eval_query_cfg eng_cfg fixed_graph [] q = Ok [[VInt 0]])
  (* varlen_reachability: MATCH (a)-[*1..1]->(b) WHERE id(a) = 1 RETURN id(b): two trails *)
  /\ (let q := Q [SQ [CMatch false [(anyn 1, [(RP None [] DOut [] (Some (1%nat, Some 1%nat)), anyn 2)])]
                            (Some (ECmp OEq (EFn FId [EVar 1]) (ELit (VInt 1))))]
                    (ret1 (IExpr (EFn FId [EVar 2])))] false in
      eval_query fixed_graph q = Ok [[VInt 2]; [VInt 2]] /\ Known_syntactic q = true)
  (* optional_where_outer: MATCH (n:A) OPTIONAL MATCH (n)-[r]->(m) WHERE n.p0 = 2 RETURN id(n), id(m) *)
  /\ (let q := Q [SQ [CMatch false [(NP (Some 1) [0] [], [])] None;
                     CMatch true [(anyn 1, [(anyr 2, anyn 3)])] (Some (ECmp OEq (EProp 1 0) (ELit (VInt 2))))]
                    (PJ false [(IExpr (EFn FId [EVar 1]), 100); (IExpr (EFn FId [EVar 3]), 101)] [] None None)] false in
      eval_query fixed_graph q = Ok [[VInt 1; VNull]; [VInt 2; VInt 3]] /\ Known_syntactic q = true)
  (* where_after_optional: OPTIONAL MATCH (n:D) MATCH (m:A) WHERE n.p2 RETURN id(m) *)
  /\ (let q := Q [SQ [CMatch true [(NP (Some 1) [3] [], [])] None;
                     CMatch false [(NP (Some 2) [0] [], [])] (Some (EProp 1 2))]
                    (ret1 (IExpr (EFn FId [EVar 2])))] false in
      eval_query fixed_graph q = Ok [] /\ Known_syntactic q = true)
  (* match_unwind_with: MATCH (n:A) UNWIND [1, 2] AS x WITH x AS y RETURN y *)
  /\ (let q := Q [SQ [CMatch false [(NP (Some 1) [0] [], [])] None;
                     CUnwind (ELit (VList [VInt 1; VInt 2])) 2;
                     CWith (PJ false [(IExpr (EVar 2), 3)] [] None None) None]
                    (ret1 (IExpr (EVar 3)))] false in
      eval_query fixed_graph q = Ok [[VInt 1]; [VInt 2]; [VInt 1]; [VInt 2]] /\ Known_syntactic q = true)
  (* wheres_then_unwind: MATCH (n:A) WHERE n.p0 = 1 MATCH (m:B) WHERE m.p0 = 2 UNWIND [4] AS x RETURN id(n) *)
  /\ (let q := Q [SQ [CMatch false [(NP (Some 1) [0] [], [])] (Some (ECmp OEq (EProp 1 0) (ELit (VInt 1))));
                     CMatch false [(NP (Some 2) [1] [], [])] (Some (ECmp OEq (EProp 2 0) (ELit (VInt 2))));
                     CUnwind (ELit (VList [VInt 4])) 3]
                    (ret1 (IExpr (EFn FId [EVar 1])))] false in
      eval_query fixed_graph q = Ok [[VInt 1]] /\ Known_syntactic q = true).
Proof. vm_compute. repeat split. Qed.

Print Assumptions C01_match_sound_complete.
Print Assumptions C01_path_sound_complete.
Print Assumptions C01_match_multiplicity.
Print Assumptions C01_multilabel.
Print Assumptions C01_rel_iso.
Print Assumptions C01_varlen_trails.
Print Assumptions C01_fuel_suffices.
Print Assumptions C01_where_3vl.
Print Assumptions C01_where_true_only.
Print Assumptions C01_orderby_sorted_perm.
Print Assumptions C01_skip_limit.
Print Assumptions C01_distinct.
Print Assumptions C01_union.
Print Assumptions C01_aggregate_groups.
Print Assumptions C01_aggregate_values.
Print Assumptions C01_count_star.
Print Assumptions C01_orderability_preorder.
Print Assumptions C01_optional_match.
Print Assumptions C01_optional_null_padding.
Print Assumptions RW_topn.
Print Assumptions RW_limit_pushdown.
Print Assumptions RW_limit_over_filter.
Print Assumptions RW_label_scan_intersection.
Print Assumptions RW_anchor_choice.
Print Assumptions RW_expand_reverse.
Print Assumptions C01_partial.
