(* C21 — the RESP decoder is safe on arbitrary bytes.
   Property theorems only; proofs live in proofs/RespProofs.v. *)
From Coq Require Import List NArith ZArith Bool.
From Verif Require Import Resp RespProofs.
Import ListNotations.
Open Scope N_scope.

(* on every byte string the decoder returns a value, asks for more, or reports a
   protocol error: no arithmetic overflow / slice panic, and the model's loops never run
   out of fuel *)
Theorem C21_safe : forall b, decode b <> Panic /\ decode b <> Abort.
Proof. exact decode_safe. Qed.

(* what is left in the buffer: a value consumes at least 3 bytes and leaves a suffix; an
   error drops at least 2 bytes and leaves a suffix (the loop cannot see the same bad
   bytes again); "more" leaves the buffer as it was *)
Theorem C21_outcomes : forall b,
  match decode b with
  | Done _ r => exists pre, b = pre ++ r /\ (3 <= length pre)%nat
  | Fail _ r => exists pre, b = pre ++ r /\ (2 <= length pre)%nat
  | More _ r => r = b
  | Panic | Abort => False
  end.
Proof. exact decode_good. Qed.

(* bytes requested from the allocator by one decode call, as metered by [alloc]
   (32-byte array slots with doubling growth, token vectors of inline commands, payload
   copies, one error message): linear in the bytes received *)
Theorem C21_alloc : forall b, (0 <= alloc b <= 96 * Z.of_nat (length b) + 256)%Z.
Proof. exact alloc_bound. Qed.

(* nesting of anything the decoder returns (an inline command nested at the limit adds
   one level) — so the recursion depth of parse_frame is bounded too *)
Theorem C21_depth : forall b v r, decode b = Done v r -> (depth v <= S MAX_DEPTH)%nat.
Proof. exact decode_depth. Qed.

(* the server loop on any buffer and any read: it terminates within the fuel and the
   decoder never crashes inside it *)
Theorem C21_loop_safe : forall buf chunk e,
  In e (snd (feed buf chunk)) -> e <> Stuck /\ e <> Crashed.
Proof. exact feed_sane. Qed.

(* non-vacuity / the inputs that broke the unrepaired decoder: "$-2", a huge array
   count, 40 nested array headers, invalid UTF-8 *)
Example C21_examples :
  decode [36; 45; 50; 13; 10] = Fail EProto [] /\
  decode ([42] ++ [49;56;52;52;54;55;52;52;48;55;51;55;48;57;53;53;49;54;49;53] ++ [13; 10])
    = More true ([42] ++ [49;56;52;52;54;55;52;52;48;55;51;55;48;57;53;53;49;54;49;53] ++ [13; 10]) /\
  alloc ([42] ++ [49;56;52;52;54;55;52;52;48;55;51;55;48;57;53;53;49;54;49;53] ++ [13; 10]) = 0%Z /\
  decode (concat (repeat [42; 49; 13; 10] 40)) = Fail EProto (concat (repeat [42; 49; 13; 10] 7)) /\
  decode [43; 255; 13; 10; 58] = Fail EEnc [58] /\
  decode [36; 53; 13; 10; 104; 101; 108] = More true [36; 53; 13; 10; 104; 101; 108].
Proof. vm_compute. repeat split; reflexivity. Qed.

Print Assumptions C21_safe.
Print Assumptions C21_outcomes.
Print Assumptions C21_alloc.
Print Assumptions C21_depth.
Print Assumptions C21_loop_safe.

Check C21_alloc : forall b, (0 <= alloc b <= 96 * Z.of_nat (length b) + 256)%Z.
