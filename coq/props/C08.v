(* C08 — version garbage collection never changes a read it must preserve.
   Property theorems only; proofs live in proofs/MvccProofs.v.

   Vocabulary (model/Mvcc.v): read_node = get_node_at_version, read_edge =
   get_edge_at_version, node_for_txn / edge_for_txn = get_node_for_txn / get_edge_for_txn,
   gc s w = gc_versions(w), gc_auto = gc_versions(gc_watermark()), run ops = the store after
   any history of create / set property / transaction / gc calls. *)
From Coq Require Import List NArith Bool.
From Verif Require Import Txn TxnProofs Mvcc MvccProofs.
Import ListNotations.
Open Scope N_scope.

(* nodes: for EVERY store (any chains, sorted or not), every watermark w and every version
   v >= w, the read is unchanged by the collection *)
Theorem C08_gc_preserves_node : forall s w v n,
  w <= v -> read_node (gc s w) n v = read_node s n v.
Proof. exact gc_preserves_node. Qed.

(* relationships: the same, for every store whose log versions do not exceed current_version
   (the chain invariant; without it get_edge_at_version's "is there a newer entry" test could
   see an entry the collection removes) *)
Theorem C08_gc_preserves_edge : forall s w v e,
  log_bounded s -> w <= v -> read_edge (gc s w) e v = read_edge s e v.
Proof. exact gc_preserves_edge. Qed.

(* the invariant (plus: node versions bounded, transaction-table invariant) holds after every
   history of the modelled operations, including collections *)
Theorem C08_invariant : forall ops, wf (run ops).
Proof. exact invariant_all_histories. Qed.

(* hence on every reachable store both kinds of read are preserved *)
Theorem C08_gc_preserves : forall ops w v,
  w <= v ->
  (forall n, read_node (gc (run ops) w) n v = read_node (run ops) n v) /\
  (forall e, read_edge (gc (run ops) w) e v = read_edge (run ops) e v).
Proof. exact gc_preserves_all. Qed.

(* automatic collection: after any history, no active transaction's node or relationship
   read changes (ReadCommitted and SnapshotIsolation alike) *)
Theorem C08_auto_safe : forall ops t,
  let s := run ops in
  active (tx s) t ->
  (forall n, node_for_txn (gc_auto s) t n = node_for_txn s t n) /\
  (forall e, edge_for_txn (gc_auto s) t e = edge_for_txn s t e).
Proof. exact auto_safe. Qed.

(* the same for any manual collection at or below the safe watermark *)
Theorem C08_safe_below_watermark : forall s w t,
  wf s -> w <= watermark (tx s) -> active (tx s) t ->
  (forall n, node_for_txn (gc s w) t n = node_for_txn s t n) /\
  (forall e, edge_for_txn (gc s w) t e = edge_for_txn s t e).
Proof. exact gc_safe_below_watermark. Qed.

(* ---- non-vacuity ---- *)
(* node 1 and relationship 1 written at versions 1, 2, 3; a snapshot transaction (id 2) active
   since version 2 *)
Definition ex_hist : list mop :=
  [CreateNode []; CreateNode []; CreateEdge 1 2; SetNode 1 0 1; SetEdge 1 0 1;
   Tx (Begin RC); Tx (Commit 1); SetNode 1 0 2; SetEdge 1 0 2;
   Tx (Begin SI); Tx (Begin RC); Tx (Commit 3); SetNode 1 0 3; SetEdge 1 0 3].

(* gc(3) really prunes (two node versions, two log entries), reads at 3 are kept, the read
   at 2 (below the watermark) is lost -- so the hypothesis w <= v matters *)
Example C08_nonvacuous_gc :
  let s := run ex_hist in
  curv s = 3 /\ snd (step s (Tx (Gc 3))) = MGc 2 2 /\
  read_node s 1 3 = Some {| v_ver := 3; v_props := [(0, 3)] |} /\
  read_node (gc s 3) 1 3 = read_node s 1 3 /\
  read_edge (gc s 3) 1 3 = read_edge s 1 3 /\
  read_node s 1 2 = Some {| v_ver := 2; v_props := [(0, 2)] |} /\
  read_node (gc s 3) 1 2 = None /\
  log_bounded s.
Proof.
  cbv zeta. repeat split; try (vm_compute; reflexivity).
  exact (proj1 (proj2 (invariant_all_histories ex_hist))).
Qed.

(* gc_auto with the snapshot transaction active: watermark 2, one version of each pruned,
   the transaction still reads version 2 *)
Example C08_nonvacuous_auto :
  let s := run ex_hist in
  active (tx s) 2 /\ watermark (tx s) = 2 /\ snd (step s (Tx GcAuto)) = MGc 1 1 /\
  node_for_txn s 2 1 = Some {| v_ver := 2; v_props := [(0, 2)] |} /\
  node_for_txn (gc_auto s) 2 1 = node_for_txn s 2 1 /\
  edge_for_txn s 2 1 = Some {| v_ver := 2; v_props := [(0, 2)] |}.
Proof.
  cbv zeta. repeat split; try (vm_compute; reflexivity).
  eexists. split; vm_compute; reflexivity.
Qed.

(* the invariant is needed for relationships: with a log entry above current_version the
   collection changes a read at a version >= w (historical snapshot becomes a current read) *)
Example C08_edge_invariant_needed :
  let s := {| tx := {| cur := 2; next := 1; txns := []; last_n := []; last_e := [] |};
              next_node := 1; next_edge := 2; nodes := []; live := [1];
              eprops := [(1, [(0, 3)])];
              elog := [(1, [{| v_ver := 5; v_props := [(0, 2)] |}; {| v_ver := 1; v_props := [(0, 1)] |}])] |} in
  ~ log_bounded s /\ read_edge (gc s 1) 1 2 <> read_edge s 1 2.
Proof.
  cbv zeta. split.
  - intros H. specialize (H 1 _ eq_refl). inversion H as [|? ? H1 _]. vm_compute in H1. apply H1. reflexivity.
  - vm_compute. discriminate.
Qed.

Print Assumptions C08_gc_preserves_node.
Print Assumptions C08_gc_preserves_edge.
Print Assumptions C08_invariant.
Print Assumptions C08_gc_preserves.
Print Assumptions C08_auto_safe.
Print Assumptions C08_safe_below_watermark.
