(* C30 — the column store behaves as a map under every update sequence.
   Property theorems only; proofs live in proofs/ColumnStoreProofs.v.

   [run ops = Some s] : the history ran to completion (no panic) and left store s;
   [abs s r k] : what the representation (sparse map / dense array with presence
   bits and base / untyped map) holds for row r, key k;  [spec_run ops] : the
   map obtained by applying the same history to an empty row -> key -> value map
   (set stores, remove and clear_row delete).
   [rows_ok ops] : every row index of the history is a usize (<= 2^64 - 1). *)
From Coq Require Import List NArith ZArith Bool.
From Verif Require Import ColumnStore ColumnStoreProofs.
Import ListNotations.
Open Scope N_scope.

(* every history over usize rows: no panic, the representation invariant holds,
   and the store denotes exactly the specification map *)
Theorem C30_all_histories : forall ops,
  rows_ok ops = true ->
  exists s, run ops = Some s /\ SInv s /\ forall r k, abs s r k = spec_run ops r k.
Proof. exact all_histories. Qed.

(* one operation from any store satisfying the invariant, across every change of
   representation (promotion, growth, rebase, demotion, spill to Other) *)
Theorem C30_refines : forall s o,
  SInv s -> row_ok o ->
  exists s', step s o = Some s' /\ SInv s' /\ forall r k, abs s' r k = spec_step (abs s) o r k.
Proof. exact step_refines. Qed.

(* get_property returns the value the map holds, Null when it holds none *)
Theorem C30_get : forall s r k,
  get_property s r k = match abs s r k with Some v => v | None => PNull end.
Proof. exact get_property_abs. Qed.

(* get_property_keys lists exactly the keys that hold a value, each once *)
Theorem C30_keys : forall s r,
  SInv s ->
  NoDup (get_property_keys s r) /\ forall k, In k (get_property_keys s r) <-> abs s r k <> None.
Proof. exact keys_abs. Qed.

(* the code before the repair: its three span computations (plain usize
   arithmetic) overflowed - a panic with overflow checks - on states these
   histories reach; the repaired code runs the same histories and reads them back *)
Example C30_original_code_refuted :
  int_shape (st_of (expand (Fill 0 0 1024 1 0))) 0 = Some (0, 1024) /\
  orig_grow_span usize_max 0 = None /\
  int_shape (st_of (expand (Fill 0 (usize_max - 1023) 1024 1 0))) 0 = Some (usize_max - 1023, 1024) /\
  orig_rebase_span (usize_max - 1023) 1024 (usize_max - 1024) = None /\
  orig_promote_span usize_max 0 = None /\
  (let ops := expand (Fill 0 0 1024 1 0) ++ [SetP usize_max 0 (PInt 1)] in
   rows_ok ops = true /\ get_property (st_of ops) usize_max 0 = PInt 1 /\ get_property (st_of ops) 7 0 = PInt 7) /\
  (let ops := expand (Fill 0 (usize_max - 1023) 1024 1 0) ++ [SetP (usize_max - 1024) 0 (PInt 1)] in
   rows_ok ops = true /\ get_property (st_of ops) (usize_max - 1024) 0 = PInt 1 /\
   get_property (st_of ops) usize_max 0 = PInt (-1)) /\
  (let ops := expand (Fill 0 0 1023 1 0) ++ [SetP usize_max 0 (PInt 1)] in
   rows_ok ops = true /\ get_property (st_of ops) usize_max 0 = PInt 1 /\ get_property (st_of ops) 0 0 = PInt 0).
Proof. exact original_code_refuted. Qed.

(* non-vacuity: one column goes sparse -> dense (1024 rows from 5000) -> rebased
   (row 4990 below the base) -> a removal inside the span -> demoted (a far-away
   row) -> Other (a string in an integer column), and it reads
   back as the map says at each stage *)
Example C30_nonvacuous :
  let fill := expand (Fill 7 5000 1024 1 0) in
  let st ops := match run ops with Some s => s | None => [] end in
  let dense ops := match find_col (st ops) 7 with Some c => (column_is_dense c, column_len c) | None => (false, 0) end in
  let h1 := fill in
  let h2 := h1 ++ [SetP 4990 7 (PInt 1)] in
  let h3 := h2 ++ [RemoveP 5003 7] in
  let h4 := h3 ++ [SetP 90000000 7 (PInt 2)] in
  let h5 := h4 ++ [SetP 5001 7 (PStr 9)] in
  rows_ok h5 = true /\
  dense h1 = (true, 1024) /\ dense h2 = (true, 1025) /\ dense h3 = (true, 1024) /\
  dense h4 = (false, 1025) /\ dense h5 = (false, 1025) /\
  get_property (st h2) 4990 7 = PInt 1 /\ get_property (st h2) 4995 7 = PNull /\
  get_property (st h3) 5003 7 = PNull /\ get_property (st h4) 6023 7 = PInt 6023 /\
  get_property (st h5) 5001 7 = PStr 9 /\ get_property (st h5) 5000 7 = PInt 5000 /\
  get_property_keys (st h5) 90000000 = [7].
Proof. vm_compute. repeat split; reflexivity. Qed.

Print Assumptions C30_all_histories.
Print Assumptions C30_refines.
Print Assumptions C30_get.
Print Assumptions C30_keys.
