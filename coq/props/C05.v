(* C05 -- a write statement that fails changes nothing.
   Property theorems only; proofs live in proofs/StreamExecProofs.v.

   The faithful model (model/StreamExec.v: writes applied row by row while the plan streams,
   operator-local cleanup only, the partially mutated store returned with the error) VIOLATES
   the property.  The defect is recorded: Known_C05 g s = "when s fails on g, a store mutation
   was applied before the failing row / item and nothing undoes it" -- class partial-apply
   (an earlier row, or every row when an operator above the write fails) or half-built-row
   (the failing row's own earlier items: a node created before its property expression is
   evaluated, SET items before the refused one, a relationship before its property).  *)
From Coq Require Import List ZArith NArith Bool.
From Verif Require Import StreamExec StreamExecProofs.
Import ListNotations.
Open Scope N_scope.

(* the property, for every store, every pipeline (any input rows, any per-row program of
   store calls / evaluations / cleanups, any downstream operator): unproved -- and false *)
Definition C05_atomic_full : Prop :=
  forall g s e, wf g -> e_out (run g s) = Some e -> obs (g_out (run g s)) = obs g.

(* outside the known classes a failing statement leaves nodes, relationships and constraints
   exactly as they were: failures refused by the parser/planner, failures of a materialised
   input (WITH barrier), failures at the first mutation, and refusals of the only node a row
   builds (create; set_node_property refused; delete_node) *)
Theorem C05_known_complement : forall g s e, wf g ->
  e_out (run g s) = Some e -> Known_C05 g s = false -> obs (g_out (run g s)) = obs g.
Proof. exact known_complement. Qed.

(* the faithful characterisation: whatever the outcome, the store a statement leaves is exactly
   the effect of a prefix of its input rows, possibly followed by the (partial) effect of the
   next row alone *)
Theorem C05_prefix_applied : forall g s,
  exists pre rest, s_source s = map inl pre ++ rest /\
    (g_out (run g s) = apply_rows (s_write s) pre g \/
     exists rk rest', rest = inl rk :: rest' /\
       g_out (run g s) = r_graph (exec (s_write s rk) (apply_rows (s_write s) pre g))).
Proof. exact prefix_applied. Qed.

(* the property is refuted inside the class: UNWIND [1,1] AS x CREATE (:L {k: x}) under
   UNIQUE :L(k) fails on the second row and keeps the first node *)
Theorem C05_refuted : exists g s, wf g /\ Known_C05 g s = true /\
  ~ (forall e, e_out (run g s) = Some e -> obs (g_out (run g s)) = obs g).
Proof. exact refuted. Qed.

Theorem C05_refuted_partial_apply :
  wf w_graph /\ class_of (run w_graph w_rows) = Some PartialApply /\ Known_C05 w_graph w_rows = true /\
  e_out (run w_graph w_rows) = Some ErrConstraint /\
  nodes (g_out (run w_graph w_rows)) = [{| nid := 1; nlabels := [1]; nprops := [(1, VInt 1)] |}].
Proof. exact refuted_rows. Qed.

(* UNWIND [0] AS x CREATE (:L {k: 10 / x}) fails on its first row and keeps a bare :L node *)
Theorem C05_refuted_half_built_row :
  wf w_graph /\ class_of (run w_graph w_half) = Some HalfBuiltRow /\ Known_C05 w_graph w_half = true /\
  e_out (run w_graph w_half) = Some ErrDivZero /\
  nodes (g_out (run w_graph w_half)) = [{| nid := 1; nlabels := [1]; nprops := [] |}].
Proof. exact refuted_half. Qed.

Theorem C05_not_atomic : ~ C05_atomic_full.
Proof. exact not_atomic_full. Qed.

(* non-vacuity of C05_known_complement: failing statements outside the classes exist --
   a single-node CREATE refused by the constraint (node built, refused, deleted again),
   a failing projection below a WITH barrier, and a MERGE whose first row fails *)
Example C05_nonvacuous :
  let g := {| nodes := [{| nid := 1; nlabels := [1]; nprops := [(1, VInt 100)] |}];
              edges := []; uniq := [(1, 1)]; next_node := 2; next_edge := 0 |} in
  let s1 := compile (TUnwindCreate [VInt 100] [1] [(1, PX); (3, PConst (VInt 7))] None) in
  let s2 := compile (TUnwindWithCreate [VInt 1; VInt 0] (PDivBy 10) [1] 1) in
  let s3 := compile (TUnwindMerge [VInt 0; VInt 5] [1] [(1, PDivBy 10)] None) in
  wf g /\
  e_out (run g s1) = Some ErrConstraint /\ Known_C05 g s1 = false /\
  next_node (g_out (run g s1)) = 3 /\
  e_out (run g s2) = Some ErrDivZero /\ Known_C05 g s2 = false /\
  e_out (run g s3) = Some ErrDivZero /\ Known_C05 g s3 = false.
Proof. split; [apply wf_b_spec; reflexivity|]. vm_compute. repeat split; reflexivity. Qed.

Print Assumptions C05_known_complement.
Print Assumptions C05_prefix_applied.
Print Assumptions C05_refuted.
Print Assumptions C05_refuted_partial_apply.
Print Assumptions C05_refuted_half_built_row.
Print Assumptions C05_not_atomic.
