(* C02 — results do not depend on indexes, storage tier, planner mode or process.
   Property theorems only; proofs live in proofs/IndexProofs.v.  This file carries the index
   part: model/Index.v has the B-tree (key-sorted association list under Value.pv_cmp),
   PropertyIndex::candidates, the filter path (cy_true = cypher_ordering / coerced_eq /
   plain_eq with null as unknown) and the two plans.  The storage-tier part
   (views (compact s) = views s, and after any later history) is carried by C06:
   Compact is one of the operations of C06_refines_all_histories / C06_all_histories. *)
From Coq Require Import List NArith ZArith Bool Permutation.
From Verif Require Import Value Index ValueProofs IndexProofs.
Import ListNotations.
Open Scope Z_scope.

(* IndexScan + residual Filter returns exactly the nodes NodeScan + Filter keeps: for every set
   of labelled nodes (distinct ids, a value of any type or no value each), every operator
   (=, <, <=, >, >=) and every bound *)
Theorem C02_index_scan : forall op v (ns : nodes),
  NoDup (map fst ns) -> forallb (fun n => opt_wf (snd n)) ns = true -> wf v = true ->
  Permutation (index_path op v ns) (filter_path op v ns).
Proof. exact index_scan_equiv. Qed.

(* what makes it so: the index never withholds a value the predicate accepts ... *)
Theorem C02_candidates_superset : forall op v x,
  wf x = true -> wf v = true -> cy_true op x v = true -> key_candidate op v x = true.
Proof. exact candidates_superset. Qed.

(* ... and a filter above ANY scan returning at least the accepted nodes (extra, stale or
   repeated candidates included) equals the filter path.  The repair relies on this: the
   index narrows, the predicate decides. *)
Theorem C02_residual_over_superset : forall op v (ns : nodes) cand,
  NoDup (map fst ns) ->
  (forall id, In id (filter_path op v ns) -> In id cand) ->
  Permutation (residual_path op v ns cand) (filter_path op v ns).
Proof. exact residual_over_superset. Qed.

(* index contents and every lookup are independent of insertion order *)
Theorem C02_order_invariant : forall ops ops',
  Permutation ops ops' ->
  (forall op v i, In i (candidates op v (idx_build ops)) <-> In i (candidates op v (idx_build ops'))) /\
  (forall r i, In i (idx_range r (idx_build ops)) <-> In i (idx_range r (idx_build ops'))) /\
  (forall q i, In i (idx_get q (idx_build ops)) <-> In i (idx_get q (idx_build ops'))).
Proof.
  intros ops ops' HP. split; [|split].
  - intros op v i. apply candidates_order_free; exact HP.
  - intros r i. apply range_order_free; exact HP.
  - intros q i. apply idx_lookup_order_free; exact HP.
Qed.

(* non-vacuity, and why the scan had to change: on the mixed-type witness of the defect
   (6, 'a', 1.5, NaN, a list, 1, 1.0, 2^53+1, 2^53 as float, a timestamp, no value) the plain
   B-tree get/range disagree with the filter path, candidates + filter agree *)
Definition ex_nodes : nodes :=
  [(1%N, Some (PInt 6)); (2%N, Some (PStr [97%N])); (3%N, Some (PFloat 4609434218613702656));
   (4%N, Some (PFloat 18444492273895866368)); (5%N, Some (PArr [PInt 7; PInt 8]));
   (6%N, Some (PInt 1)); (7%N, Some (PFloat 4607182418800017408));
   (8%N, Some (PInt 9007199254740993)); (9%N, Some (PFloat 4845873199050653696));
   (10%N, Some (PDate 3)); (11%N, None)].

Example C02_nonvacuous :
  NoDup (map fst ex_nodes) /\ forallb (fun n => opt_wf (snd n)) ex_nodes = true /\
  (* n.x > 5 : the filter path keeps 6, 2^53+1, 2^53 ... *)
  sort_n (filter_path OGt (PInt 5) ex_nodes) = [1; 8; 9]%N /\
  (* ... the old range scan (Excluded(5), Unbounded) also returned the string, the list and the timestamp *)
  sort_n (idx_range (Excl (PInt 5), Unb) (idx_build (indexed ex_nodes))) = [1; 2; 5; 8; 9; 10]%N /\
  sort_n (index_path OGt (PInt 5) ex_nodes) = [1; 8; 9]%N /\
  (* n.x = 1 : the filter path keeps Integer 1 and Float 1.0, the old get only Integer 1 *)
  sort_n (filter_path OEq (PInt 1) ex_nodes) = [6; 7]%N /\
  idx_get (PInt 1) (idx_build (indexed ex_nodes)) = [6]%N /\
  sort_n (index_path OEq (PInt 1) ex_nodes) = [6; 7]%N /\
  (* n.x < 5 : the timestamp 3 compares with an Integer although it sorts above every number *)
  sort_n (filter_path OLt (PInt 5) ex_nodes) = [3; 6; 7; 10]%N /\
  sort_n (index_path OLt (PInt 5) ex_nodes) = [3; 6; 7; 10]%N /\
  (* i64 -> f64 rounding: 2^53 as a float equals the Integer 2^53+1 for the filter path *)
  sort_n (filter_path OEq (PFloat 4845873199050653696) ex_nodes) = [8; 9]%N /\
  sort_n (index_path OEq (PFloat 4845873199050653696) ex_nodes) = [8; 9]%N.
Proof.
  split; [repeat constructor; cbn; intuition discriminate|].
  vm_compute. repeat split; reflexivity.
Qed.

Print Assumptions C02_index_scan.
Print Assumptions C02_candidates_superset.
Print Assumptions C02_residual_over_superset.
Print Assumptions C02_order_invariant.
