(* C15 — WAL replays exactly the durable prefix, in order.
   Property theorems only; proofs live in proofs/WalProofs.v.
   Models: model/Bincode.v (bincode encoding of WalEntry/WalRecord, decoder),
           model/Wal.v (directory, append / reopen / checkpoint / replay). *)
From Coq Require Import List NArith ZArith Bool Sorted.
From Verif Require Import Bincode Wal WalProofs WalCrashProofs.
Import ListNotations.
Open Scope N_scope.

(* codec round trip: every record Wal::append can write decodes to itself, and the
   decoder leaves the rest of the input untouched *)
Theorem C15_codec : forall r, valid_rec r ->
  decode_record (encode_record r) = Some r /\
  forall rest, d_record (encode_record r ++ rest) = Some (r, rest).
Proof. intros r H. split; [now apply decode_encode | intros; now apply d_record_app]. Qed.

(* every history of append / reopen / checkpoint (entries that are Rust values, records
   below 4 GiB, fewer than 2^64 of them): the run does not panic, and replay from any
   sequence number delivers exactly the appended entries, in append order, the i-th one
   numbered i, and reports the last number delivered *)
Theorem C15_replay_all : forall ops, ops_ok ops ->
  exists s, run ops = Some s /\
    forall from, replay (sdir s) from =
      (keep from (appended ops), Done (last_seq (keep from (appended ops)) from)).
Proof. exact replay_all. Qed.

Theorem C15_replay_entries : forall ops, ops_ok ops ->
  exists s, run ops = Some s /\
    replay (sdir s) 0 = (appended ops, Done (last_seq (appended ops) 0)) /\
    map ent (appended ops) = entries_of ops.
Proof.
  intros ops H. destruct (replay_all_0 ops H) as (s & E & R). exists s.
  split; [exact E|]. split; [exact R | apply appended_entries].
Qed.

(* sequence numbers strictly increase along the log, across reopen and checkpoint *)
Theorem C15_seq_strict : forall ops, StronglySorted N.lt (map seq (appended ops)).
Proof. exact appended_seq_strict. Qed.

(* a crash that leaves only the first k bytes of the newest file, for EVERY k: replay never
   fails and delivers exactly the records of the older files followed by the longest prefix
   of whole records of the newest file ([fit k], characterised by C15_fit_longest) *)
Theorem C15_torn : forall ops, ops_ok ops ->
  exists s before lastR,
    run ops = Some s /\ appended ops = before ++ lastR /\
    match newest (sdir s) with
    | None => before ++ lastR = []
    | Some (_, bs) => bs = frames lastR
    end /\
    forall k from,
      replay (truncate_newest k (sdir s)) from =
      (keep from (before ++ fit k lastR), Done (last_seq (keep from (before ++ fit k lastR)) from)).
Proof. exact torn_all. Qed.

Theorem C15_fit_longest : forall R k,
  exists T, R = fit k R ++ T /\ nlen (frames (fit k R)) <= k /\
            match T with [] => True | r :: _ => k < nlen (frames (fit k R)) + nlen (frame r) end.
Proof. exact fit_longest. Qed.

(* any single byte of any file replaced by any other byte value, outside the recorded class
   (positions inside a record's 8-byte sequence field, which the checksum does not cover):
   replay delivers only records of the intact log that precede the damaged one, unaltered —
   the damaged record and everything after it is never delivered (the result is an error, or
   the log ends there when the damage makes the newest file look cut short) *)
Theorem C15_corrupt : forall ops, ops_ok ops ->
  exists s, run ops = Some s /\
    forall name bs pos v from,
      In (name, bs) (sdir s) -> pos < nlen bs -> v < 256 -> v <> nth (N.to_nat pos) bs 0 ->
      Known_C15 (sdir s) name pos = false ->
      exists L' T o,
        replay (flip_dir name pos v (sdir s)) from = (keep from L', o) /\
        appended ops = L' ++ T /\ T <> [].
Proof. exact corrupt_all. Qed.

Ltac solve_wf :=
  repeat match goal with
  | |- _ /\ _ => split
  | |- Forall _ [] => apply Forall_nil
  | |- Forall _ (_ :: _) => apply Forall_cons
  | |- ok_entry _ => unfold ok_entry, wf_entry
  | |- wf_entry _ => unfold wf_entry
  | |- wf_str _ => unfold wf_str
  | |- wf_blob _ => unfold wf_blob
  | |- isbyte _ => unfold isbyte
  | |- (_ < _)%N => vm_compute; reflexivity
  | |- (_ <= _)%Z => vm_compute; discriminate
  | |- (_ < _)%Z => vm_compute; reflexivity
  | |- _ = true => vm_compute; reflexivity
  end.

(* the recorded finding (class seq-field-flip): inside the class the conclusion fails *)
Definition witness_ops : list op := [Append (DeleteNode [116] 7)].

Lemma witness_ok : ops_ok witness_ops.
Proof.
  unfold ops_ok, witness_ops. split; [reflexivity|]. cbn [entries_of flat_map op_entries app]. solve_wf.
Qed.

Definition witness_state : state :=
  Eval vm_compute in (match run witness_ops with Some s => s | None => init end).
Definition witness_bytes : bytes :=
  Eval vm_compute in (frame (mk_record 1 (DeleteNode [116] 7))).

Theorem C15_refuted :
  exists ops s name bs pos v,
    ops_ok ops /\ run ops = Some s /\ In (name, bs) (sdir s) /\ pos < nlen bs /\ v < 256 /\
    v <> nth (N.to_nat pos) bs 0 /\ Known_C15 (sdir s) name pos = true /\
    ~ (exists L' T o, replay (flip_dir name pos v (sdir s)) 0 = (keep 0 L', o) /\
                      appended ops = L' ++ T /\ T <> []).
Proof.
  exists witness_ops, witness_state, 1, witness_bytes, 4, 3.
  split; [exact witness_ok|]. split; [vm_compute; reflexivity|].
  split; [left; vm_compute; reflexivity|]. split; [vm_compute; reflexivity|].
  split; [vm_compute; reflexivity|]. split; [vm_compute; discriminate|].
  split; [vm_compute; reflexivity|].
  intros (L' & T & o & Hr & Ha & Ht). rewrite keep_zero in Hr. vm_compute in Hr. vm_compute in Ha.
  inversion Hr as [[HL Ho]]. subst L'. destruct T; [congruence|]. cbn [app] in Ha. inversion Ha.
Qed.

(* ---- non-vacuity ---- *)
Definition sample_ops : list op :=
  [Append (CreateNode [100;101] 1 [[80];[195;159]] [1;2;3]); Append (DeleteEdge [] 9); Reopen;
   Append (UpdateNodeProps [116] 18446744073709551615 [] 5); Checkpoint 3 (-7)%Z; Reopen; Reopen;
   Append (CreateEdge [116] 1 2 3 [75] [0])].

Lemma sample_ok : ops_ok sample_ops.
Proof.
  unfold ops_ok, sample_ops. split; [reflexivity|]. cbn [entries_of flat_map op_entries app]. solve_wf.
Qed.

(* the hypotheses of C15_replay_all / C15_torn / C15_corrupt hold for a history with two
   reopens and a checkpoint that produces three files; sequence numbers 1..5 across them *)
Example C15_nonvacuous :
  ops_ok sample_ops /\
  match run sample_ops with
  | Some s => map fst (sdir s) = [1; 3; 5] /\ map seq (fst (replay (sdir s) 0)) = [1; 2; 3; 4; 5] /\
              snd (replay (sdir s) 0) = Done 5 /\
              (* cut 10 bytes into the only record of the newest file: records 1..4 remain *)
              map seq (fst (replay (truncate_newest 10 (sdir s)) 0)) = [1; 2; 3; 4] /\
              snd (replay (truncate_newest 10 (sdir s)) 0) = Done 4 /\
              (* a changed payload byte in the second file (not in the recorded class) *)
              Known_C15 (sdir s) 3 20 = false /\
              map seq (fst (replay (flip_dir 3 20 255 (sdir s)) 0)) = [1; 2] /\
              snd (replay (flip_dir 3 20 255 (sdir s)) 0) = Failed
  | None => False
  end.
Proof. split; [exact sample_ok|]. vm_compute. repeat split; reflexivity. Qed.

Example C15_codec_nonvacuous :
  valid_rec (mk_record 7 (CreateNode [100;101] 1 [[80];[195;159]] [1;2;3])).
Proof.
  apply mk_record_valid; solve_wf.
Qed.

(* ---- histories that continue after a crash ----
   [Crash k] = the newest file keeps only its first k bytes (any k), then the log is reopened.
   The specification is at record level (WalCrashProofs: a_run / durable): a crash keeps the
   older files and the whole records of the newest file that lie within k bytes
   (C15_durable_crash); every later append adds one record (C15_durable_append/_checkpoint).
   For EVERY history of Append / Reopen / Checkpoint / Crash: the run does not panic, the
   directory is exactly the encoding of the specified files, replay from any sequence number
   succeeds and delivers exactly the durable records in order, their numbers increase strictly
   (so a number of a delivered record is never given out again) and none exceeds the counter. *)
Theorem C15_crash_histories : forall ops, hist_ok ops ->
  exists s, run ops = Some s /\
    sdir s = enc (afiles (a_run ops)) /\ counter s = actr (a_run ops) /\
    (forall from, replay (sdir s) from =
       (keep from (durable ops), Done (last_seq (keep from (durable ops)) from))) /\
    StronglySorted N.lt (map seq (durable ops)) /\
    Forall (fun r => seq r <= counter s) (durable ops) /\
    match a_last (afiles (a_run ops)) with
    | None => sdir s = []
    | Some (n, R) => newest (sdir s) = Some (n, frames R)
    end.
Proof. exact crash_histories. Qed.

(* what each operation does to the durable log and to the counter *)
Theorem C15_durable_append : forall ops e, hist_ok (ops ++ [Append e]) ->
  durable (ops ++ [Append e]) = durable ops ++ [mk_record (actr (a_run ops) + 1) e] /\
  actr (a_run (ops ++ [Append e])) = actr (a_run ops) + 1.
Proof. exact durable_append. Qed.

Theorem C15_durable_checkpoint : forall ops x t, hist_ok (ops ++ [Checkpoint x t]) ->
  durable (ops ++ [Checkpoint x t]) = durable ops ++ [mk_record (actr (a_run ops) + 1) (CheckpointE x t)] /\
  actr (a_run (ops ++ [Checkpoint x t])) = actr (a_run ops) + 1.
Proof. exact durable_checkpoint. Qed.

Theorem C15_durable_reopen : forall ops, hist_ok ops ->
  durable (ops ++ [Reopen]) = durable ops /\ actr (a_run (ops ++ [Reopen])) = actr (a_run ops).
Proof. exact durable_reopen. Qed.

(* the crash: with (n, lastR) the newest file, exactly [fit k lastR] of it survives (the longest
   prefix of whole records within k bytes, C15_fit_longest).  The counter becomes the number
   of the last surviving record of that file, so the number of a torn record is given out
   again by the next append; if no record of the file survives the counter becomes the file
   number n (= the number of its torn first record), the next append gets n+1 and n is
   never used again.  Either way every later number exceeds every delivered one. *)
Theorem C15_durable_crash : forall ops k,
  match a_last (afiles (a_run ops)) with
  | None => durable (ops ++ [Crash k]) = durable ops /\ durable ops = []
  | Some (n, lastR) =>
      exists before, durable ops = before ++ lastR /\
        durable (ops ++ [Crash k]) = before ++ fit k lastR /\
        actr (a_run (ops ++ [Crash k])) = last_seq (fit k lastR) n
  end.
Proof. exact durable_crash. Qed.

(* non-vacuity: tear inside the body of record 2 (number 2 is given out again), later the
   first record of file 3 is torn (number 3 is skipped); three files remain, replay succeeds *)
Definition crash_ops : list op :=
  [Append (DeleteNode [116] 1); Append (DeleteNode [116] 2); Crash 50;
   Append (DeleteNode [116] 3); Reopen; Append (DeleteNode [116] 4); Crash 10;
   Append (DeleteNode [116] 5)].

Lemma crash_ops_ok : hist_ok crash_ops.
Proof.
  unfold hist_ok, crash_ops. split; [|vm_compute; reflexivity].
  cbn [entries_of flat_map op_entries app]. solve_wf.
Qed.

Example C15_crash_nonvacuous :
  hist_ok crash_ops /\
  map seq (durable crash_ops) = [1; 2; 4] /\
  map ent (durable crash_ops) = [DeleteNode [116] 1; DeleteNode [116] 3; DeleteNode [116] 5] /\
  match run crash_ops with
  | Some s => map fst (sdir s) = [1; 2; 3; 4] /\ map seq (fst (replay (sdir s) 0)) = [1; 2; 4] /\
              snd (replay (sdir s) 0) = Done 4 /\ counter s = 4
  | None => False
  end.
Proof. split; [exact crash_ops_ok|]. vm_compute. repeat split; reflexivity. Qed.

Print Assumptions C15_codec.
Print Assumptions C15_replay_all.
Print Assumptions C15_replay_entries.
Print Assumptions C15_seq_strict.
Print Assumptions C15_torn.
Print Assumptions C15_fit_longest.
Print Assumptions C15_corrupt.
Print Assumptions C15_refuted.
Print Assumptions C15_crash_histories.
Print Assumptions C15_durable_append.
Print Assumptions C15_durable_checkpoint.
Print Assumptions C15_durable_reopen.
Print Assumptions C15_durable_crash.
