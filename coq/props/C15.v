(* C15 — WAL replays exactly the durable prefix, in order.
   Property theorems only; proofs live in proofs/WalProofs.v.
   Models: model/Bincode.v (bincode encoding of WalEntry/WalRecord, decoder),
           model/Wal.v (directory, append / reopen / checkpoint / replay). *)
From Coq Require Import List NArith ZArith Bool Sorted.
From Verif Require Import Bincode Wal WalProofs.
Import ListNotations.
Open Scope N_scope.

(* codec round trip: every record Wal::append can write decodes to itself, and the
   decoder leaves the rest of the input untouched *)
Theorem C15_codec : forall r, valid_rec r ->
  decode_record (encode_record r) = Some r /\
  forall rest, d_record (encode_record r ++ rest) = Some (r, rest).
Proof. intros r H. split; [now apply decode_encode | intros; now apply d_record_app]. Qed.

(* every history of append / reopen / checkpoint (entries that are Rust values, records
   below 4 GiB, fewer than 2^64 of them): the run does not panic, and replay from any
   sequence number delivers exactly the appended entries, in append order, the i-th one
   numbered i, and reports the last number delivered *)
Theorem C15_replay_all : forall ops, ops_ok ops ->
  exists s, run ops = Some s /\
    forall from, replay (sdir s) from =
      (keep from (appended ops), Done (last_seq (keep from (appended ops)) from)).
Proof. exact replay_all. Qed.

Theorem C15_replay_entries : forall ops, ops_ok ops ->
  exists s, run ops = Some s /\
    replay (sdir s) 0 = (appended ops, Done (last_seq (appended ops) 0)) /\
    map ent (appended ops) = entries_of ops.
Proof.
  intros ops H. destruct (replay_all_0 ops H) as (s & E & R). exists s.
  split; [exact E|]. split; [exact R | apply appended_entries].
Qed.

(* sequence numbers strictly increase along the log, across reopen and checkpoint *)
Theorem C15_seq_strict : forall ops, StronglySorted N.lt (map seq (appended ops)).
Proof. exact appended_seq_strict. Qed.
