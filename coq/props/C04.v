(* C04 — write statements have exactly their openCypher effect.
   Property theorems only; proofs live in proofs/CypherWriteProofs.v.

   The reference semantics is CypherWrite.exec_stmt (model/CypherWrite.v) on top of
   the read-side semantics of Cypher.v.  What is PROVED here are the laws the
   property names, about that reference semantics; that the ENGINE computes
   exec_stmt is C04_full, which is not a theorem: it is carried by the
   correspondence check (harness c04 + CypherWrite.check_wcase). *)
From Coq Require Import List NArith ZArith Bool.
From Verif Require Import CypherCore Cypher CypherWrite CypherWriteProofs.
Import ListNotations.
Open Scope N_scope.

(* the full statement: for every graph and statement the engine's outcome (graph afterwards,
   up to the ids it chose for created entities, and returned rows as a bag) is the
   reference outcome.  [engine] stands for the implementation; nothing is proved about it. *)
Definition C04_full (engine : graph -> stmt -> wobs) : Prop :=
  forall g s, check_with ref_w (WCase g s (engine g s)) = true.

(* MERGE of a node pattern with literal, distinct-key, non-null properties, run twice:
   the second run finds what the first left, binds it, and changes nothing *)
Theorem C04_merge_idempotent_partial : forall cf pe x ls kvs g g1 rows1,
  NoDup (map fst kvs) -> forallb (fun kv => plain (snd kv)) kvs = true ->
  let p : cpath := (NP x ls (lit_props kvs), []) in
  merge_row ref_w cf pe p [] [] g [] = Ok (g1, rows1) ->
  exists rows2, merge_row ref_w cf pe p [] [] g1 [] = Ok (g1, rows2) /\ rows2 <> [].
Proof. exact merge_node_idempotent. Qed.

(* MERGE binds every match of its pattern (one output row per match, in match order) and
   then creates nothing: entity ids are unchanged, and without ON MATCH the graph is *)
Theorem C04_merge_binds_every_match : forall cf pe p oc om g r vp g' rows,
  resolve_cpath cf pe g r p = Ok vp ->
  match_rows true g [vpath_ppat vp] r <> [] ->
  merge_row ref_w cf pe p oc om g r = Ok (g', rows) ->
  rows = match_rows true g [vpath_ppat vp] r /\ same_ids g g' /\ (om = [] -> g' = g).
Proof. exact merge_binds_every_match. Qed.

(* DELETE without DETACH of a node that still has a relationship: the statement is an
   error in either row order, hence as a whole - and an error carries no graph, nothing
   changes.  (Any reading clauses that produce the one row binding x to the node.) *)
Theorem C04_delete_guard : forall wc cf g s x i e r,
  s_updates s = [UDelete false [x]] ->
  eval_clauses cf g [] (s_reads s) [[]] = Ok [r] ->
  alookup x r = Some (VNode i) ->
  In e (g_rels g) -> incident i e = true ->
  exec_ordered wc cf [] false g s = ErrT /\ exec_ordered wc cf [] true g s = ErrT /\
  exec_stmt_cfg wc cf g s = ErrT.
Proof. exact delete_guard. Qed.

(* more generally: whatever the updates did, a relationship left without an endpoint at
   the end of the statement makes the statement an error *)
Theorem C04_no_dangling : forall wc cf pe (b : bool) g s rows g1 rows1,
  eval_clauses cf g pe (s_reads s) [[]] = Ok rows ->
  exec_updates wc cf pe (s_updates s) g (if b then rev rows else rows) = Ok (g1, rows1) ->
  well_formed g1 = false ->
  exec_ordered wc cf pe b g s = ErrT.
Proof. exact exec_ordered_guard. Qed.

(* CREATE of an unbound pattern position adds exactly one node, under an id no node has *)
Theorem C04_create_fresh_ids : forall wc g r np g' r' i,
  (match np_var np with Some x => alookup x r | None => None end) = None ->
  create_npat wc g r np = Ok (g', r', i) ->
  i = fresh_node g /\ ~ In i (map n_id (g_nodes g)) /\
  (exists n, g_nodes g' = g_nodes g ++ [n] /\ n_id n = i) /\ g_rels g' = g_rels g /\
  (NoDup (map n_id (g_nodes g)) -> NoDup (map n_id (g_nodes g'))).
Proof. exact create_npat_fresh. Qed.

Theorem C04_fresh_ids_are_new : forall g,
  ~ In (fresh_node g) (map n_id (g_nodes g)) /\ ~ In (fresh_rel g) (map r_id (g_rels g)).
Proof. intros g. split; [apply fresh_node_new | apply fresh_rel_new]. Qed.

(* SET x.k = e touches only property k of the node x is bound to: relationships, the other
   nodes, that node's labels and its other properties are as before; k then reads as the
   value (a null value removes it) *)
Theorem C04_set_only_touches_target : forall cf pe r g x k e i v g',
  alookup x r = Some (VNode i) -> eval_expr cf g pe r e = Ok v ->
  apply_set ref_w cf pe r g (SetProp x k e) = Ok g' ->
  g_rels g' = g_rels g /\
  map n_id (g_nodes g') = map n_id (g_nodes g) /\
  (forall j, j <> i -> find_node g' j = find_node g j) /\
  (forall n, find_node g i = Some n ->
     exists n', find_node g' i = Some n' /\ n_id n' = n_id n /\ n_labels n' = n_labels n /\
                forall k', prop_of k' (n_props n') = if k' =? k then v else prop_of k' (n_props n)).
Proof.
  intros cf pe r g x k e i v g' Hx He H.
  destruct (apply_set_prop_node cf pe r g x k e i v g' Hx He H) as [_ ->].
  exact (set_node_prop_frame g i k v).
Qed.

(* DETACH DELETE removes exactly the node and the relationships that start or end at it,
   and leaves no relationship without an endpoint *)
Theorem C04_detach_removes_exactly_incident : forall g i,
  let g' := detach_delete_node g i in
  (forall n, In n (g_nodes g') <-> In n (g_nodes g) /\ n_id n <> i) /\
  (forall e, In e (g_rels g') <-> In e (g_rels g) /\ r_src e <> i /\ r_tgt e <> i) /\
  (well_formed g = true -> well_formed g' = true).
Proof. exact detach_delete_exact. Qed.

(* the conjunction of the laws above *)
Theorem C04_partial :
  ltac:(let t1 := type of C04_merge_idempotent_partial in
        let t2 := type of C04_merge_binds_every_match in
        let t3 := type of C04_delete_guard in
        let t4 := type of C04_no_dangling in
        let t5 := type of C04_create_fresh_ids in
        let t6 := type of C04_fresh_ids_are_new in
        let t7 := type of C04_set_only_touches_target in
        let t8 := type of C04_detach_removes_exactly_incident in
        exact (t1 /\ t2 /\ t3 /\ t4 /\ t5 /\ t6 /\ t7 /\ t8)).
Proof.
  exact (conj C04_merge_idempotent_partial (conj C04_merge_binds_every_match (conj C04_delete_guard
        (conj C04_no_dangling (conj C04_create_fresh_ids (conj C04_fresh_ids_are_new
        (conj C04_set_only_touches_target C04_detach_removes_exactly_incident))))))).
Qed.

(* non-vacuity, on the fixed graph of the harness: the hypotheses of the conditional theorems
   are met by real statements, and the reference semantics answers as openCypher does *)
Definition g0 : graph :=
  Build_graph
    [Build_node 1 [0] [(0, VInt 1); (1, VStr [97])]; Build_node 2 [0; 1] [(0, VInt 2)];
     Build_node 3 [1] [(0, VStr [97])]; Build_node 4 [] [(0, VBool true)]]
    [Build_rel 1 1 2 0 [(0, VInt 1)]; Build_rel 3 2 3 1 []; Build_rel 6 4 1 0 []].

Definition match_id (x : N) (i : Z) : clause :=
  CMatch false [(NP (Some x) [] [], [])] (Some (ECmp OEq (EFn FId [EVar x]) (ELit (VInt i)))).

Example C04_nonvacuous :
  (* MERGE (:A) binds both :A nodes; MERGE ({p0: 1}) without a label matches node 1 *)
  (match exec_stmt g0 (ST [] [UMerge (NP (Some 0) [0] [], []) [] []] (Some (PJ false [(IExpr (EFn FId [EVar 0]), 9)] [] None None))) with
   | Ok (g, t) => length (g_nodes g) = 4%nat /\ t = [[VInt 1]; [VInt 2]] | _ => False end) /\
  (match exec_stmt g0 (ST [] [UMerge (NP (Some 0) [] (lit_props [(0, VInt 1)]), []) [] []] None) with
   | Ok (g, _) => length (g_nodes g) = 4%nat | _ => False end) /\
  (* MERGE of something absent creates it once: a second run adds nothing *)
  (match exec_stmt g0 (ST [] [UMerge (NP (Some 0) [2] (lit_props [(0, VInt 9)]), []) [] []] None) with
   | Ok (g1, _) => length (g_nodes g1) = 5%nat /\
       match exec_stmt g1 (ST [] [UMerge (NP (Some 0) [2] (lit_props [(0, VInt 9)]), []) [] []] None) with
       | Ok (g2, _) => length (g_nodes g2) = 5%nat | _ => False end
   | _ => False end) /\
  (* DELETE of connected node 2 is refused, of unconnected created nodes is not; DETACH works *)
  exec_stmt g0 (ST [match_id 0 2] [UDelete false [0]] None) = ErrT /\
  (match exec_stmt g0 (ST [match_id 0 2] [UDelete true [0]] None) with
   | Ok (g, _) => map n_id (g_nodes g) = [1; 3; 4] /\ map r_id (g_rels g) = [6] | _ => False end) /\
  (* SET to null removes; a failing right-hand side is an error *)
  (match exec_stmt g0 (ST [match_id 0 1] [USet [SetProp 0 0 (ELit VNull)]] None) with
   | Ok (g, _) => option_map n_props (find_node g 1) = Some [(1, VStr [97])] | _ => False end) /\
  exec_stmt g0 (ST [match_id 0 1] [USet [SetProp 0 1 (EArith ADiv (ELit (VInt 1)) (ELit (VInt 0)))]] None) = ErrA.
Proof. vm_compute. repeat split; reflexivity. Qed.

Print Assumptions C04_merge_idempotent_partial.
Print Assumptions C04_merge_binds_every_match.
Print Assumptions C04_delete_guard.
Print Assumptions C04_no_dangling.
Print Assumptions C04_create_fresh_ids.
Print Assumptions C04_fresh_ids_are_new.
Print Assumptions C04_set_only_touches_target.
Print Assumptions C04_detach_removes_exactly_incident.
Print Assumptions C04_partial.
