//! Shared by c01.rs and c35.rs: graph and query generators for the Cypher fragment, renderers to
//! Cypher text and to Gallina terms of coq/model/Cypher.v, engine runner and row canonicalisation.
#![allow(dead_code)]
use samyama::graph::{GraphStore, Label, PropertyValue};
use samyama::query::{parse_query, QueryEngine, QueryExecutor, Value};
use std::collections::{BTreeSet, HashMap};
use vh::*;

// ---------------------------------------------------------------- values
#[derive(Clone, Debug, PartialEq)]
pub enum Val {
    Null,
    Bool(bool),
    Int(i64),
    Str(String),
    List(Vec<Val>),
    Node(u64),
    Rel(u64),
    /// something the fragment has no value for (float, map, path, ...): never equal to a model value
    Other(String),
}

pub fn g_val(v: &Val) -> String {
    match v {
        Val::Null => "VNull".into(),
        Val::Bool(b) => format!("(VBool {})", g_bool(*b)),
        Val::Int(i) => format!("(VInt {})", g_z(*i as i128)),
        Val::Str(s) => format!("(VStr {})", g_bytes(s.as_bytes())),
        Val::List(l) => format!("(VList {})", g_list(l.iter().map(g_val))),
        Val::Node(i) => format!("(VNode {})", i),
        Val::Rel(i) => format!("(VRel {})", i),
        Val::Other(s) => format!("(VStr {})", g_bytes(format!("<unsupported {}>", s).as_bytes())),
    }
}

pub fn lit_text(v: &Val) -> String {
    match v {
        Val::Null => "null".into(),
        Val::Bool(b) => format!("{}", b),
        Val::Int(i) => {
            if *i < 0 {
                format!("({})", i)
            } else {
                format!("{}", i)
            }
        }
        Val::Str(s) => format!("'{}'", s),
        Val::List(l) => format!("[{}]", l.iter().map(lit_text).collect::<Vec<_>>().join(", ")),
        _ => "null".into(),
    }
}

pub fn to_pv(v: &Val) -> PropertyValue {
    match v {
        Val::Null => PropertyValue::Null,
        Val::Bool(b) => PropertyValue::Boolean(*b),
        Val::Int(i) => PropertyValue::Integer(*i),
        Val::Str(s) => PropertyValue::String(s.clone()),
        Val::List(l) => PropertyValue::Array(l.iter().map(to_pv).collect()),
        _ => PropertyValue::Null,
    }
}

pub fn from_pv(p: &PropertyValue) -> Val {
    match p {
        PropertyValue::Null => Val::Null,
        PropertyValue::Boolean(b) => Val::Bool(*b),
        PropertyValue::Integer(i) => Val::Int(*i),
        PropertyValue::String(s) => Val::Str(s.clone()),
        PropertyValue::Array(a) => Val::List(a.iter().map(from_pv).collect()),
        other => Val::Other(format!("{:?}", other)),
    }
}

pub fn from_value(v: &Value) -> Val {
    match v {
        Value::Node(id, _) | Value::NodeRef(id) => Val::Node(id.as_u64()),
        Value::Edge(id, _) => Val::Rel(id.as_u64()),
        Value::EdgeRef(id, ..) => Val::Rel(id.as_u64()),
        Value::Property(p) => from_pv(p),
        Value::List(l) => Val::List(l.iter().map(from_value).collect()),
        Value::Null => Val::Null,
        other => Val::Other(format!("{:?}", other)),
    }
}

// ---------------------------------------------------------------- graph
#[derive(Clone, Debug)]
pub struct GNode {
    pub id: u64,
    pub labels: Vec<u32>,
    pub props: Vec<(u32, Val)>,
}
#[derive(Clone, Debug)]
pub struct GRel {
    pub id: u64,
    pub src: u64,
    pub tgt: u64,
    pub ty: u32,
    pub props: Vec<(u32, Val)>,
}
#[derive(Clone, Debug, Default)]
pub struct Graph {
    pub nodes: Vec<GNode>,
    pub rels: Vec<GRel>,
}

pub fn label_name(l: u32) -> String {
    ((b'A' + l as u8) as char).to_string()
}
pub fn type_name(t: u32) -> String {
    ((b'R' + t as u8) as char).to_string()
}
pub fn key_name(k: u32) -> String {
    format!("p{}", k)
}
pub fn var_name(v: u32) -> String {
    format!("v{}", v)
}

fn g_props(ps: &[(u32, Val)]) -> String {
    g_list(ps.iter().map(|(k, v)| format!("({}, {})", k, g_val(v))))
}

pub fn g_graph(g: &Graph) -> String {
    format!(
        "(Build_graph {} {})",
        g_list(g.nodes.iter().map(|n| format!(
            "(Build_node {} {} {})",
            n.id,
            g_list(n.labels.iter().map(|l| l.to_string())),
            g_props(&n.props)
        ))),
        g_list(g.rels.iter().map(|r| format!(
            "(Build_rel {} {} {} {} {})",
            r.id,
            r.src,
            r.tgt,
            r.ty,
            g_props(&r.props)
        )))
    )
}

pub fn human_graph(g: &Graph) -> String {
    let ps = |ps: &[(u32, Val)]| {
        ps.iter().map(|(k, v)| format!("{}: {}", key_name(*k), lit_text(v))).collect::<Vec<_>>().join(", ")
    };
    let mut s = String::new();
    for n in &g.nodes {
        s.push_str(&format!(
            "({}{} {{{}}}) ",
            n.id,
            n.labels.iter().map(|l| format!(":{}", label_name(*l))).collect::<String>(),
            ps(&n.props)
        ));
    }
    for r in &g.rels {
        s.push_str(&format!("({})-[{}:{} {{{}}}]->({}) ", r.src, r.id, type_name(r.ty), ps(&r.props), r.tgt));
    }
    s
}

/// Build the graph in a fresh store; returns the store and the graph with the ids the store assigned.
pub fn build_store(g: &Graph) -> (GraphStore, Graph) {
    let mut store = GraphStore::new();
    let mut out = Graph::default();
    let mut idmap: HashMap<u64, (samyama::graph::NodeId, u64)> = HashMap::new();
    for n in &g.nodes {
        let mut m = HashMap::new();
        for (k, v) in &n.props {
            m.insert(key_name(*k), to_pv(v));
        }
        let id = store.create_node_with_properties(
            "default",
            n.labels.iter().map(|l| Label::new(label_name(*l))).collect(),
            m,
        );
        idmap.insert(n.id, (id, id.as_u64()));
        out.nodes.push(GNode { id: id.as_u64(), labels: n.labels.clone(), props: n.props.clone() });
    }
    for r in &g.rels {
        let mut m = HashMap::new();
        for (k, v) in &r.props {
            m.insert(key_name(*k), to_pv(v));
        }
        let (s, su) = idmap[&r.src];
        let (t, tu) = idmap[&r.tgt];
        let id = store.create_edge_with_properties(s, t, type_name(r.ty), m).expect("edge");
        out.rels.push(GRel { id: id.as_u64(), src: su, tgt: tu, ty: r.ty, props: r.props.clone() });
    }
    (store, out)
}

pub const STR_POOL: [&str; 5] = ["a", "b", "ab", "", "B"];

pub fn gen_int(r: &mut Rng) -> i64 {
    if r.chance(1, 40) {
        *r.pick(&[i64::MAX, i64::MIN, i64::MAX - 1, i64::MIN + 1, 1 << 31, 1 << 32, 3037000500, -3037000500])
    } else {
        r.range(0, 7) as i64 - 2
    }
}

pub fn gen_prop_val(r: &mut Rng, k: u32) -> Val {
    let main = r.chance(17, 20);
    let kind = if main { k } else { r.below(4) as u32 };
    match kind {
        0 => Val::Int(gen_int(r)),
        1 => Val::Str(r.pick(&STR_POOL).to_string()),
        2 => Val::Bool(r.chance(1, 2)),
        _ => {
            let n = r.below(4);
            Val::List(
                (0..n)
                    .map(|_| if r.chance(9, 10) { Val::Int(r.range(0, 4) as i64) } else { Val::Str("a".into()) })
                    .collect(),
            )
        }
    }
}

pub fn gen_graph(r: &mut Rng) -> Graph {
    let mut g = Graph::default();
    let nn = if r.chance(1, 30) { 0 } else { r.range(1, 6) };
    for i in 0..nn {
        let nl = *r.pick(&[0u64, 1, 1, 1, 2, 2, 3]);
        let mut labels = BTreeSet::new();
        for _ in 0..nl {
            labels.insert(r.below(4) as u32);
        }
        let mut props = Vec::new();
        for (k, pc) in [(0u32, 70u64), (1, 50), (2, 40), (3, 25)] {
            if r.chance(pc, 100) {
                props.push((k, gen_prop_val(r, k)));
            }
        }
        g.nodes.push(GNode { id: i + 1, labels: labels.into_iter().collect(), props });
    }
    if nn > 0 {
        let nr = r.range(0, 10);
        for i in 0..nr {
            let mut props = Vec::new();
            if r.chance(2, 5) {
                props.push((0, gen_prop_val(r, 0)));
            }
            if r.chance(1, 5) {
                props.push((1, gen_prop_val(r, 1)));
            }
            g.rels.push(GRel {
                id: i + 1,
                src: r.range(1, nn),
                tgt: r.range(1, nn),
                ty: *r.pick(&[0u32, 0, 0, 1, 1, 2]),
                props,
            });
        }
    }
    g
}

pub fn fixed_graph() -> Graph {
    let n = |id, labels: &[u32], props: Vec<(u32, Val)>| GNode { id, labels: labels.to_vec(), props };
    let e = |id, src, tgt, ty, props: Vec<(u32, Val)>| GRel { id, src, tgt, ty, props };
    Graph {
        nodes: vec![
            n(1, &[0], vec![(0, Val::Int(1)), (1, Val::Str("a".into()))]),
            n(2, &[0, 1], vec![(0, Val::Int(2))]),
            n(3, &[1], vec![(0, Val::Str("a".into()))]),
            n(4, &[], vec![(0, Val::Bool(true)), (3, Val::List(vec![Val::Int(1), Val::Int(2)]))]),
        ],
        rels: vec![
            e(1, 1, 2, 0, vec![(0, Val::Int(1))]),
            e(2, 1, 2, 0, vec![(0, Val::Int(2))]),
            e(3, 2, 3, 1, vec![]),
            e(4, 3, 3, 0, vec![]),
            e(5, 3, 1, 2, vec![]),
            e(6, 4, 1, 0, vec![]),
        ],
    }
}

// ---------------------------------------------------------------- query AST
#[derive(Clone, Copy, Debug, PartialEq)]
pub enum CmpOp {
    Eq,
    Ne,
    Lt,
    Le,
    Gt,
    Ge,
}
#[derive(Clone, Copy, Debug, PartialEq)]
pub enum ArOp {
    Add,
    Sub,
    Mul,
    Div,
    Mod,
}
#[derive(Clone, Copy, Debug, PartialEq)]
pub enum Func {
    Id,
    Labels,
    Type,
    Size,
    Coalesce,
}
#[derive(Clone, Debug)]
pub enum Expr {
    Lit(Val),
    Var(u32),
    Prop(u32, u32),
    Param(u32),
    Cmp(CmpOp, Box<Expr>, Box<Expr>),
    And(Box<Expr>, Box<Expr>),
    Or(Box<Expr>, Box<Expr>),
    Xor(Box<Expr>, Box<Expr>),
    Not(Box<Expr>),
    IsNull(Box<Expr>),
    IsNotNull(Box<Expr>),
    Arith(ArOp, Box<Expr>, Box<Expr>),
    Neg(Box<Expr>),
    In(Box<Expr>, Box<Expr>),
    List(Vec<Expr>),
    Fn(Func, Vec<Expr>),
}
#[derive(Clone, Debug)]
pub struct NPat {
    pub var: Option<u32>,
    pub labels: Vec<u32>,
    pub props: Vec<(u32, Expr)>,
}
#[derive(Clone, Debug)]
pub struct RPat {
    pub var: Option<u32>,
    pub types: Vec<u32>,
    pub dir: u8, // 0 out, 1 in, 2 both
    pub props: Vec<(u32, Expr)>,
    pub len: Option<(u32, Option<u32>)>,
}
#[derive(Clone, Debug)]
pub struct Path {
    pub start: NPat,
    pub segs: Vec<(RPat, NPat)>,
}
#[derive(Clone, Copy, Debug, PartialEq)]
pub enum AggOp {
    Count,
    Sum,
    Min,
    Max,
    Collect,
}
#[derive(Clone, Debug)]
pub enum Item {
    Expr(Expr),
    Agg(AggOp, bool, Option<Expr>),
}
#[derive(Clone, Debug)]
pub struct Proj {
    pub distinct: bool,
    pub items: Vec<(Item, u32)>,
    pub order: Vec<(Expr, bool)>,
    pub skip: Option<u64>,
    pub limit: Option<u64>,
}
#[derive(Clone, Debug)]
pub enum Clause {
    Match { opt: bool, pats: Vec<Path>, wher: Option<Expr> },
    Unwind(Expr, u32),
    With(Proj, Option<Expr>),
}
#[derive(Clone, Debug)]
pub struct SQuery {
    pub clauses: Vec<Clause>,
    pub ret: Proj,
}
#[derive(Clone, Debug)]
pub struct Query {
    pub parts: Vec<SQuery>,
    pub all: bool,
}

// ---------------------------------------------------------------- Cypher text
pub fn render_expr(e: &Expr) -> String {
    let b = |o: &str, a: &Expr, c: &Expr| format!("({} {} {})", render_expr(a), o, render_expr(c));
    match e {
        Expr::Lit(v) => lit_text(v),
        Expr::Var(x) => var_name(*x),
        Expr::Prop(x, k) => format!("{}.{}", var_name(*x), key_name(*k)),
        Expr::Param(p) => format!("$q{}", p),
        Expr::Cmp(o, a, c) => b(
            match o {
                CmpOp::Eq => "=",
                CmpOp::Ne => "<>",
                CmpOp::Lt => "<",
                CmpOp::Le => "<=",
                CmpOp::Gt => ">",
                CmpOp::Ge => ">=",
            },
            a,
            c,
        ),
        Expr::And(a, c) => b("AND", a, c),
        Expr::Or(a, c) => b("OR", a, c),
        Expr::Xor(a, c) => b("XOR", a, c),
        Expr::Not(a) => format!("(NOT {})", render_expr(a)),
        Expr::IsNull(a) => format!("({} IS NULL)", render_expr(a)),
        Expr::IsNotNull(a) => format!("({} IS NOT NULL)", render_expr(a)),
        Expr::Arith(o, a, c) => b(
            match o {
                ArOp::Add => "+",
                ArOp::Sub => "-",
                ArOp::Mul => "*",
                ArOp::Div => "/",
                ArOp::Mod => "%",
            },
            a,
            c,
        ),
        Expr::Neg(a) => format!("(-{})", render_expr(a)),
        Expr::In(a, c) => b("IN", a, c),
        Expr::List(l) => format!("[{}]", l.iter().map(render_expr).collect::<Vec<_>>().join(", ")),
        Expr::Fn(f, args) => format!(
            "{}({})",
            match f {
                Func::Id => "id",
                Func::Labels => "labels",
                Func::Type => "type",
                Func::Size => "size",
                Func::Coalesce => "coalesce",
            },
            args.iter().map(render_expr).collect::<Vec<_>>().join(", ")
        ),
    }
}

fn render_props(ps: &[(u32, Expr)]) -> String {
    if ps.is_empty() {
        String::new()
    } else {
        // a negative number is written bare here: `{p0: (-1)}` is a non-literal value to the parser
        let val = |e: &Expr| match e {
            Expr::Lit(Val::Int(i)) => format!("{}", i),
            e => render_expr(e),
        };
        format!(" {{{}}}", ps.iter().map(|(k, e)| format!("{}: {}", key_name(*k), val(e))).collect::<Vec<_>>().join(", "))
    }
}

fn render_npat(n: &NPat) -> String {
    format!(
        "({}{}{})",
        n.var.map(var_name).unwrap_or_default(),
        n.labels.iter().map(|l| format!(":{}", label_name(*l))).collect::<String>(),
        render_props(&n.props)
    )
}

fn render_rpat(r: &RPat) -> String {
    let types = if r.types.is_empty() {
        String::new()
    } else {
        format!(":{}", r.types.iter().map(|t| type_name(*t)).collect::<Vec<_>>().join("|"))
    };
    let len = match r.len {
        None => String::new(),
        Some((lo, Some(hi))) if lo == hi => format!("*{}", lo),
        Some((lo, Some(hi))) => format!("*{}..{}", lo, hi),
        Some((1, None)) => "*".to_string(),
        Some((lo, None)) => format!("*{}..", lo),
    };
    let inner = format!("[{}{}{}{}]", r.var.map(var_name).unwrap_or_default(), types, len, render_props(&r.props));
    match r.dir {
        0 => format!("-{}->", inner),
        1 => format!("<-{}-", inner),
        _ => format!("-{}-", inner),
    }
}

pub fn render_path(p: &Path) -> String {
    let mut s = render_npat(&p.start);
    for (r, n) in &p.segs {
        s.push_str(&render_rpat(r));
        s.push_str(&render_npat(n));
    }
    s
}

fn agg_name(a: AggOp) -> &'static str {
    match a {
        AggOp::Count => "count",
        AggOp::Sum => "sum",
        AggOp::Min => "min",
        AggOp::Max => "max",
        AggOp::Collect => "collect",
    }
}

fn render_proj(p: &Proj) -> String {
    let mut s = String::new();
    if p.distinct {
        s.push_str("DISTINCT ");
    }
    s.push_str(
        &p.items
            .iter()
            .map(|(it, a)| {
                let e = match it {
                    Item::Expr(e) => render_expr(e),
                    Item::Agg(op, d, None) => {
                        let _ = (op, d);
                        "count(*)".to_string()
                    }
                    Item::Agg(op, d, Some(e)) => {
                        format!("{}({}{})", agg_name(*op), if *d { "DISTINCT " } else { "" }, render_expr(e))
                    }
                };
                format!("{} AS {}", e, var_name(*a))
            })
            .collect::<Vec<_>>()
            .join(", "),
    );
    if !p.order.is_empty() {
        s.push_str(" ORDER BY ");
        s.push_str(
            &p.order
                .iter()
                .map(|(e, asc)| format!("{}{}", render_expr(e), if *asc { "" } else { " DESC" }))
                .collect::<Vec<_>>()
                .join(", "),
        );
    }
    if let Some(k) = p.skip {
        s.push_str(&format!(" SKIP {}", k));
    }
    if let Some(k) = p.limit {
        s.push_str(&format!(" LIMIT {}", k));
    }
    s
}

pub fn render_squery(q: &SQuery) -> String {
    let mut s = String::new();
    for c in &q.clauses {
        match c {
            Clause::Match { opt, pats, wher } => {
                if *opt {
                    s.push_str("OPTIONAL ");
                }
                s.push_str("MATCH ");
                s.push_str(&pats.iter().map(render_path).collect::<Vec<_>>().join(", "));
                if let Some(w) = wher {
                    s.push_str(" WHERE ");
                    s.push_str(&render_expr(w));
                }
            }
            Clause::Unwind(e, x) => s.push_str(&format!("UNWIND {} AS {}", render_expr(e), var_name(*x))),
            Clause::With(p, w) => {
                s.push_str("WITH ");
                s.push_str(&render_proj(p));
                if let Some(w) = w {
                    s.push_str(" WHERE ");
                    s.push_str(&render_expr(w));
                }
            }
        }
        s.push(' ');
    }
    s.push_str("RETURN ");
    s.push_str(&render_proj(&q.ret));
    s
}

pub fn render_query(q: &Query) -> String {
    q.parts.iter().map(render_squery).collect::<Vec<_>>().join(if q.all { " UNION ALL " } else { " UNION " })
}

// ---------------------------------------------------------------- Gallina
pub fn g_expr(e: &Expr) -> String {
    let b = |c: &str, a: &Expr, d: &Expr| format!("({} {} {})", c, g_expr(a), g_expr(d));
    match e {
        Expr::Lit(v) => format!("(ELit {})", g_val(v)),
        Expr::Var(x) => format!("(EVar {})", x),
        Expr::Prop(x, k) => format!("(EProp {} {})", x, k),
        Expr::Param(p) => format!("(EParam {})", p),
        Expr::Cmp(o, a, d) => b(
            match o {
                CmpOp::Eq => "ECmp OEq",
                CmpOp::Ne => "ECmp ONe",
                CmpOp::Lt => "ECmp OLt",
                CmpOp::Le => "ECmp OLe",
                CmpOp::Gt => "ECmp OGt",
                CmpOp::Ge => "ECmp OGe",
            },
            a,
            d,
        ),
        Expr::And(a, d) => b("EAnd", a, d),
        Expr::Or(a, d) => b("EOr", a, d),
        Expr::Xor(a, d) => b("EXor", a, d),
        Expr::Not(a) => format!("(ENot {})", g_expr(a)),
        Expr::IsNull(a) => format!("(EIsNull {})", g_expr(a)),
        Expr::IsNotNull(a) => format!("(EIsNotNull {})", g_expr(a)),
        Expr::Arith(o, a, d) => b(
            match o {
                ArOp::Add => "EArith AAdd",
                ArOp::Sub => "EArith ASub",
                ArOp::Mul => "EArith AMul",
                ArOp::Div => "EArith ADiv",
                ArOp::Mod => "EArith AMod",
            },
            a,
            d,
        ),
        Expr::Neg(a) => format!("(ENeg {})", g_expr(a)),
        Expr::In(a, d) => b("EIn", a, d),
        Expr::List(l) => format!("(EList {})", g_list(l.iter().map(g_expr))),
        Expr::Fn(f, args) => format!(
            "(EFn {} {})",
            match f {
                Func::Id => "FId",
                Func::Labels => "FLabels",
                Func::Type => "FType",
                Func::Size => "FSize",
                Func::Coalesce => "FCoalesce",
            },
            g_list(args.iter().map(g_expr))
        ),
    }
}

fn g_optn(o: Option<u64>) -> String {
    g_opt(o.map(|x| x.to_string()))
}
fn g_eprops(ps: &[(u32, Expr)]) -> String {
    g_list(ps.iter().map(|(k, e)| format!("({}, {})", k, g_expr(e))))
}
fn g_ns(l: &[u32]) -> String {
    g_list(l.iter().map(|x| x.to_string()))
}
fn g_npat(n: &NPat) -> String {
    format!("(NP {} {} {})", g_optn(n.var.map(|x| x as u64)), g_ns(&n.labels), g_eprops(&n.props))
}
fn g_rpat(r: &RPat) -> String {
    let len = match r.len {
        None => "None".to_string(),
        Some((lo, hi)) => format!(
            "(Some ({}%nat, {}))",
            lo,
            match hi {
                Some(h) => format!("Some {}%nat", h),
                None => "None".to_string(),
            }
        ),
    };
    format!(
        "(RP {} {} {} {} {})",
        g_optn(r.var.map(|x| x as u64)),
        g_ns(&r.types),
        ["DOut", "DIn", "DBoth"][r.dir as usize],
        g_eprops(&r.props),
        len
    )
}
fn g_path(p: &Path) -> String {
    format!(
        "({}, {})",
        g_npat(&p.start),
        g_list(p.segs.iter().map(|(r, n)| format!("({}, {})", g_rpat(r), g_npat(n))))
    )
}
fn g_proj(p: &Proj) -> String {
    format!(
        "(PJ {} {} {} {} {})",
        g_bool(p.distinct),
        g_list(p.items.iter().map(|(it, a)| {
            let i = match it {
                Item::Expr(e) => format!("IExpr {}", g_expr(e)),
                Item::Agg(op, d, arg) => format!(
                    "IAgg {} {} {}",
                    match op {
                        AggOp::Count => "GCount",
                        AggOp::Sum => "GSum",
                        AggOp::Min => "GMin",
                        AggOp::Max => "GMax",
                        AggOp::Collect => "GCollect",
                    },
                    g_bool(*d),
                    g_opt(arg.as_ref().map(g_expr))
                ),
            };
            format!("({}, {})", i, a)
        })),
        g_list(p.order.iter().map(|(e, asc)| format!("({}, {})", g_expr(e), g_bool(*asc)))),
        g_optn(p.skip),
        g_optn(p.limit)
    )
}
fn g_clause(c: &Clause) -> String {
    match c {
        Clause::Match { opt, pats, wher } => format!(
            "(CMatch {} {} {})",
            g_bool(*opt),
            g_list(pats.iter().map(g_path)),
            g_opt(wher.as_ref().map(g_expr))
        ),
        Clause::Unwind(e, x) => format!("(CUnwind {} {})", g_expr(e), x),
        Clause::With(p, w) => format!("(CWith {} {})", g_proj(p), g_opt(w.as_ref().map(g_expr))),
    }
}
pub fn g_query(q: &Query) -> String {
    format!(
        "(Q {} {})",
        g_list(q.parts.iter().map(|s| format!("(SQ {} {})", g_list(s.clauses.iter().map(g_clause)), g_proj(&s.ret)))),
        g_bool(q.all)
    )
}

// ---------------------------------------------------------------- running the engine
pub enum Obs {
    Ok(Vec<Vec<Val>>),
    Err(String),
    Panic(String),
}

pub fn g_obs(o: &Obs) -> String {
    match o {
        Obs::Ok(rows) => format!("(ObsOk {})", g_list(rows.iter().map(|r| g_list(r.iter().map(g_val))))),
        Obs::Err(_) => "ObsErr".into(),
        Obs::Panic(_) => "ObsPanic".into(),
    }
}

pub fn human_val(v: &Val) -> String {
    match v {
        Val::Node(i) => format!("N{}", i),
        Val::Rel(i) => format!("R{}", i),
        Val::List(l) => format!("[{}]", l.iter().map(human_val).collect::<Vec<_>>().join(", ")),
        Val::Other(s) => format!("<{}>", s),
        v => lit_text(v),
    }
}

pub fn human_obs(o: &Obs) -> String {
    match o {
        Obs::Ok(rows) => format!(
            "Ok[{}]",
            rows.iter()
                .map(|r| format!("({})", r.iter().map(human_val).collect::<Vec<_>>().join(", ")))
                .collect::<Vec<_>>()
                .join(" ")
        ),
        Obs::Err(e) => format!("Err({})", e),
        Obs::Panic(p) => format!("Panic({})", p),
    }
}

/// Run `text` on the store (through `QueryEngine` without parameters, through
/// `parse_query` + `QueryExecutor::with_params` with parameters); canonicalise the rows.
pub fn run_engine(store: &GraphStore, text: &str, params: &[(u32, Val)]) -> Obs {
    let r = catch(std::panic::AssertUnwindSafe(|| {
        if params.is_empty() {
            QueryEngine::new().execute(text, store).map_err(|e| e.to_string())
        } else {
            let q = parse_query(text).map_err(|e| e.to_string())?;
            let mut m = HashMap::new();
            for (k, v) in params {
                m.insert(format!("q{}", k), to_pv(v));
            }
            QueryExecutor::new(store).with_params(m).execute(&q).map_err(|e| e.to_string())
        }
    }));
    match r {
        Err(p) => Obs::Panic(p),
        Ok(Err(e)) => Obs::Err(e),
        Ok(Ok(b)) => Obs::Ok(
            b.records
                .iter()
                .map(|rec| {
                    b.columns
                        .iter()
                        .map(|c| rec.get(c).map(from_value).unwrap_or(Val::Other("missing column".into())))
                        .collect()
                })
                .collect(),
        ),
    }
}

// ---------------------------------------------------------------- generator
#[derive(Clone, Copy, Debug, PartialEq)]
pub enum Kind {
    Node,
    Rel,
    RelList,
    Int,
    Str,
    Bool,
    List,
    Any,
}

pub struct Gen<'a> {
    pub r: &'a mut Rng,
    pub g: &'a Graph,
    /// C35: put parameters where the grammar accepts them
    pub params_mode: bool,
    pub params: Vec<(u32, Val)>,
    pub features: BTreeSet<String>,
    next_var: u32,
    pub ill_typed: bool,
    /// width of the fragment: 0 = MATCH/WHERE/RETURN only, 1 = + ORDER BY/SKIP/LIMIT/DISTINCT/aggregates,
    /// 2 = + WITH/UNWIND/OPTIONAL/UNION/variable length
    pub level: u32,
}

type Scope = Vec<(u32, Kind)>;

impl<'a> Gen<'a> {
    pub fn new(r: &'a mut Rng, g: &'a Graph, params_mode: bool) -> Self {
        Gen { r, g, params_mode, params: Vec::new(), features: BTreeSet::new(), next_var: 0, ill_typed: false, level: 2 }
    }
    fn feat(&mut self, f: &str) {
        self.features.insert(f.to_string());
    }
    fn fresh(&mut self) -> u32 {
        self.next_var += 1;
        self.next_var
    }
    fn vars_of(&self, sc: &Scope, k: Kind) -> Vec<u32> {
        sc.iter().filter(|(_, kk)| *kk == k).map(|(v, _)| *v).collect()
    }

    fn lit(&mut self, v: Val) -> Expr {
        // C35: a literal may become a parameter
        if self.params_mode && self.r.chance(1, 2) {
            let p = self.params.len() as u32;
            self.params.push((p, v));
            self.feat("param");
            Expr::Param(p)
        } else {
            Expr::Lit(v)
        }
    }

    fn gen_lit(&mut self, k: Kind) -> Expr {
        let v = match k {
            Kind::Int => Val::Int(gen_int(self.r)),
            Kind::Str => Val::Str(self.r.pick(&STR_POOL).to_string()),
            Kind::Bool => Val::Bool(self.r.chance(1, 2)),
            Kind::List => {
                let n = self.r.below(4);
                Val::List(
                    (0..n)
                        .map(|_| match self.r.below(12) {
                            0 => Val::Null,
                            1 => Val::Str("a".into()),
                            _ => Val::Int(self.r.range(0, 4) as i64),
                        })
                        .collect(),
                )
            }
            _ => Val::Null,
        };
        self.lit(v)
    }

    fn prop_key_for(&mut self, k: Kind) -> u32 {
        match k {
            Kind::Int => 0,
            Kind::Str => 1,
            Kind::Bool => 2,
            Kind::List => 3,
            _ => self.r.below(5) as u32, // includes a key nothing has
        }
    }

    pub fn gen_expr(&mut self, sc: &Scope, want: Kind, depth: u32) -> Expr {
        let mut want = want;
        if self.r.chance(1, 30) {
            // deliberately ill-typed subterm
            want = *self.r.pick(&[Kind::Int, Kind::Str, Kind::Bool, Kind::List, Kind::Any]);
            self.ill_typed = true;
            self.feat("ill_typed");
        }
        if want == Kind::Any {
            want = *self.r.pick(&[Kind::Int, Kind::Int, Kind::Str, Kind::Bool, Kind::List]);
            if self.r.chance(1, 12) {
                return self.lit(Val::Null);
            }
        }
        if want == Kind::Node || want == Kind::Rel || want == Kind::RelList {
            let vs = self.vars_of(sc, want);
            if vs.is_empty() {
                return Expr::Lit(Val::Null);
            }
            return Expr::Var(*self.r.pick(&vs));
        }
        let nodes = self.vars_of(sc, Kind::Node);
        let rels = self.vars_of(sc, Kind::Rel);
        let ents: Vec<u32> = nodes.iter().chain(rels.iter()).cloned().collect();
        let same = self.vars_of(sc, want);
        let leaf = depth == 0 || self.r.chance(2, 5);
        if leaf {
            let c = self.r.below(10);
            if c < 5 && !ents.is_empty() {
                let x = *self.r.pick(&ents);
                let k = self.prop_key_for(want);
                return Expr::Prop(x, k);
            }
            if c < 8 && !same.is_empty() {
                return Expr::Var(*self.r.pick(&same));
            }
            let anys = self.vars_of(sc, Kind::Any);
            if c < 9 && !anys.is_empty() {
                return Expr::Var(*self.r.pick(&anys));
            }
            return self.gen_lit(want);
        }
        let d = depth - 1;
        match want {
            Kind::Bool => match self.r.below(12) {
                0..=4 => {
                    let k = *self.r.pick(&[Kind::Int, Kind::Int, Kind::Int, Kind::Str, Kind::Str, Kind::Bool, Kind::List, Kind::Any]);
                    let op = *self.r.pick(&[CmpOp::Eq, CmpOp::Eq, CmpOp::Ne, CmpOp::Lt, CmpOp::Le, CmpOp::Gt, CmpOp::Ge]);
                    let op = if k == Kind::List && !matches!(op, CmpOp::Eq | CmpOp::Ne) { CmpOp::Eq } else { op };
                    if k == Kind::List {
                        self.feat("list_equality");
                    }
                    Expr::Cmp(op, Box::new(self.gen_expr(sc, k, d)), Box::new(self.gen_expr(sc, k, d)))
                }
                5 => {
                    self.feat("and");
                    Expr::And(Box::new(self.gen_expr(sc, Kind::Bool, d)), Box::new(self.gen_expr(sc, Kind::Bool, d)))
                }
                6 => {
                    self.feat("or");
                    Expr::Or(Box::new(self.gen_expr(sc, Kind::Bool, d)), Box::new(self.gen_expr(sc, Kind::Bool, d)))
                }
                7 => {
                    self.feat("xor");
                    Expr::Xor(Box::new(self.gen_expr(sc, Kind::Bool, d)), Box::new(self.gen_expr(sc, Kind::Bool, d)))
                }
                8 => {
                    self.feat("not");
                    Expr::Not(Box::new(self.gen_expr(sc, Kind::Bool, d)))
                }
                9 => {
                    self.feat("is_null");
                    if self.r.chance(1, 2) {
                        Expr::IsNull(Box::new(self.gen_expr(sc, Kind::Any, d)))
                    } else {
                        Expr::IsNotNull(Box::new(self.gen_expr(sc, Kind::Any, d)))
                    }
                }
                10 if nodes.len() >= 2 => {
                    self.feat("node_equality");
                    let a = *self.r.pick(&nodes);
                    let b = *self.r.pick(&nodes);
                    Expr::Cmp(if self.r.chance(1, 2) { CmpOp::Eq } else { CmpOp::Ne }, Box::new(Expr::Var(a)), Box::new(Expr::Var(b)))
                }
                _ => {
                    self.feat("in");
                    let k = *self.r.pick(&[Kind::Int, Kind::Int, Kind::Str]);
                    let n = self.r.below(4);
                    let items: Vec<Expr> = (0..n)
                        .map(|_| if self.r.chance(1, 8) { self.lit(Val::Null) } else { self.gen_expr(sc, k, 0) })
                        .collect();
                    let list = if self.r.chance(1, 4) { self.gen_expr(sc, Kind::List, 0) } else { Expr::List(items) };
                    Expr::In(Box::new(self.gen_expr(sc, k, d)), Box::new(list))
                }
            },
            Kind::Int => match self.r.below(10) {
                0..=4 => {
                    self.feat("arith");
                    let op = *self.r.pick(&[ArOp::Add, ArOp::Add, ArOp::Sub, ArOp::Mul, ArOp::Div, ArOp::Mod]);
                    Expr::Arith(op, Box::new(self.gen_expr(sc, Kind::Int, d)), Box::new(self.gen_expr(sc, Kind::Int, d)))
                }
                5 => {
                    self.feat("neg");
                    Expr::Neg(Box::new(self.gen_expr(sc, Kind::Int, d)))
                }
                6 if !ents.is_empty() => {
                    self.feat("fn_id");
                    Expr::Fn(Func::Id, vec![Expr::Var(*self.r.pick(&ents))])
                }
                7 => {
                    self.feat("fn_size");
                    let k = if self.r.chance(2, 3) { Kind::List } else { Kind::Str };
                    Expr::Fn(Func::Size, vec![self.gen_expr(sc, k, d)])
                }
                _ => {
                    self.feat("fn_coalesce");
                    let n = self.r.range(1, 3);
                    Expr::Fn(Func::Coalesce, (0..n).map(|_| self.gen_expr(sc, Kind::Int, 0)).collect())
                }
            },
            Kind::Str => match self.r.below(6) {
                0..=2 => {
                    self.feat("concat");
                    Expr::Arith(ArOp::Add, Box::new(self.gen_expr(sc, Kind::Str, d)), Box::new(self.gen_expr(sc, Kind::Str, d)))
                }
                3 | 4 if !rels.is_empty() => {
                    self.feat("fn_type");
                    Expr::Fn(Func::Type, vec![Expr::Var(*self.r.pick(&rels))])
                }
                _ => {
                    self.feat("fn_coalesce");
                    Expr::Fn(Func::Coalesce, vec![self.gen_expr(sc, Kind::Str, 0), self.gen_expr(sc, Kind::Str, 0)])
                }
            },
            _ => match self.r.below(6) {
                0..=2 => {
                    self.feat("list_expr");
                    let n = self.r.below(4);
                    let k = *self.r.pick(&[Kind::Int, Kind::Int, Kind::Str, Kind::Any]);
                    Expr::List((0..n).map(|_| self.gen_expr(sc, k, d)).collect())
                }
                3 | 4 if !nodes.is_empty() => {
                    self.feat("fn_labels");
                    Expr::Fn(Func::Labels, vec![Expr::Var(*self.r.pick(&nodes))])
                }
                _ => {
                    self.feat("list_concat");
                    Expr::Arith(ArOp::Add, Box::new(self.gen_expr(sc, Kind::List, d)), Box::new(self.gen_expr(sc, Kind::List, 0)))
                }
            },
        }
    }

    fn gen_inline_props(&mut self, node: bool) -> Vec<(u32, Expr)> {
        let k = self.r.below(3) as u32;
        // a value some element actually has, most of the time
        let mut pool: Vec<Val> = Vec::new();
        if node {
            for n in &self.g.nodes {
                for (kk, v) in &n.props {
                    if *kk == k && !matches!(v, Val::List(_)) {
                        pool.push(v.clone());
                    }
                }
            }
        } else {
            for r in &self.g.rels {
                for (kk, v) in &r.props {
                    if *kk == k && !matches!(v, Val::List(_)) {
                        pool.push(v.clone());
                    }
                }
            }
        }
        let v = if !pool.is_empty() && self.r.chance(4, 5) {
            pool[self.r.below(pool.len() as u64) as usize].clone()
        } else {
            match k {
                0 => Val::Int(self.r.range(0, 3) as i64),
                1 => Val::Str("a".into()),
                _ => Val::Bool(true),
            }
        };
        self.feat("inline_props");
        vec![(k, self.lit(v))]
    }

    fn gen_npat(&mut self, sc: &mut Scope) -> NPat {
        let bound = self.vars_of(sc, Kind::Node);
        let var = if self.r.chance(3, 4) {
            if !bound.is_empty() && self.r.chance(1, 4) {
                self.feat("node_var_reused");
                Some(*self.r.pick(&bound))
            } else {
                let v = self.fresh();
                sc.push((v, Kind::Node));
                Some(v)
            }
        } else {
            None
        };
        let nl = *self.r.pick(&[0u64, 0, 0, 0, 1, 1, 1, 1, 2, 2, 3]);
        let mut labels = BTreeSet::new();
        for _ in 0..nl {
            labels.insert(self.r.below(4) as u32);
        }
        if labels.len() >= 2 {
            self.feat("multi_label");
        }
        let props = if self.r.chance(1, 8) { self.gen_inline_props(true) } else { Vec::new() };
        NPat { var, labels: labels.into_iter().collect(), props }
    }

    fn gen_rpat(&mut self, sc: &mut Scope) -> RPat {
        let len = if self.level >= 2 && self.r.chance(1, 7) {
            self.feat("var_length");
            let lo = *self.r.pick(&[0u32, 1, 1, 1, 2]);
            let hi = match self.r.below(4) {
                0 => None,
                1 => Some(lo),
                _ => Some(lo + self.r.range(1, 2) as u32),
            };
            Some((lo, hi))
        } else {
            None
        };
        let var = if self.r.chance(1, 2) {
            let v = self.fresh();
            sc.push((v, if len.is_some() { Kind::RelList } else { Kind::Rel }));
            Some(v)
        } else {
            None
        };
        let nt = *self.r.pick(&[0u64, 0, 0, 1, 1, 2]);
        let mut types = BTreeSet::new();
        for _ in 0..nt {
            types.insert(*self.r.pick(&[0u32, 0, 1, 2]));
        }
        let dir = *self.r.pick(&[0u8, 0, 0, 1, 1, 2, 2]);
        if dir == 2 {
            self.feat("undirected");
        }
        let props = if len.is_none() && self.r.chance(1, 12) { self.gen_inline_props(false) } else { Vec::new() };
        RPat { var, types: types.into_iter().collect(), dir, props, len }
    }

    fn gen_match(&mut self, sc: &mut Scope, opt: bool) -> Clause {
        let npaths = if self.r.chance(1, 7) { 2 } else { 1 };
        if npaths > 1 {
            self.feat("multi_path");
        }
        let mut pats = Vec::new();
        for _ in 0..npaths {
            let start = self.gen_npat(sc);
            let nseg = *self.r.pick(&[0u64, 0, 0, 1, 1, 1, 1, 2, 2]);
            let mut segs = Vec::new();
            for _ in 0..nseg {
                let rp = self.gen_rpat(sc);
                let np = self.gen_npat(sc);
                segs.push((rp, np));
            }
            if nseg >= 2 {
                self.feat("two_hops");
            }
            pats.push(Path { start, segs });
        }
        let wher = if self.r.chance(1, 2) {
            self.feat("where");
            Some(self.gen_expr(sc, Kind::Bool, 2))
        } else {
            None
        };
        if opt {
            self.feat("optional_match");
        }
        Clause::Match { opt, pats, wher }
    }

    fn gen_item(&mut self, sc: &Scope) -> (Expr, Kind) {
        let ents: Vec<(u32, Kind)> =
            sc.iter().filter(|(_, k)| matches!(k, Kind::Node | Kind::Rel | Kind::RelList)).cloned().collect();
        match self.r.below(10) {
            0..=3 if !ents.is_empty() => {
                let (v, k) = *self.r.pick(&ents);
                (Expr::Var(v), k)
            }
            4..=6 if !sc.is_empty() => {
                let (v, k) = *self.r.pick(sc);
                match k {
                    Kind::Node | Kind::Rel => {
                        let key = self.r.below(4) as u32;
                        (Expr::Prop(v, key), [Kind::Int, Kind::Str, Kind::Bool, Kind::List][key as usize])
                    }
                    _ => (Expr::Var(v), k),
                }
            }
            _ => {
                let k = *self.r.pick(&[Kind::Int, Kind::Int, Kind::Str, Kind::Bool, Kind::List]);
                (self.gen_expr(sc, k, 2), k)
            }
        }
    }

    /// a projection; returns it with the scope it produces
    fn gen_proj(&mut self, sc: &Scope, is_return: bool, allow_window: bool, ncols: Option<usize>) -> (Proj, Scope) {
        let n = ncols.unwrap_or_else(|| self.r.range(1, 3) as usize);
        let with_agg = self.level >= 1 && self.r.chance(1, 4);
        let mut items = Vec::new();
        let mut out: Scope = Vec::new();
        let mut any_agg = false;
        for i in 0..n {
            let alias = if is_return { 100 + i as u32 } else { self.fresh() };
            if with_agg && (self.r.chance(1, 2) || (i == n - 1 && !any_agg)) {
                any_agg = true;
                let op = *self.r.pick(&[AggOp::Count, AggOp::Count, AggOp::Sum, AggOp::Min, AggOp::Max, AggOp::Collect]);
                let distinct = self.r.chance(1, 5);
                let (item, k) = if op == AggOp::Count && self.r.chance(1, 2) {
                    self.feat("count_star");
                    (Item::Agg(AggOp::Count, false, None), Kind::Int)
                } else {
                    let (arg, ak) = match op {
                        AggOp::Sum => (self.gen_expr(sc, Kind::Int, 1), Kind::Int),
                        _ => self.gen_item(sc),
                    };
                    let k = match op {
                        AggOp::Count | AggOp::Sum => Kind::Int,
                        AggOp::Collect => Kind::List,
                        _ => ak,
                    };
                    self.feat(&format!("agg_{}", agg_name(op)));
                    if distinct {
                        self.feat("agg_distinct");
                    }
                    (Item::Agg(op, distinct, Some(arg)), k)
                };
                items.push((item, alias));
                out.push((alias, k));
            } else {
                let (e, k) = self.gen_item(sc);
                items.push((Item::Expr(e), alias));
                out.push((alias, k));
            }
        }
        if any_agg {
            self.feat("aggregate");
            if items.iter().any(|(i, _)| matches!(i, Item::Expr(_))) {
                self.feat("grouped_aggregate");
            }
        }
        let distinct = self.level >= 1 && self.r.chance(1, 7);
        if distinct {
            self.feat("distinct");
        }
        let mut order = Vec::new();
        let mut skip = None;
        let mut limit = None;
        if allow_window && self.level >= 1 {
            if self.r.chance(if is_return { 1 } else { 1 }, if is_return { 3 } else { 6 }) {
                self.feat("order_by");
                let nk = self.r.range(1, 2);
                for _ in 0..nk {
                    let e = if any_agg || distinct || self.r.chance(3, 5) {
                        Expr::Var(self.r.pick(&out).0)
                    } else {
                        self.gen_expr(sc, Kind::Any, 1)
                    };
                    order.push((e, self.r.chance(3, 5)));
                }
            }
            let pw = if is_return { 5 } else { 14 };
            if self.r.chance(1, pw) {
                self.feat("skip");
                skip = Some(self.r.range(0, 3));
            }
            if self.r.chance(1, pw - 1) {
                self.feat("limit");
                limit = Some(self.r.range(0, 4));
            }
        }
        (Proj { distinct, items, order, skip, limit }, out)
    }

    fn gen_squery(&mut self, ncols: Option<usize>, allow_window: bool) -> SQuery {
        let mut sc: Scope = Vec::new();
        let mut clauses = Vec::new();
        let nclauses = if self.level >= 2 { *self.r.pick(&[1u64, 1, 1, 2, 2, 3]) } else { 1 };
        for i in 0..nclauses {
            let c = self.r.below(20);
            if self.level >= 2 && c < 2 {
                self.feat("unwind");
                let e = if self.r.chance(2, 3) { self.gen_lit(Kind::List) } else { self.gen_expr(&sc, Kind::List, 1) };
                let v = self.fresh();
                clauses.push(Clause::Unwind(e, v));
                sc.push((v, Kind::Any));
            } else if self.level >= 2 && c < 6 && i > 0 {
                self.feat("with");
                let (p, out) = self.gen_proj(&sc, false, true, None);
                let windowed = p.skip.is_some() || p.limit.is_some();
                let w = if !windowed && self.r.chance(1, 3) {
                    self.feat("with_where");
                    Some(self.gen_expr(&out, Kind::Bool, 1))
                } else {
                    None
                };
                clauses.push(Clause::With(p, w));
                sc = out;
            } else {
                let opt = self.level >= 2 && self.r.chance(1, 6);
                let m = self.gen_match(&mut sc, opt);
                clauses.push(m);
            }
        }
        let (ret, _) = self.gen_proj(&sc, true, allow_window, ncols);
        SQuery { clauses, ret }
    }

    /// `MATCH (a[:L])-[r1]-(h <rarest label and/or inline property of a real node>)-[r2]-(c[:L])` in
    /// every combination of directions, returning both relationships: the cost-based planner
    /// anchors on the middle node and expands both hops away from it (relationship isomorphism
    /// must hold across the anchor).
    fn gen_anchor_squery(&mut self) -> SQuery {
        let g = self.g;
        // the hub: a node with relationships, preferably many
        let mut deg: Vec<(usize, usize)> = g
            .nodes
            .iter()
            .enumerate()
            .map(|(i, n)| (g.rels.iter().filter(|r| r.src == n.id || r.tgt == n.id).count(), i))
            .filter(|(d, _)| *d > 0)
            .collect();
        deg.sort();
        let hub = if deg.is_empty() {
            &g.nodes[0]
        } else if self.r.chance(1, 2) {
            &g.nodes[deg[deg.len() - 1].1]
        } else {
            &g.nodes[deg[self.r.below(deg.len() as u64) as usize].1]
        };
        let count = |l: u32| g.nodes.iter().filter(|n| n.labels.contains(&l)).count();
        // middle node: its rarest label and/or one of its scalar properties
        let mut mid_labels = Vec::new();
        if let Some(l) = hub.labels.iter().min_by_key(|l| count(**l)) {
            if self.r.chance(2, 3) {
                mid_labels.push(*l);
            }
        }
        let scalars: Vec<&(u32, Val)> = hub.props.iter().filter(|(_, v)| !matches!(v, Val::List(_))).collect();
        let mut mid_props = Vec::new();
        if !scalars.is_empty() && (mid_labels.is_empty() || self.r.chance(1, 2)) {
            let (k, v) = scalars[self.r.below(scalars.len() as u64) as usize].clone();
            mid_props.push((k, self.lit(v)));
            self.feat("inline_props");
        }
        // the ends: the commonest label (costlier to scan than the anchor), or none
        let common = (0..4u32).max_by_key(|l| count(*l)).filter(|l| count(*l) > 0);
        let end_labels = |me: &mut Self| match common {
            Some(l) if me.r.chance(1, 2) => vec![l],
            _ => Vec::new(),
        };
        let la = end_labels(self);
        let lc = if self.r.chance(2, 3) { la.clone() } else { end_labels(self) };
        let ty: Vec<u32> = if self.r.chance(1, 2) { vec![*self.r.pick(&[0u32, 0, 1, 2])] } else { Vec::new() };
        let (d1, d2) = *self.r.pick(&[(0u8, 1u8), (1, 0), (0, 0), (1, 1), (2, 2), (2, 2), (2, 0), (0, 2), (1, 2)]);
        if d1 == 2 || d2 == 2 {
            self.feat("undirected");
        }
        let (a, r1, h, r2, c) = (self.fresh(), self.fresh(), self.fresh(), self.fresh(), self.fresh());
        let path = Path {
            start: NPat { var: Some(a), labels: la, props: Vec::new() },
            segs: vec![
                (
                    RPat { var: Some(r1), types: ty.clone(), dir: d1, props: Vec::new(), len: None },
                    NPat { var: Some(h), labels: mid_labels, props: mid_props },
                ),
                (
                    RPat { var: Some(r2), types: ty, dir: d2, props: Vec::new(), len: None },
                    NPat { var: Some(c), labels: lc, props: Vec::new() },
                ),
            ],
        };
        self.feat("two_hops");
        let mut items = vec![(Item::Expr(Expr::Var(r1)), 100), (Item::Expr(Expr::Var(r2)), 101)];
        if self.r.chance(1, 2) {
            items.push((Item::Expr(Expr::Fn(Func::Id, vec![Expr::Var(a)])), 102));
            items.push((Item::Expr(Expr::Fn(Func::Id, vec![Expr::Var(c)])), 103));
        }
        SQuery {
            clauses: vec![Clause::Match { opt: false, pats: vec![path], wher: None }],
            ret: Proj { distinct: false, items, order: Vec::new(), skip: None, limit: None },
        }
    }

    pub fn gen_query(&mut self) -> Query {
        if self.level >= 1 && !self.g.rels.is_empty() && self.r.chance(1, 9) {
            self.feat("interior_anchor");
            return Query { parts: vec![self.gen_anchor_squery()], all: false };
        }
        if self.level >= 2 && self.r.chance(1, 10) {
            self.feat("union");
            let ncols = self.r.range(1, 2) as usize;
            let nparts = if self.r.chance(1, 5) { 3 } else { 2 };
            let parts = (0..nparts).map(|_| self.gen_squery(Some(ncols), false)).collect();
            let all = self.r.chance(1, 2);
            if all {
                self.feat("union_all");
            }
            Query { parts, all }
        } else {
            Query { parts: vec![self.gen_squery(None, true)], all: false }
        }
    }
}

// ---------------------------------------------------------------- shapes
fn expr_ops(e: &Expr, out: &mut BTreeSet<&'static str>) {
    match e {
        Expr::Lit(Val::Null) => {
            out.insert("null");
        }
        Expr::Lit(Val::List(_)) => {
            out.insert("listlit");
        }
        Expr::Lit(_) | Expr::Var(_) => {}
        Expr::Prop(..) => {
            out.insert("prop");
        }
        Expr::Param(_) => {
            out.insert("param");
        }
        Expr::Cmp(o, a, b) => {
            out.insert(match o {
                CmpOp::Eq => "eq",
                CmpOp::Ne => "ne",
                _ => "ord",
            });
            expr_ops(a, out);
            expr_ops(b, out);
        }
        Expr::And(a, b) => {
            out.insert("and");
            expr_ops(a, out);
            expr_ops(b, out);
        }
        Expr::Or(a, b) => {
            out.insert("or");
            expr_ops(a, out);
            expr_ops(b, out);
        }
        Expr::Xor(a, b) => {
            out.insert("xor");
            expr_ops(a, out);
            expr_ops(b, out);
        }
        Expr::Not(a) => {
            out.insert("not");
            expr_ops(a, out);
        }
        Expr::IsNull(a) | Expr::IsNotNull(a) => {
            out.insert("isnull");
            expr_ops(a, out);
        }
        Expr::Arith(o, a, b) => {
            out.insert(match o {
                ArOp::Add => "add",
                ArOp::Sub => "sub",
                ArOp::Mul => "mul",
                ArOp::Div => "div",
                ArOp::Mod => "mod",
            });
            expr_ops(a, out);
            expr_ops(b, out);
        }
        Expr::Neg(a) => {
            out.insert("neg");
            expr_ops(a, out);
        }
        Expr::In(a, b) => {
            out.insert("in");
            expr_ops(a, out);
            expr_ops(b, out);
        }
        Expr::List(l) => {
            out.insert("list");
            for x in l {
                expr_ops(x, out);
            }
        }
        Expr::Fn(f, args) => {
            out.insert(match f {
                Func::Id => "id",
                Func::Labels => "labels",
                Func::Type => "type",
                Func::Size => "size",
                Func::Coalesce => "coalesce",
            });
            for x in args {
                expr_ops(x, out);
            }
        }
    }
}

fn ops_sig(es: &[&Expr]) -> String {
    let mut s = BTreeSet::new();
    for e in es {
        expr_ops(e, &mut s);
    }
    s.into_iter().collect::<Vec<_>>().join(",")
}

fn proj_sig(p: &Proj) -> String {
    let items: Vec<String> = p
        .items
        .iter()
        .map(|(it, _)| match it {
            Item::Expr(Expr::Var(_)) => "v".to_string(),
            Item::Expr(e) => format!("e[{}]", ops_sig(&[e])),
            Item::Agg(_, _, None) => "count*".to_string(),
            Item::Agg(op, d, Some(e)) => format!("{}{}[{}]", agg_name(*op), if *d { "D" } else { "" }, ops_sig(&[e])),
        })
        .collect();
    format!(
        "{}{{{}}}{}{}{}",
        if p.distinct { "D" } else { "" },
        items.join(";"),
        if p.order.is_empty() {
            String::new()
        } else {
            format!(
                " O{}[{}]",
                p.order.len(),
                ops_sig(&p.order.iter().map(|(e, _)| e).collect::<Vec<_>>())
            )
        },
        if p.skip.is_some() { " S" } else { "" },
        if p.limit.is_some() { " L" } else { "" }
    )
}

fn op_class(o: &str) -> &'static str {
    match o {
        "eq" | "ne" | "ord" => "cmp",
        "and" | "or" | "xor" | "not" | "isnull" => "bool",
        "add" | "sub" | "mul" | "div" | "mod" | "neg" => "arith",
        "in" => "in",
        "list" | "listlit" => "list",
        "id" | "labels" | "type" | "size" | "coalesce" => "fn",
        "null" => "null",
        "prop" => "prop",
        "param" => "param",
        _ => "other",
    }
}

fn class_sig(es: &[&Expr]) -> String {
    let mut s = BTreeSet::new();
    for e in es {
        expr_ops(e, &mut s);
    }
    let c: BTreeSet<&'static str> = s.into_iter().map(op_class).collect();
    c.into_iter().collect::<Vec<_>>().join(",")
}

fn proj_shape(p: &Proj) -> String {
    let mut es: Vec<&Expr> = Vec::new();
    let mut aggs = BTreeSet::new();
    for (it, _) in &p.items {
        match it {
            Item::Expr(e) => es.push(e),
            Item::Agg(op, d, arg) => {
                aggs.insert(format!("{}{}", if arg.is_none() { "count*" } else { agg_name(*op) }, if *d { "D" } else { "" }));
                if let Some(e) = arg {
                    es.push(e);
                }
            }
        }
    }
    for (e, _) in &p.order {
        es.push(e);
    }
    format!(
        "{}{}{}{}{}[{}]",
        if p.distinct { "D" } else { "" },
        if aggs.is_empty() { String::new() } else { format!("A({})", aggs.into_iter().collect::<Vec<_>>().join(",")) },
        if p.order.is_empty() { "" } else { "O" },
        if p.skip.is_some() { "S" } else { "" },
        if p.limit.is_some() { "L" } else { "" },
        class_sig(&es)
    )
}

/// The grammar shape of a query: the clause skeleton (kind of each clause, number of paths and
/// segments, variable length, inline properties, multi-label), the projection modifiers and the
/// classes of operators used in each clause. Recorded in corpus/C01/supported.jsonl when every
/// instance seen on the pinned tree answered Ok.
pub fn shape_of(q: &Query) -> String {
    let part = |s: &SQuery| {
        let mut out = Vec::new();
        for c in &s.clauses {
            match c {
                Clause::Match { opt, pats, wher } => {
                    let segs: usize = pats.iter().map(|p| p.segs.len()).sum();
                    let varlen = pats.iter().any(|p| p.segs.iter().any(|(r, _)| r.len.is_some()));
                    let props = pats.iter().any(|p| {
                        !p.start.props.is_empty() || p.segs.iter().any(|(r, n)| !r.props.is_empty() || !n.props.is_empty())
                    });
                    let ml = pats.iter().any(|p| p.start.labels.len() > 1 || p.segs.iter().any(|(_, n)| n.labels.len() > 1));
                    out.push(format!(
                        "{}p{}s{}{}{}{}{}",
                        if *opt { "OM" } else { "M" },
                        pats.len(),
                        segs,
                        if varlen { "*" } else { "" },
                        if props { "i" } else { "" },
                        if ml { "m" } else { "" },
                        match wher {
                            Some(w) => format!(" W[{}]", class_sig(&[w])),
                            None => String::new(),
                        }
                    ));
                }
                Clause::Unwind(e, _) => out.push(format!("UNW[{}]", class_sig(&[e]))),
                Clause::With(p, w) => out.push(format!(
                    "WITH{}{}",
                    proj_shape(p),
                    match w {
                        Some(w) => format!(" W[{}]", class_sig(&[w])),
                        None => String::new(),
                    }
                )),
            }
        }
        out.push(format!("RET{}", proj_shape(&s.ret)));
        out.join(" | ")
    };
    q.parts.iter().map(part).collect::<Vec<_>>().join(if q.all { " UNIONALL " } else { " UNION " })
}

// ---------------------------------------------------------------- cost guard
/// A crude upper estimate of the number of intermediate rows the brute-force reference evaluator
/// builds for `q` on `g`; cases above the budget are not generated (the model is evaluated by
/// coqc's vm and must stay affordable).
pub fn cost_estimate(g: &Graph, q: &Query) -> f64 {
    let n = g.nodes.len().max(1) as f64;
    let m = g.rels.len() as f64;
    let mut worst: f64 = 1.0;
    for s in &q.parts {
        let mut rows: f64 = 1.0;
        for c in &s.clauses {
            match c {
                Clause::Match { pats, .. } => {
                    for p in pats {
                        let mut f = if p.start.var.is_some() && rows > 1.0 { n.min(2.0) } else { n };
                        for (r, _) in &p.segs {
                            let deg = (if r.dir == 2 { 2.0 * m } else { m } / n).max(1.0);
                            let hops = match r.len {
                                None => 1.0,
                                Some((lo, None)) => (m.max(lo as f64)).min(6.0),
                                Some((_, Some(h))) => h as f64,
                            };
                            f *= deg.powf(hops) * if r.len.is_some() { hops.max(1.0) } else { 1.0 };
                        }
                        rows *= f;
                    }
                }
                Clause::Unwind(_, _) => rows *= 3.0,
                Clause::With(p, _) => {
                    if p.items.iter().all(|(i, _)| matches!(i, Item::Agg(..))) {
                        rows = 1.0;
                    }
                    if let Some(k) = p.limit {
                        rows = rows.min(k as f64);
                    }
                }
            }
            worst = worst.max(rows);
        }
    }
    worst
}

// ---------------------------------------------------------------- direct predicates on the implementation
/// Properties of the answer that can be read off the engine's rows without a reference evaluator:
/// a node returned for a pattern variable carries all the labels the pattern lists; LIMIT k returns
/// at most k rows; DISTINCT returns no duplicate row.
/// Relationship isomorphism read off the engine's rows: within one row, no relationship id is bound
/// twice by the relationship variables of one MATCH clause (checkable when the query returns them
/// as plain variables). Returns the description and, when the duplicate falls in a recorded class,
/// the class: a variable-length variable is involved, or the two variables sit in different
/// comma-separated paths.
pub fn rel_iso_predicate(q: &Query, obs: &Obs) -> Option<(String, Option<&'static str>)> {
    let rows = match obs {
        Obs::Ok(rows) => rows,
        _ => return None,
    };
    if q.parts.len() != 1 {
        return None;
    }
    let s = &q.parts[0];
    if s.clauses.iter().any(|c| matches!(c, Clause::With(..))) {
        return None;
    }
    let col_of = |v: u32| s.ret.items.iter().position(|(it, _)| matches!(it, Item::Expr(Expr::Var(x)) if *x == v));
    for c in &s.clauses {
        if let Clause::Match { pats, .. } = c {
            // (column, variable, path index, variable length)
            let mut vars: Vec<(usize, u32, usize, bool)> = Vec::new();
            for (pi, p) in pats.iter().enumerate() {
                for (r, _) in &p.segs {
                    if let Some(v) = r.var {
                        if let Some(col) = col_of(v) {
                            vars.push((col, v, pi, r.len.is_some()));
                        }
                    }
                }
            }
            if vars.is_empty() {
                continue;
            }
            for row in rows {
                let mut seen: Vec<(u64, u32, usize, bool)> = Vec::new();
                for (col, v, pi, vl) in &vars {
                    let ids: Vec<u64> = match row.get(*col) {
                        Some(Val::Rel(i)) => vec![*i],
                        Some(Val::List(l)) => l.iter().filter_map(|x| if let Val::Rel(i) = x { Some(*i) } else { None }).collect(),
                        _ => Vec::new(),
                    };
                    for id in ids {
                        if let Some((_, v0, p0, vl0)) = seen.iter().find(|(i, ..)| *i == id) {
                            let class = if *vl || *vl0 {
                                Some("varlen_reachability")
                            } else if p0 != pi {
                                Some("multi_path_rel_iso")
                            } else {
                                None
                            };
                            return Some((
                                format!(
                                    "relationship {} is bound to both {} and {} in one MATCH (row {:?})",
                                    id,
                                    var_name(*v0),
                                    var_name(*v),
                                    row.iter().map(human_val).collect::<Vec<_>>()
                                ),
                                class,
                            ));
                        }
                        seen.push((id, *v, *pi, *vl));
                    }
                }
            }
        }
    }
    None
}

pub fn direct_predicates(g: &Graph, q: &Query, obs: &Obs) -> Option<String> {
    let rows = match obs {
        Obs::Ok(rows) => rows,
        _ => return None,
    };
    if q.parts.len() != 1 {
        return None;
    }
    let s = &q.parts[0];
    if let Some(k) = s.ret.limit {
        if rows.len() as u64 > k {
            return Some(format!("LIMIT {} returned {} rows", k, rows.len()));
        }
    }
    if s.ret.distinct {
        for i in 0..rows.len() {
            for j in 0..i {
                if rows[i] == rows[j] {
                    return Some(format!("DISTINCT returned the row {:?} twice", rows[i]));
                }
            }
        }
    }
    if s.clauses.iter().any(|c| matches!(c, Clause::With(..))) {
        return None;
    }
    // labels required of each pattern variable by non-optional MATCH clauses
    let mut req: HashMap<u32, BTreeSet<u32>> = HashMap::new();
    for c in &s.clauses {
        if let Clause::Match { opt: false, pats, .. } = c {
            for p in pats {
                let mut add = |n: &NPat| {
                    if let Some(v) = n.var {
                        req.entry(v).or_default().extend(n.labels.iter().cloned());
                    }
                };
                add(&p.start);
                for (_, n) in &p.segs {
                    add(n);
                }
            }
        }
    }
    for (col, (it, _)) in s.ret.items.iter().enumerate() {
        if let Item::Expr(Expr::Var(v)) = it {
            if let Some(ls) = req.get(v) {
                for row in rows {
                    if let Some(Val::Node(id)) = row.get(col) {
                        if let Some(n) = g.nodes.iter().find(|n| n.id == *id) {
                            for l in ls {
                                if !n.labels.contains(l) {
                                    return Some(format!(
                                        "node {} returned for {} lacks the required label :{}",
                                        id,
                                        var_name(*v),
                                        label_name(*l)
                                    ));
                                }
                            }
                        }
                    }
                }
            }
        }
    }
    None
}
