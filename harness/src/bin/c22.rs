//! C22 — every server reply is exactly one well-formed RESP frame.
//!
//! Replies are built by `CommandHandler::handle_command` from commands and queries that
//! carry CR, LF and CRLF in every position (command name, graph name, query text, string
//! literals, identifiers, aliases, stored property values, failing queries whose error
//! echoes the input), then encoded with `RespValue::encode`.  Each reply must be read back
//! as exactly one frame by an independent strict reader and by the decoder itself.
mod resp_common;
use resp_common::*;
use samyama::graph::GraphStore;
use samyama::protocol::resp::RespValue;
use samyama::protocol::CommandHandler;
use std::sync::Arc;
use tokio::sync::RwLock;
use vh::*;

fn bulk(b: &[u8]) -> RespValue {
    RespValue::BulkString(Some(b.to_vec()))
}
fn cmd(parts: &[&[u8]]) -> RespValue {
    RespValue::Array(parts.iter().map(|p| bulk(p)).collect())
}

struct Ctx {
    rt: tokio::runtime::Runtime,
    handler: CommandHandler,
    store: Arc<RwLock<GraphStore>>,
}

/// check one reply value (from the handler or generated)
fn reply_case(out: &mut Out, v: &RespValue, what: &str) {
    let idx = out.next_index();
    if !out.wants(idx) {
        out.skip();
        return;
    }
    let enc = impl_encode(v);
    let o = decode_obs(&enc);
    let human = format!("{} reply={:?} encoded=\"{}\" -> {}", what, v, show(&enc), show_obs(&o));
    let g = format!("CReply ({}) {} {}", g_rv(v), gb(&enc), g_obs(&o));
    let dirty = !is_clean(v);
    let i = out.case(g, human.clone(), true);
    out.count("replies");
    if dirty {
        out.count("replies_with_cr_or_lf_in_line_payload");
    }
    match v {
        RespValue::Error(_) => out.count("error_replies"),
        RespValue::Array(_) => out.count("array_replies"),
        _ => out.count("other_replies"),
    }
    // the property's own predicate: an independent strict reader sees exactly one frame
    let want = sanitize(v);
    let mut bad = None;
    match ref_read(&enc, 0) {
        Some((rv, used)) if used == enc.len() && rv == want => {}
        Some((rv, used)) => {
            bad = Some(format!(
                "a strict RESP reader reads {:?} from the first {} of {} bytes ({} bytes would be read as further frames)",
                rv,
                used,
                enc.len(),
                enc.len() - used
            ))
        }
        None => bad = Some("a strict RESP reader cannot read the reply as a frame".to_string()),
    }
    if bad.is_none() {
        let mut r = Vec::new();
        ref_encode(v, &mut r);
        if r != enc {
            bad = Some(format!("encoding differs from the reference encoding \"{}\"", show(&r)));
        }
    }
    if bad.is_none() && depth(v) <= MAX_DEPTH {
        match &o {
            Obs::Done(v2, rest) if *v2 == want && rest.is_empty() => {}
            _ => bad = Some("the server's own decoder does not read the reply back as one frame".to_string()),
        }
    }
    if let Some(b) = bad {
        out.fail(i, &human, &b, None);
    }
}

fn run_cmd(cx: &Ctx, out: &mut Out, c: &RespValue, what: &str) {
    let reply = cx.rt.block_on(cx.handler.handle_command(c, &cx.store));
    reply_case(out, &reply, &format!("{} cmd={:?}", what, c));
}

fn main() {
    let args = parse_args();
    quiet_panics();
    let mut out = Out::new(&args, "From Verif Require Import Resp.", "Resp.case", "Resp.check_case", 120);
    out.rule = "handler replies: PING/ECHO/INFO/GRAPH.LIST/GRAPH.DELETE/unknown commands, non-array and null \
                arguments, invalid UTF-8 arguments, GRAPH.QUERY with 40 query templates x injected fragments \
                (CR, LF, CRLF, 'a CRLF b', CRLF '+OK' CRLF, CRLF '$-1' CRLF) placed in the command name, graph name, \
                query text, string literals, aliases, labels, property names, stored values, parameters of failing \
                queries; plus random reply values (nesting <= 4) with CR/LF in line payloads. Every reply is encoded \
                by RespValue::encode. Non-trivial: all; distinct by case text."
        .to_string();
    let cx = Ctx {
        rt: tokio::runtime::Builder::new_current_thread().enable_all().build().unwrap(),
        handler: CommandHandler::new(None),
        store: Arc::new(RwLock::new(GraphStore::new())),
    };
    let frags: Vec<&[u8]> = vec![b"\r\n", b"\r", b"\n", b"a\r\nb", b"\r\n+OK\r\n", b"x\r\n$-1\r\ny", b"\n\r", b"q"];
    let templates: Vec<&str> = vec![
        "RETURN '{}' AS v",
        "RETURN 1 AS `{}`",
        "RETURN {}",
        "RETURN 'a' + '{}'",
        "RETURN toUpper('{}')",
        "RETURN nosuchfn('{}')",
        "RETURN [1, '{}', [2, '{}']]",
        "RETURN {k: '{}'}",
        "RETURN $p{}",
        "MATCH (n:`L{}`) RETURN n",
        "MATCH (n:L{}) RETURN n",
        "MATCH (n) WHERE n.`{}` = 1 RETURN n",
        "MATCH (n) WHERE n.name = '{}' RETURN n.name",
        "MATCH (n:C22) RETURN n.v, n.w",
        "MATCH (n:C22) RETURN n",
        "CREATE (n:C22 {v: '{}', w: 'w{}'}) RETURN n.v",
        "CREATE (n:C22 {`{}`: 1})",
        "CREATE (a:C22 {v: '{}'})-[:R{}]->(b:C22) RETURN a.v",
        "MATCH (a:C22)-[r]->(b) RETURN r, b",
        "MATCH (n {}",
        "{}MATCH (n) RETURN n",
        "MATCH (n) RETURN n{}",
        "MATCH (n) RETURN n.{}",
        "MATCH (n) RETURN count(n) AS `c{}`",
        "UNWIND ['{}', 'b'] AS x RETURN x",
        "WITH '{}' AS x RETURN x, x + x",
        "RETURN 1 / 0{}",
        "RETURN toInteger('{}')",
        "RETURN substring('{}', 0, 100)",
        "MERGE (n:C22 {v: '{}'}) RETURN n.v",
        "MATCH (n:C22) SET n.v = '{}' RETURN n.v",
        "MATCH (n:C22) SET n.`p{}` = 2",
        "MATCH (n:C22) DELETE n{}",
        "CALL nosuch.proc('{}')",
        "EXPLAIN MATCH (n:`{}`) RETURN n",
        "RETURN '{}' STARTS WITH '{}'",
        "RETURN split('a{}b', '{}')",
        "CREATE INDEX ON :C22(`{}`)",
        "'{}'",
        "{}",
    ];
    // fixed commands
    let fixed: Vec<RespValue> = vec![
        cmd(&[b"PING"]),
        cmd(&[b"PING", b"a\r\nb"]),
        cmd(&[b"ping", b"\xff\xfe"]),
        RespValue::Array(vec![bulk(b"PING"), RespValue::BulkString(None)]),
        cmd(&[b"ECHO"]),
        cmd(&[b"ECHO", b"\r\n+OK\r\n"]),
        RespValue::Array(vec![bulk(b"ECHO"), RespValue::BulkString(None)]),
        RespValue::Array(vec![bulk(b"ECHO"), RespValue::Integer(3)]),
        cmd(&[b"INFO"]),
        cmd(&[b"GRAPH.LIST"]),
        cmd(&[b"GRAPH.QUERY"]),
        cmd(&[b"GRAPH.QUERY", b"default"]),
        cmd(&[b"GRAPH.DELETE"]),
        RespValue::Array(vec![bulk(b"GRAPH.QUERY"), RespValue::BulkString(None), bulk(b"RETURN 1")]),
        RespValue::Array(vec![bulk(b"GRAPH.QUERY"), bulk(b"default"), RespValue::BulkString(None)]),
        RespValue::Array(vec![bulk(b"GRAPH.QUERY"), bulk(b"\xff"), bulk(b"RETURN 1")]),
        RespValue::Array(vec![bulk(b"GRAPH.QUERY"), bulk(b"default"), bulk(b"RETURN '\xff\r\n'")]),
        RespValue::Array(vec![]),
        RespValue::Array(vec![RespValue::BulkString(None)]),
        RespValue::Array(vec![RespValue::Integer(1)]),
        RespValue::Array(vec![bulk(b"\xc3\r\n")]),
        RespValue::SimpleString("PING\r\n".into()),
        RespValue::Error("x\r\ny".into()),
        RespValue::Integer(1),
        RespValue::Null,
        RespValue::BulkString(Some(b"PING".to_vec())),
    ];
    for c in &fixed {
        run_cmd(&cx, &mut out, c, "fixed");
    }
    for f in &frags {
        // command name / graph name / argument positions
        let f: &[u8] = f;
        let name = [&b"NOSUCH"[..], f].concat();
        run_cmd(&cx, &mut out, &cmd(&[&name]), "unknown-command");
        let name2 = [f, &b"GRAPH.QUERY"[..]].concat();
        run_cmd(&cx, &mut out, &cmd(&[&name2, b"default", b"RETURN 1"]), "unknown-command");
        let g = [&b"g"[..], f, &b"h"[..]].concat();
        run_cmd(&cx, &mut out, &cmd(&[b"GRAPH.QUERY", &g, b"RETURN 1"]), "graph-name");
        run_cmd(&cx, &mut out, &cmd(&[b"GRAPH.RO_QUERY", &g, b"RETURN 1"]), "graph-name");
        run_cmd(&cx, &mut out, &cmd(&[b"GRAPH.DELETE", &g]), "graph-name");
        run_cmd(&cx, &mut out, &cmd(&[b"ECHO", f]), "echo");
        run_cmd(&cx, &mut out, &cmd(&[b"PING", f]), "ping");
        for t in &templates {
            let q = t.replace("{}", std::str::from_utf8(f).unwrap());
            run_cmd(&cx, &mut out, &cmd(&[b"GRAPH.QUERY", b"default", q.as_bytes()]), "query");
        }
    }
    // random commands built from the same pieces
    let n_rand_cmd = if args.thorough { 4000 } else { 300 };
    for c in 0..n_rand_cmd {
        let mut r = Rng::for_case(args.seed, c);
        let t = *r.pick(&templates);
        let mut q = String::new();
        for (i, part) in t.split("{}").enumerate() {
            if i > 0 {
                q.push_str(&rand_text(&mut r, 4, true));
            }
            q.push_str(part);
        }
        let name: &[u8] = if r.chance(1, 8) { b"GRAPH.RO_QUERY" } else { b"GRAPH.QUERY" };
        let g: Vec<u8> = if r.chance(1, 6) { rand_text(&mut r, 5, true).into_bytes() } else { b"default".to_vec() };
        run_cmd(&cx, &mut out, &cmd(&[name, &g, q.as_bytes()]), "random-query");
    }
    // random reply values, dirty line payloads
    let n_vals = if args.thorough { 20000 } else { 1500 };
    for c in 0..n_vals {
        let mut r = Rng::for_case(args.seed, 5_000_000 + c);
        let v = match r.below(4) {
            0 => RespValue::Error(format!("ERR {}", rand_text(&mut r, 12, true))),
            1 => RespValue::SimpleString(rand_text(&mut r, 6, true)),
            _ => rand_value(&mut r, 4, true),
        };
        reply_case(&mut out, &v, "generated");
    }
    // deep replies (nested lists): beyond the decoder's own limit the independent reader decides
    for d in [1usize, 31, 32, 33, 40] {
        let mut v = RespValue::Error("e\r\n".into());
        for _ in 0..d {
            v = RespValue::Array(vec![v, RespValue::Integer(1)]);
        }
        reply_case(&mut out, &v, "deep");
    }
    out.finish();
}
