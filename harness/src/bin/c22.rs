//! C22 — every server reply is exactly one well-formed RESP frame.
//!
//! Replies are built by `CommandHandler::handle_command` from commands and queries that
//! carry CR, LF and CRLF in every position (command name, graph name, query text, string
//! literals, identifiers, aliases, stored property values, failing queries whose error
//! echoes the input), then encoded with `RespValue::encode`.  Each reply must be read back
//! as exactly one frame by an independent strict reader and by the decoder itself.
mod resp_common;
use resp_common::*;
use samyama::graph::GraphStore;
use samyama::protocol::resp::RespValue;
use samyama::protocol::CommandHandler;
use std::sync::Arc;
use tokio::sync::RwLock;
use vh::*;

fn bulk(b: &[u8]) -> RespValue {
    RespValue::BulkString(Some(b.to_vec()))
}
fn cmd(parts: &[&[u8]]) -> RespValue {
    RespValue::Array(parts.iter().map(|p| bulk(p)).collect())
}

struct Ctx {
    rt: tokio::runtime::Runtime,
    handler: CommandHandler,
    store: Arc<RwLock<GraphStore>>,
}

/// check one reply value (from the handler or generated)
fn reply_case(out: &mut Out, v: &RespValue, what: &str) {
    let idx = out.next_index();
    if !out.wants(idx) {
        out.skip();
        return;
    }
    let enc = impl_encode(v);
    let o = decode_obs(&enc);
    let human = format!("{} reply={:?} encoded=\"{}\" -> {}", what, v, show(&enc), show_obs(&o));
    let g = format!("CReply ({}) {} {}", g_rv(v), gb(&enc), g_obs(&o));
    let dirty = !is_clean(v);
    let i = out.case(g, human.clone(), true);
    out.count("replies");
    if dirty {
        out.count("replies_with_cr_or_lf_in_line_payload");
    }
    let (long_lines, long_dirty_tail) = long_line_stats(v);
    if long_lines > 0 {
        out.count("line_reply_over_1k");
    }
    if long_dirty_tail > 0 {
        out.count("crlf_in_last_512_of_long_line");
    }
    match v {
        RespValue::Error(_) => out.count("error_replies"),
        RespValue::Array(_) => out.count("array_replies"),
        _ => out.count("other_replies"),
    }
    // the property's own predicate: an independent strict reader sees exactly one frame
    let want = sanitize(v);
    let mut bad = None;
    match ref_read(&enc, 0) {
        Some((rv, used)) if used == enc.len() && rv == want => {}
        Some((rv, used)) => {
            bad = Some(format!(
                "a strict RESP reader reads {:?} from the first {} of {} bytes ({} bytes would be read as further frames)",
                rv,
                used,
                enc.len(),
                enc.len() - used
            ))
        }
        None => bad = Some("a strict RESP reader cannot read the reply as a frame".to_string()),
    }
    if bad.is_none() {
        let mut r = Vec::new();
        ref_encode(v, &mut r);
        if r != enc {
            bad = Some(format!("encoding differs from the reference encoding \"{}\"", show(&r)));
        }
    }
    if bad.is_none() && depth(v) <= MAX_DEPTH {
        match &o {
            Obs::Done(v2, rest) if *v2 == want && rest.is_empty() => {}
            _ => bad = Some("the server's own decoder does not read the reply back as one frame".to_string()),
        }
    }
    if let Some(b) = bad {
        out.fail(i, &human, &b, None);
    }
}

/// (line-type payloads longer than 1 KiB, those of them with CR or LF in their last 512 bytes)
fn long_line_stats(v: &RespValue) -> (u64, u64) {
    match v {
        RespValue::SimpleString(s) | RespValue::Error(s) => {
            let b = s.as_bytes();
            if b.len() > 1024 {
                let tail = &b[b.len() - 512..];
                (1, tail.iter().any(|&c| c == b'\r' || c == b'\n') as u64)
            } else {
                (0, 0)
            }
        }
        RespValue::Array(items) => items.iter().map(long_line_stats).fold((0, 0), |a, b| (a.0 + b.0, a.1 + b.1)),
        _ => (0, 0),
    }
}

const INJECT: [&[u8]; 8] = [b"\r\n", b"\r", b"\n", b"\r\n+OK\r\n", b"\r\n$-1\r\n", b"\r\n+OK", b"\n\r", b"\r\n:1\r\n"];

/// `size` bytes of filler that is harmless inside a quoted Cypher literal, a label, a graph or
/// command name (letters, digits, a few spaces, some multi-byte characters), with the
/// fragments of `at` spliced in: (offset from the start | offset from the END, fragment)
fn long_text(r: &mut Rng, size: usize, at: &[(bool, usize, &[u8])]) -> Vec<u8> {
    let mut s = String::with_capacity(size + 8);
    while s.len() < size {
        match r.below(40) {
            0 => s.push(' '),
            1 => s.push('\u{e9}'),
            2 => s.push('\u{20ac}'),
            3 => s.push('.'),
            k => s.push((b'a' + (k % 26) as u8) as char),
        }
    }
    let mut b = s.into_bytes();
    // splice on character boundaries only (the result must stay valid UTF-8)
    let mut cuts: Vec<(usize, &[u8])> = at
        .iter()
        .map(|(from_end, off, f)| {
            let mut p = if *from_end { b.len().saturating_sub(*off) } else { (*off).min(b.len()) };
            while p < b.len() && (b[p] & 0xC0) == 0x80 {
                p += 1;
            }
            (p, *f)
        })
        .collect();
    cuts.sort_by(|x, y| y.0.cmp(&x.0));
    for (p, f) in cuts {
        b.splice(p..p, f.iter().cloned());
    }
    b
}

/// where the injections go: start, middle, and within the last 1..600 bytes
fn long_input(r: &mut Rng, size: usize) -> Vec<u8> {
    let mut at: Vec<(bool, usize, &[u8])> = Vec::new();
    let f = |r: &mut Rng| -> &'static [u8] { INJECT[r.below(INJECT.len() as u64) as usize] };
    match r.below(8) {
        0 => at.push((false, 0, f(r))),
        1 => at.push((false, size / 2, f(r))),
        2 => at.push((true, 0, f(r))),
        3 => at.push((true, r.range(1, 600) as usize, f(r))),
        4 => {
            at.push((true, r.range(1, 40) as usize, f(r)));
            at.push((false, r.below(size as u64) as usize, f(r)));
        }
        5 => {
            at.push((false, 0, f(r)));
            at.push((false, size / 2, f(r)));
            at.push((true, r.range(1, 600) as usize, f(r)));
        }
        6 => at.push((true, r.range(400, 600) as usize, f(r))),
        _ => {
            for _ in 0..r.range(1, 6) {
                at.push((r.chance(1, 2), r.below(size as u64) as usize, f(r)));
            }
        }
    }
    long_text(r, size, &at)
}

fn long_size(r: &mut Rng) -> usize {
    match r.below(6) {
        0 => r.range(600, 1024) as usize,
        1 => r.range(1000, 1100) as usize,
        2 | 3 => r.range(1025, 2000) as usize,
        _ => r.range(2000, 5000) as usize,
    }
}

/// every position a long client input can reach a reply from.  `pick`: None = all 14
/// commands (thorough); Some(k) = only position class k (quick tier: the classes that matter
/// for line-type replies, one command each, plus the two set-up commands for stored values)
fn long_commands(cx: &Ctx, out: &mut Out, t: &[u8], what: &str, pick: Option<u64>) {
    let q = |pre: &str, post: &str| [pre.as_bytes(), t, post.as_bytes()].concat();
    let all = pick.is_none();
    let on = |k: u64| all || pick == Some(k);
    // command name (echoed upper-cased), graph name
    if on(0) {
        run_cmd(cx, out, &cmd(&[t]), &format!("{}-command-name", what));
    }
    if on(1) {
        run_cmd(cx, out, &cmd(&[b"GRAPH.QUERY", t, b"RETURN 1"]), &format!("{}-graph-name", what));
    }
    // the query text itself; failing queries that echo a literal
    if on(2) {
        run_cmd(cx, out, &cmd(&[b"GRAPH.QUERY", b"default", &q("RETURN date('", "')")]), &format!("{}-date-literal", what));
    }
    if on(3) {
        run_cmd(cx, out, &cmd(&[b"GRAPH.QUERY", b"default", t]), &format!("{}-query-text", what));
    }
    if on(4) {
        run_cmd(cx, out, &cmd(&[b"GRAPH.QUERY", b"default", &q("RETURN nosuchfn('", "')")]), &format!("{}-unknown-fn", what));
    }
    if all {
        run_cmd(cx, out, &cmd(&[b"GRAPH.QUERY", b"default", &q("MATCH (n:`", "`) RETURN n.")]), &format!("{}-syntax-error", what));
        run_cmd(cx, out, &cmd(&[b"GRAPH.QUERY", b"default", &q("RETURN '", "' AS v, 1 +")]), &format!("{}-syntax-error", what));
        // literal that comes back as data
        run_cmd(cx, out, &cmd(&[b"GRAPH.QUERY", b"default", &q("RETURN '", "' AS v")]), &format!("{}-literal", what));
    }
    // stored value read back, failing query over the stored value
    if on(5) {
        run_cmd(cx, out, &cmd(&[b"GRAPH.QUERY", b"default", b"MATCH (n:C22L) DELETE n"]), &format!("{}-reset", what));
        run_cmd(cx, out, &cmd(&[b"GRAPH.QUERY", b"default", &q("CREATE (n:C22L {born: '", "'})")]), &format!("{}-store", what));
        if all {
            run_cmd(cx, out, &cmd(&[b"GRAPH.QUERY", b"default", b"MATCH (n:C22L) RETURN n.born"]), &format!("{}-stored-value", what));
        }
        run_cmd(cx, out, &cmd(&[b"GRAPH.QUERY", b"default", b"MATCH (n:C22L) RETURN date(n.born)"]), &format!("{}-date-of-stored", what));
        if all {
            run_cmd(cx, out, &cmd(&[b"GRAPH.QUERY", b"default", b"MATCH (n:C22L) RETURN toInteger(n.born) + duration(n.born)"]), &format!("{}-fn-of-stored", what));
        }
    }
    if all {
        run_cmd(cx, out, &cmd(&[b"ECHO", t]), &format!("{}-echo", what));
    }
}

/// readable command; long arguments are abbreviated (the case is replayed by seed and index)
fn show_cmd(c: &RespValue) -> String {
    match c {
        RespValue::Array(items) => format!("[{}]", items.iter().map(show_cmd).collect::<Vec<_>>().join(", ")),
        RespValue::BulkString(Some(b)) if b.len() > 400 => {
            format!("\"{}\"..({} bytes)..\"{}\"", show(&b[..150]), b.len(), show(&b[b.len() - 150..]))
        }
        RespValue::BulkString(Some(b)) => format!("\"{}\"", show(b)),
        other => format!("{:?}", other),
    }
}

fn run_cmd(cx: &Ctx, out: &mut Out, c: &RespValue, what: &str) {
    let reply = cx.rt.block_on(cx.handler.handle_command(c, &cx.store));
    reply_case(out, &reply, &format!("{} cmd={}", what, show_cmd(c)));
}

fn main() {
    let args = parse_args();
    quiet_panics();
    let mut out = Out::new(&args, "From Verif Require Import Resp.", "Resp.case", "Resp.check_case", if args.thorough { 120 } else { 40 });
    out.rule = "handler replies: PING/ECHO/INFO/GRAPH.LIST/GRAPH.DELETE/unknown commands, non-array and null \
                arguments, invalid UTF-8 arguments, GRAPH.QUERY with 40 query templates x injected fragments \
                (CR, LF, CRLF, 'a CRLF b', CRLF '+OK' CRLF, CRLF '$-1' CRLF) placed in the command name, graph name, \
                query text, string literals, aliases, labels, property names, stored values, parameters of failing \
                queries; plus random reply values (nesting <= 4) with CR/LF in line payloads; long inputs of 600-5000 bytes \
                (command name, graph name, query text, literals, stored property values, failing queries echoing them, \
                direct SimpleString/Error values) with CR, LF, CRLF, CRLF '+OK' CRLF, CRLF '$-1' CRLF at the start, in the \
                middle and within the last 1-600 bytes. Every reply is encoded \
                by RespValue::encode. Non-trivial: all; distinct by case text."
        .to_string();
    let cx = Ctx {
        rt: tokio::runtime::Builder::new_current_thread().enable_all().build().unwrap(),
        handler: CommandHandler::new(None),
        store: Arc::new(RwLock::new(GraphStore::new())),
    };
    let frags: Vec<&[u8]> = vec![b"\r\n", b"\r", b"\n", b"a\r\nb", b"\r\n+OK\r\n", b"x\r\n$-1\r\ny", b"\n\r", b"q"];
    let templates: Vec<&str> = vec![
        "RETURN '{}' AS v",
        "RETURN 1 AS `{}`",
        "RETURN {}",
        "RETURN 'a' + '{}'",
        "RETURN toUpper('{}')",
        "RETURN nosuchfn('{}')",
        "RETURN [1, '{}', [2, '{}']]",
        "RETURN {k: '{}'}",
        "RETURN $p{}",
        "MATCH (n:`L{}`) RETURN n",
        "MATCH (n:L{}) RETURN n",
        "MATCH (n) WHERE n.`{}` = 1 RETURN n",
        "MATCH (n) WHERE n.name = '{}' RETURN n.name",
        "MATCH (n:C22) RETURN n.v, n.w",
        "MATCH (n:C22) RETURN n",
        "CREATE (n:C22 {v: '{}', w: 'w{}'}) RETURN n.v",
        "CREATE (n:C22 {`{}`: 1})",
        "CREATE (a:C22 {v: '{}'})-[:R{}]->(b:C22) RETURN a.v",
        "MATCH (a:C22)-[r]->(b) RETURN r, b",
        "MATCH (n {}",
        "{}MATCH (n) RETURN n",
        "MATCH (n) RETURN n{}",
        "MATCH (n) RETURN n.{}",
        "MATCH (n) RETURN count(n) AS `c{}`",
        "UNWIND ['{}', 'b'] AS x RETURN x",
        "WITH '{}' AS x RETURN x, x + x",
        "RETURN 1 / 0{}",
        "RETURN toInteger('{}')",
        "RETURN substring('{}', 0, 100)",
        "MERGE (n:C22 {v: '{}'}) RETURN n.v",
        "MATCH (n:C22) SET n.v = '{}' RETURN n.v",
        "MATCH (n:C22) SET n.`p{}` = 2",
        "MATCH (n:C22) DELETE n{}",
        "CALL nosuch.proc('{}')",
        "EXPLAIN MATCH (n:`{}`) RETURN n",
        "RETURN '{}' STARTS WITH '{}'",
        "RETURN split('a{}b', '{}')",
        "CREATE INDEX ON :C22(`{}`)",
        "'{}'",
        "{}",
    ];
    // fixed commands
    let fixed: Vec<RespValue> = vec![
        cmd(&[b"PING"]),
        cmd(&[b"PING", b"a\r\nb"]),
        cmd(&[b"ping", b"\xff\xfe"]),
        RespValue::Array(vec![bulk(b"PING"), RespValue::BulkString(None)]),
        cmd(&[b"ECHO"]),
        cmd(&[b"ECHO", b"\r\n+OK\r\n"]),
        RespValue::Array(vec![bulk(b"ECHO"), RespValue::BulkString(None)]),
        RespValue::Array(vec![bulk(b"ECHO"), RespValue::Integer(3)]),
        cmd(&[b"INFO"]),
        cmd(&[b"GRAPH.LIST"]),
        cmd(&[b"GRAPH.QUERY"]),
        cmd(&[b"GRAPH.QUERY", b"default"]),
        cmd(&[b"GRAPH.DELETE"]),
        RespValue::Array(vec![bulk(b"GRAPH.QUERY"), RespValue::BulkString(None), bulk(b"RETURN 1")]),
        RespValue::Array(vec![bulk(b"GRAPH.QUERY"), bulk(b"default"), RespValue::BulkString(None)]),
        RespValue::Array(vec![bulk(b"GRAPH.QUERY"), bulk(b"\xff"), bulk(b"RETURN 1")]),
        RespValue::Array(vec![bulk(b"GRAPH.QUERY"), bulk(b"default"), bulk(b"RETURN '\xff\r\n'")]),
        RespValue::Array(vec![]),
        RespValue::Array(vec![RespValue::BulkString(None)]),
        RespValue::Array(vec![RespValue::Integer(1)]),
        RespValue::Array(vec![bulk(b"\xc3\r\n")]),
        RespValue::SimpleString("PING\r\n".into()),
        RespValue::Error("x\r\ny".into()),
        RespValue::Integer(1),
        RespValue::Null,
        RespValue::BulkString(Some(b"PING".to_vec())),
    ];
    for c in &fixed {
        run_cmd(&cx, &mut out, c, "fixed");
    }
    for f in &frags {
        // command name / graph name / argument positions
        let f: &[u8] = f;
        let name = [&b"NOSUCH"[..], f].concat();
        run_cmd(&cx, &mut out, &cmd(&[&name]), "unknown-command");
        let name2 = [f, &b"GRAPH.QUERY"[..]].concat();
        run_cmd(&cx, &mut out, &cmd(&[&name2, b"default", b"RETURN 1"]), "unknown-command");
        let g = [&b"g"[..], f, &b"h"[..]].concat();
        run_cmd(&cx, &mut out, &cmd(&[b"GRAPH.QUERY", &g, b"RETURN 1"]), "graph-name");
        run_cmd(&cx, &mut out, &cmd(&[b"GRAPH.RO_QUERY", &g, b"RETURN 1"]), "graph-name");
        run_cmd(&cx, &mut out, &cmd(&[b"GRAPH.DELETE", &g]), "graph-name");
        run_cmd(&cx, &mut out, &cmd(&[b"ECHO", f]), "echo");
        run_cmd(&cx, &mut out, &cmd(&[b"PING", f]), "ping");
        for t in &templates {
            let q = t.replace("{}", std::str::from_utf8(f).unwrap());
            run_cmd(&cx, &mut out, &cmd(&[b"GRAPH.QUERY", b"default", q.as_bytes()]), "query");
        }
    }
    // random commands built from the same pieces
    let n_rand_cmd = if args.thorough { 4000 } else { 300 };
    for c in 0..n_rand_cmd {
        let mut r = Rng::for_case(args.seed, c);
        let t = *r.pick(&templates);
        let mut q = String::new();
        for (i, part) in t.split("{}").enumerate() {
            if i > 0 {
                q.push_str(&rand_text(&mut r, 4, true));
            }
            q.push_str(part);
        }
        let name: &[u8] = if r.chance(1, 8) { b"GRAPH.RO_QUERY" } else { b"GRAPH.QUERY" };
        let g: Vec<u8> = if r.chance(1, 6) { rand_text(&mut r, 5, true).into_bytes() } else { b"default".to_vec() };
        run_cmd(&cx, &mut out, &cmd(&[name, &g, q.as_bytes()]), "random-query");
    }
    // random reply values, dirty line payloads
    let n_vals = if args.thorough { 20000 } else { 1500 };
    for c in 0..n_vals {
        let mut r = Rng::for_case(args.seed, 5_000_000 + c);
        let v = match r.below(4) {
            0 => RespValue::Error(format!("ERR {}", rand_text(&mut r, 12, true))),
            1 => RespValue::SimpleString(rand_text(&mut r, 6, true)),
            _ => rand_value(&mut r, 4, true),
        };
        reply_case(&mut out, &v, "generated");
    }
    // long inputs (600..5000 bytes) with CR / LF / CRLF / frame-looking fragments at the start, in
    // the middle and within the last 1..600 bytes, in every position that can reach a reply
    {
        // a fixed family first, the same for every seed
        let mut r = Rng::for_case(0, 77);
        for (size, at) in [
            (1500usize, vec![(true, 0usize, &b"\r\n+OK"[..])]),
            (1500, vec![(true, 300, &b"\r\n"[..])]),
            (1100, vec![(true, 1, &b"\n"[..])]),
            (3000, vec![(false, 0, &b"\r\n$-1\r\n"[..]), (true, 511, &b"\r"[..])]),
            (4000, vec![(false, 2000, &b"\r\n+OK\r\n"[..])]),
            (700, vec![(true, 10, &b"\r\n+OK\r\n"[..])]),
        ] {
            let t = long_text(&mut r, size, &at);
            if args.thorough {
                long_commands(&cx, &mut out, &t, "long-fixed", None);
            } else {
                // quick: the positions whose reply is a line that echoes the input
                for k in [0, 1, 2, 5] {
                    long_commands(&cx, &mut out, &t, "long-fixed", Some(k));
                }
            }
        }
        // quick tier: sizes up to 2000 keep the case files small
        let n_long_cmd = if args.thorough { 40 } else { 30 };
        for c in 0..n_long_cmd {
            let mut r = Rng::for_case(args.seed, 6_000_000 + c);
            let size = if args.thorough { long_size(&mut r) } else { long_size(&mut r).min(r.range(1100, 2000) as usize) };
            let t = long_input(&mut r, size);
            let pick = if args.thorough { None } else { Some(r.below(6)) };
            long_commands(&cx, &mut out, &t, "long", pick);
        }
        // line-type values of those sizes straight through encode (alone and nested)
        let n_long_val = if args.thorough { 800 } else { 30 };
        for c in 0..n_long_val {
            let mut r = Rng::for_case(args.seed, 7_000_000 + c);
            let size = if args.thorough { long_size(&mut r) } else { long_size(&mut r).min(r.range(1100, 2000) as usize) };
            let text = String::from_utf8(long_input(&mut r, size)).expect("long_input keeps UTF-8");
            let line = match r.below(3) {
                0 => RespValue::SimpleString(text),
                1 => RespValue::Error(format!("ERR {}", text)),
                _ => RespValue::Error(text),
            };
            let v = if r.chance(1, 5) {
                RespValue::Array(vec![RespValue::Integer(1), RespValue::Array(vec![line, RespValue::Null])])
            } else {
                line
            };
            reply_case(&mut out, &v, "long-value");
        }
    }
    // deep replies (nested lists): beyond the decoder's own limit the independent reader decides
    for d in [1usize, 31, 32, 33, 40] {
        let mut v = RespValue::Error("e\r\n".into());
        for _ in 0..d {
            v = RespValue::Array(vec![v, RespValue::Integer(1)]);
        }
        reply_case(&mut out, &v, "deep");
    }
    out.finish();
}
