//! C16 — recovery returns exactly the acknowledged persisted state.
//!
//! Every history (tenants to register, persist_* operations, clean restarts) is executed in a
//! CHILD process (this binary re-executed) whose hook callback kills the process (SIGKILL) at the K-th
//! hook point reached (`pm.<op>.after_quota|after_wal|after_storage`), for every K in turn, plus
//! one run to the end.  The child logs one line per completed operation (acknowledged or
//! refused).  The parent then opens the directory in its own (new) process, calls `recover`
//! for every tenant of the pool, and (a) checks the property against a plain BTreeMap oracle:
//! recovered state = effect of the acknowledged operations, or that plus the operation in
//! flight; (b) prints the case for the Coq model (`Persist.check_case`), which replays the
//! history with the crash position and must predict acknowledgements and recovered state exactly.
#[path = "persist_common/mod.rs"]
mod persist_common;
use persist_common::*;
use samyama::persistence::PersistenceManager;
use std::io::Write;
use std::path::{Path, PathBuf};
use std::sync::atomic::{AtomicU64, Ordering};
use std::sync::{Arc, Mutex};
use vh::*;

struct Case {
    regs: Vec<(usize, Option<usize>, Option<usize>)>,
    ops: Vec<Op>,
}

fn gen_case(seed: u64, idx: u64) -> Case {
    if idx == 0 {
        // stored witness: an acknowledged property update must survive (lost before the repair)
        return Case {
            regs: vec![],
            ops: vec![
                Op::CreateNode { t: 0, id: 1, labels: vec![1], props: vec![(0, 0)] },
                Op::UpdateNode { t: 0, id: 1, props: vec![(0, 5), (1, 2)] },
                Op::CreateEdge { t: 0, id: 1, src: 1, tgt: 1, ty: 0, props: vec![] },
                Op::UpdateEdge { t: 0, id: 1, props: vec![(2, 3)] },
            ],
        };
    }
    if idx == 1 {
        // stored witness: data of a tenant the new process has not registered is still
        // recovered; a deletion for an unregistered tenant is refused without deleting
        return Case {
            regs: vec![(1, None, None)],
            ops: vec![
                Op::CreateNode { t: 1, id: 2, labels: vec![2], props: vec![(1, 1)] },
                Op::Reopen { regs: vec![] },
                Op::DeleteNode { t: 1, id: 2 },
                Op::UpdateNode { t: 1, id: 2, props: vec![(1, 2)] },
            ],
        };
    }
    let mut r = Rng::for_case(seed, idx);
    let regs = gen_regs(&mut r);
    let n = r.range(2, 7);
    let ops = (0..n).map(|_| gen_op(&mut r, true)).collect();
    Case { regs, ops }
}

fn open(dir: &Path) -> PersistenceManager {
    PersistenceManager::new(dir).expect("open persistence manager")
}

/// run one operation on the manager (Reopen replaces it); true = acknowledged
fn apply(pm: &mut Option<PersistenceManager>, dir: &Path, op: &Op) -> bool {
    match op {
        Op::Reopen { regs } => {
            *pm = None; // releases the RocksDB lock
            let m = open(dir);
            register(&m, regs);
            if let Ok(ts) = m.list_persisted_tenants() {
                for t in ts {
                    let _ = m.recover(&t);
                }
            }
            *pm = Some(m);
            true
        }
        _ => {
            let m = pm.as_ref().unwrap();
            let r = match op {
                Op::CreateNode { t, id, labels, props } => m.persist_create_node(TENANTS[*t], &build_node(*id, labels, props)),
                Op::CreateEdge { t, id, src, tgt, ty, props } => m.persist_create_edge(TENANTS[*t], &build_edge(*id, *src, *tgt, *ty, props)),
                Op::DeleteNode { t, id } => m.persist_delete_node(TENANTS[*t], *id),
                Op::DeleteEdge { t, id } => m.persist_delete_edge(TENANTS[*t], *id),
                Op::UpdateNode { t, id, props } => m.persist_update_node_properties(TENANTS[*t], *id, &prop_map(props)),
                Op::UpdateEdge { t, id, props } => m.persist_update_edge_properties(TENANTS[*t], *id, &prop_map(props), 0),
                Op::Reopen { .. } => unreachable!(),
            };
            r.is_ok()
        }
    }
}

static HITS: AtomicU64 = AtomicU64::new(0);

extern "C" {
    fn kill(pid: i32, sig: i32) -> i32;
    fn getpid() -> i32;
}
/// SIGKILL to ourselves: no handlers, no destructors, no flushing — a killed process
fn die() -> ! {
    unsafe {
        kill(getpid(), 9);
    }
    loop {
        std::thread::sleep(std::time::Duration::from_secs(1));
    }
}

fn child(seed: u64, spec: &str) {
    let parts: Vec<&str> = spec.splitn(3, ':').collect();
    let idx: u64 = parts[0].parse().unwrap();
    let k: u64 = parts[1].parse().unwrap();
    let dir = PathBuf::from(parts[2]);
    let case = gen_case(seed, idx);
    let log = Arc::new(Mutex::new(std::fs::File::create(dir.join("acks.log")).expect("acks.log")));
    let db = dir.join("db");
    let log2 = log.clone();
    samyama::verif_hooks::set_callback(Some(Arc::new(move |name: &str| {
        if !name.starts_with("pm.") {
            return;
        }
        let n = HITS.fetch_add(1, Ordering::SeqCst) + 1;
        if n == k {
            let _ = writeln!(log2.lock().unwrap(), "H {}", name);
            die();
        }
    })));
    let mut pm = Some(open(&db));
    register(pm.as_ref().unwrap(), &case.regs);
    for (i, op) in case.ops.iter().enumerate() {
        let ok = apply(&mut pm, &db, op);
        let _ = writeln!(log.lock().unwrap(), "A {} {}", i, if ok { "ok" } else { "err" });
    }
    let _ = writeln!(log.lock().unwrap(), "DONE {}", HITS.load(Ordering::SeqCst));
    // leave without running destructors, as a killed server would
    std::process::exit(0);
}

struct ChildRun {
    acks: Vec<bool>,
    hit: Option<String>,
    done: Option<u64>,
}

fn run_child(exe: &Path, args: &Args, idx: u64, k: u64, dir: &Path) -> ChildRun {
    let _ = std::fs::remove_dir_all(dir);
    std::fs::create_dir_all(dir).expect("mkdir run dir");
    let tmp_out = dir.join("childout");
    let _ = std::process::Command::new(exe)
        .args(["--seed", &args.seed.to_string(), "--out", tmp_out.to_str().unwrap()])
        .env("C16_CHILD", format!("{}:{}:{}", idx, k, dir.display()))
        .stdout(std::process::Stdio::null())
        .stderr(std::process::Stdio::null())
        .status();
    let text = std::fs::read_to_string(dir.join("acks.log")).unwrap_or_default();
    let mut r = ChildRun { acks: vec![], hit: None, done: None };
    for l in text.lines() {
        let f: Vec<&str> = l.split(' ').collect();
        match f[0] {
            "A" => r.acks.push(f[2] == "ok"),
            "H" => r.hit = Some(f[1].to_string()),
            "DONE" => r.done = f[1].parse().ok(),
            _ => {}
        }
    }
    r
}

fn durable_steps(hook: &str) -> Option<u64> {
    if hook.ends_with(".after_quota") {
        Some(0)
    } else if hook.ends_with(".after_wal") {
        Some(1)
    } else if hook.ends_with(".after_storage") {
        Some(2)
    } else {
        None
    }
}

fn probe() {
    // C16_PROBE=1 : the three behaviours examined on the real code
    let d = tempfile::tempdir().unwrap();
    let mut pm = Some(open(d.path()));
    register(pm.as_ref().unwrap(), &[(1, None, None)]);
    let ops = [
        Op::CreateNode { t: 0, id: 1, labels: vec![1], props: vec![(0, 0)] },
        Op::UpdateNode { t: 0, id: 1, props: vec![(0, 5)] },
        Op::CreateNode { t: 1, id: 2, labels: vec![2], props: vec![] },
    ];
    for o in &ops {
        println!("{:?} -> acknowledged={}", o, apply(&mut pm, d.path(), o));
    }
    apply(&mut pm, d.path(), &Op::Reopen { regs: vec![] });
    for (t, v) in recover_all(pm.as_ref().unwrap()) {
        println!("after restart recover({}) = {:?}", TENANTS[t], v);
    }
    let del = Op::DeleteNode { t: 1, id: 2 };
    println!("{:?} (tenant not registered in this process) -> acknowledged={}", del, apply(&mut pm, d.path(), &del));
    println!("stored node 2 of t1 afterwards: {:?}", pm.as_ref().unwrap().storage().get_node("t1", 2).map(|n| n.is_some()));
}

fn main() {
    if std::env::var("C16_PROBE").is_ok() {
        probe();
        return;
    }
    let args = parse_args();
    if let Ok(spec) = std::env::var("C16_CHILD") {
        child(args.seed, &spec);
        return;
    }
    let exe = std::env::current_exe().expect("exe");
    let mut out = Out::new(&args, "From Verif Require Import Persist.", "Persist.case", "Persist.check_case", if args.thorough { 70 } else { 100 });
    out.rule = "histories of 2..7 persist_* operations (create/delete/update of nodes and relationships over 3 tenants, \
                ids 1..4 so that overwrites, deletions and updates of present entities are frequent, quotas 1..3 or none) \
                and clean restarts, plus two stored witnesses; each history is run in a child process once to the end and \
                once per hook point reached (the child is killed there with SIGKILL); the parent recovers every tenant in a new process. \
                One case = (history, crash position). Non-trivial = the history has a crash or an update; distinct by case text."
        .to_string();
    let nh: u64 = if args.thorough { 120 } else { 16 };
    let run_dir = args.out.join(".c16-run");
    for idx in 0..nh {
        let case = gen_case(args.seed, idx);
        let full = run_child(&exe, &args, idx, 0, &run_dir);
        let total = full.done.unwrap_or(0);
        for k in 0..=total {
            let ci = out.next_index();
            if !out.wants(ci) {
                out.skip();
                continue;
            }
            let cr = if k == 0 { ChildRun { acks: full.acks.clone(), hit: None, done: full.done } } else { run_child(&exe, &args, idx, k, &run_dir) };
            let human = format!("history {} crash_at_hit {} regs={:?} ops={:?}", idx, k, case.regs, case.ops);
            let mut bad: Vec<String> = Vec::new();
            // new process on the same directory
            let pm = open(&run_dir.join("db"));
            let rec = recover_all(&pm);
            drop(pm);
            let completed = cr.acks.len();
            let crash: Option<(usize, u64)> = match (&cr.hit, k) {
                (_, 0) => {
                    if cr.done.is_none() || completed != case.ops.len() {
                        bad.push(format!("the uninterrupted run did not finish: {} of {} operations logged", completed, case.ops.len()));
                    }
                    None
                }
                (Some(h), _) => match durable_steps(h) {
                    Some(d) => Some((completed, d)),
                    None => {
                        bad.push(format!("unknown hook point {}", h));
                        None
                    }
                },
                (None, _) => {
                    bad.push(format!("child for hit {} ended without reaching it", k));
                    None
                }
            };
            // ---- the property on the implementation
            let mut g0 = Graph::default();
            for (i, a) in cr.acks.iter().enumerate() {
                if *a {
                    g0.apply(&case.ops[i]);
                }
            }
            let mut g1 = g0.clone();
            if crash.is_some() && completed < case.ops.len() {
                g1.apply(&case.ops[completed]);
            }
            let mut all_ok = true;
            let views: Vec<Option<View>> = rec
                .iter()
                .map(|(t, v)| match v {
                    Ok(v) => Some(v.clone()),
                    Err(e) => {
                        all_ok = false;
                        bad.push(format!("recover({:?}) failed in the new process: {}", TENANTS[*t], e));
                        None
                    }
                })
                .collect();
            if all_ok {
                let is = |g: &Graph| (0..TENANTS.len()).all(|t| views[t].as_ref() == Some(&g.view(t)));
                if is(&g0) {
                    out.count("recovered_without_inflight");
                } else if is(&g1) {
                    out.count("recovered_with_inflight");
                } else {
                    bad.push(format!(
                        "recovered {:?}; acknowledged operations give {:?}{}",
                        views,
                        (0..TENANTS.len()).map(|t| g0.view(t)).collect::<Vec<_>>(),
                        if crash.is_some() { format!(", with the one in flight {:?}", (0..TENANTS.len()).map(|t| g1.view(t)).collect::<Vec<_>>()) } else { String::new() }
                    ));
                }
            }
            // ---- distribution
            if crash.is_some() {
                out.count("crash_cases");
                if let Some((_, d)) = crash {
                    out.count(&format!("crash_after_{}_durable_steps", d));
                }
            } else {
                out.count("complete_runs");
            }
            let acked_updates = cr.acks.iter().enumerate().filter(|(i, a)| **a && matches!(case.ops[*i], Op::UpdateNode { .. } | Op::UpdateEdge { .. })).count();
            if acked_updates > 0 {
                out.count("with_acknowledged_update");
            }
            if cr.acks.iter().any(|a| !*a) {
                out.count("with_refused_operation");
            }
            if case.ops[..completed].iter().any(|o| matches!(o, Op::Reopen { .. })) {
                out.count("with_restart_before");
            }
            if views.iter().skip(1).any(|v| v.as_ref().map_or(false, |v| !v.0.is_empty() || !v.1.is_empty())) {
                out.count("unregistered_tenant_recovered");
            }
            let term = format!(
                "({}, {}, {}, {}, {})",
                g_regs(&case.regs),
                g_list(case.ops.iter().map(g_pop)),
                g_opt(crash.map(|(i, d)| format!("({}, {})", i, d))),
                g_list(cr.acks.iter().map(|a| g_bool(*a).to_string())),
                g_list(rec.iter().map(|(t, v)| format!("({}, {})", t, g_opt(v.as_ref().ok().map(g_view)))))
            );
            let i = out.case(term, human.clone(), crash.is_some() || acked_updates > 0);
            if !bad.is_empty() {
                out.fail(i, &human, &bad.join(" | "), None);
            }
        }
    }
    let _ = std::fs::remove_dir_all(&run_dir);
    out.finish();
}
