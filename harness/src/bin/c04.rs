//! C04 — write statements have exactly their openCypher effect.
//!
//! Random small graphs x sequences of generated write statements run through
//! `QueryEngine::execute_mut`; after every statement the full graph (nodes with label sets and
//! row+column properties, relationships with endpoints, type, properties) and the returned rows
//! are embedded in a case together with the graph before it; coqc decides whether they are what
//! the reference semantics (coq/model/CypherWrite.v, exec_stmt) defines, up to a renaming of the
//! ids created by the statement. The property's own predicates (MERGE creates no second match,
//! non-DETACH DELETE of a connected node is refused and changes nothing, no dangling
//! relationship) are evaluated here directly on the implementation.
#[path = "../cygen.rs"]
mod cygen;
use cygen::*;
use samyama::graph::GraphStore;
use samyama::query::QueryEngine;
use std::collections::{BTreeMap, BTreeSet};
use vh::*;

// ---------------------------------------------------------------- statements
#[derive(Clone, Debug)]
enum SetItem {
    Prop(u32, u32, Expr),
    MapAdd(u32, Vec<(u32, Expr)>),
    Labels(u32, Vec<u32>),
}
#[derive(Clone, Debug)]
enum RemItem {
    Prop(u32, u32),
    Labels(u32, Vec<u32>),
}
#[derive(Clone, Debug)]
struct CRel {
    var: Option<u32>,
    ty: u32,
    out: bool,
    props: Vec<(u32, Expr)>,
}
#[derive(Clone, Debug)]
struct CPath {
    start: NPat,
    segs: Vec<(CRel, NPat)>,
}
#[derive(Clone, Debug)]
enum Upd {
    Create(Vec<CPath>),
    Merge(CPath, Vec<SetItem>, Vec<SetItem>),
    Set(Vec<SetItem>),
    Remove(Vec<RemItem>),
    Delete(bool, Vec<u32>),
}
#[derive(Clone, Debug)]
struct Stmt {
    reads: Vec<Clause>,
    updates: Vec<Upd>,
    ret: Option<Proj>,
    /// generator's name for the statement's shape (distribution, known classes)
    shape: &'static str,
    /// what openCypher defines for a generated multi-variable DELETE: (refused?, surviving node ids, surviving rel ids)
    expect: Option<(bool, BTreeSet<u64>, BTreeSet<u64>)>,
    /// generator-health tags
    tags: Vec<&'static str>,
}

fn to_path(p: &CPath) -> Path {
    Path {
        start: p.start.clone(),
        segs: p
            .segs
            .iter()
            .map(|(r, n)| {
                (RPat { var: r.var, types: vec![r.ty], dir: if r.out { 0 } else { 1 }, props: r.props.clone(), len: None }, n.clone())
            })
            .collect(),
    }
}

fn render_set(it: &SetItem) -> String {
    match it {
        SetItem::Prop(x, k, e) => format!("{}.{} = {}", var_name(*x), key_name(*k), render_expr(e)),
        SetItem::MapAdd(x, kvs) => format!(
            "{} += {{{}}}",
            var_name(*x),
            kvs.iter().map(|(k, e)| format!("{}: {}", key_name(*k), render_expr(e))).collect::<Vec<_>>().join(", ")
        ),
        SetItem::Labels(x, ls) => format!("{}{}", var_name(*x), ls.iter().map(|l| format!(":{}", label_name(*l))).collect::<String>()),
    }
}

fn render_upd(u: &Upd) -> String {
    match u {
        Upd::Create(ps) => format!("CREATE {}", ps.iter().map(|p| render_path(&to_path(p))).collect::<Vec<_>>().join(", ")),
        Upd::Merge(p, oc, om) => {
            let mut s = format!("MERGE {}", render_path(&to_path(p)));
            if !oc.is_empty() {
                s.push_str(&format!(" ON CREATE SET {}", oc.iter().map(render_set).collect::<Vec<_>>().join(", ")));
            }
            if !om.is_empty() {
                s.push_str(&format!(" ON MATCH SET {}", om.iter().map(render_set).collect::<Vec<_>>().join(", ")));
            }
            s
        }
        Upd::Set(items) => format!("SET {}", items.iter().map(render_set).collect::<Vec<_>>().join(", ")),
        Upd::Remove(items) => format!(
            "REMOVE {}",
            items
                .iter()
                .map(|it| match it {
                    RemItem::Prop(x, k) => format!("{}.{}", var_name(*x), key_name(*k)),
                    RemItem::Labels(x, ls) => {
                        format!("{}{}", var_name(*x), ls.iter().map(|l| format!(":{}", label_name(*l))).collect::<String>())
                    }
                })
                .collect::<Vec<_>>()
                .join(", ")
        ),
        Upd::Delete(d, xs) => {
            format!("{}DELETE {}", if *d { "DETACH " } else { "" }, xs.iter().map(|x| var_name(*x)).collect::<Vec<_>>().join(", "))
        }
    }
}

fn dummy_ret() -> Proj {
    Proj { distinct: false, items: vec![(Item::Expr(Expr::Lit(Val::Int(1))), 90)], order: vec![], skip: None, limit: None }
}

fn render_stmt(s: &Stmt) -> String {
    let sq = SQuery { clauses: s.reads.clone(), ret: s.ret.clone().unwrap_or_else(dummy_ret) };
    let t = render_squery(&sq);
    let cut = t.rfind("RETURN ").unwrap();
    let mut out = t[..cut].to_string();
    for u in &s.updates {
        out.push_str(&render_upd(u));
        out.push(' ');
    }
    if s.ret.is_some() {
        out.push_str(&t[cut..]);
    }
    out.trim().to_string()
}

fn g_u32s(l: &[u32]) -> String {
    g_list(l.iter().map(|x| x.to_string()))
}
fn g_eprops(ps: &[(u32, Expr)]) -> String {
    g_list(ps.iter().map(|(k, e)| format!("({}, {})", k, g_expr(e))))
}
fn g_npat(n: &NPat) -> String {
    format!("(NP {} {} {})", g_opt(n.var.map(|x| x.to_string())), g_u32s(&n.labels), g_eprops(&n.props))
}
fn g_cpath(p: &CPath) -> String {
    format!(
        "({}, {})",
        g_npat(&p.start),
        g_list(p.segs.iter().map(|(r, n)| format!(
            "(CR {} {} {} {}, {})",
            g_opt(r.var.map(|x| x.to_string())),
            r.ty,
            g_bool(r.out),
            g_eprops(&r.props),
            g_npat(n)
        )))
    )
}
fn g_set(it: &SetItem) -> String {
    match it {
        SetItem::Prop(x, k, e) => format!("SetProp {} {} {}", x, k, g_expr(e)),
        SetItem::MapAdd(x, kvs) => format!("SetMap {} {}", x, g_eprops(kvs)),
        SetItem::Labels(x, ls) => format!("SetLabels {} {}", x, g_u32s(ls)),
    }
}
fn g_upd(u: &Upd) -> String {
    match u {
        Upd::Create(ps) => format!("UCreate {}", g_list(ps.iter().map(g_cpath))),
        Upd::Merge(p, oc, om) => format!("UMerge {} {} {}", g_cpath(p), g_list(oc.iter().map(g_set)), g_list(om.iter().map(g_set))),
        Upd::Set(items) => format!("USet {}", g_list(items.iter().map(g_set))),
        Upd::Remove(items) => format!(
            "URemove {}",
            g_list(items.iter().map(|it| match it {
                RemItem::Prop(x, k) => format!("RemProp {} {}", x, k),
                RemItem::Labels(x, ls) => format!("RemLabels {} {}", x, g_u32s(ls)),
            }))
        ),
        Upd::Delete(d, xs) => format!("UDelete {} {}", g_bool(*d), g_u32s(xs)),
    }
}
/// `mk_stmt (Q [SQ reads ret] false) has_ret updates`
fn g_stmt(s: &Stmt) -> String {
    let q = Query { parts: vec![SQuery { clauses: s.reads.clone(), ret: s.ret.clone().unwrap_or_else(dummy_ret) }], all: false };
    format!("(mk_stmt {} {} {})", g_query(&q), g_bool(s.ret.is_some()), g_list(s.updates.iter().map(g_upd)))
}

// ---------------------------------------------------------------- engine side
fn parse_name(s: &str, first: u8) -> Option<u32> {
    let b = s.as_bytes();
    if b.len() == 1 && b[0] >= first && b[0] < first + 8 {
        Some((b[0] - first) as u32)
    } else {
        None
    }
}
fn parse_key(s: &str) -> Option<u32> {
    s.strip_prefix('p').and_then(|x| x.parse().ok())
}

/// Full dump of the store; `None`-valued pieces (names outside the generator's vocabulary) are
/// rendered so that they can never equal a model value.
fn dump(store: &GraphStore) -> Graph {
    let mut g = Graph::default();
    let mut seen = BTreeSet::new();
    let mut nodes: Vec<_> = store.all_nodes();
    nodes.sort_by_key(|n| n.id.as_u64());
    for n in nodes {
        if !seen.insert(n.id.as_u64()) {
            continue;
        }
        let mut labels: Vec<u32> = n.labels.iter().map(|l| parse_name(l.as_str(), b'A').unwrap_or(99)).collect();
        labels.sort();
        labels.dedup();
        let mut props: Vec<(u32, Val)> =
            store.node_properties_full(n.id).iter().map(|(k, v)| (parse_key(k).unwrap_or(99), from_pv(v))).collect();
        props.sort_by_key(|p| p.0);
        g.nodes.push(GNode { id: n.id.as_u64(), labels, props });
        for e in store.get_outgoing_edges(n.id) {
            let mut props: Vec<(u32, Val)> = e.properties.iter().map(|(k, v)| (parse_key(k).unwrap_or(99), from_pv(v))).collect();
            props.sort_by_key(|p| p.0);
            g.rels.push(GRel {
                id: e.id.as_u64(),
                src: e.source.as_u64(),
                tgt: e.target.as_u64(),
                ty: parse_name(e.edge_type.as_str(), b'R').unwrap_or(99),
                props,
            });
        }
    }
    g.rels.sort_by_key(|r| r.id);
    g
}

enum WObs {
    Ok(Vec<Vec<Val>>),
    Err(String),
    Panic(String),
}

fn run_stmt(engine: &QueryEngine, store: &mut GraphStore, text: &str) -> WObs {
    let r = catch(std::panic::AssertUnwindSafe(|| engine.execute_mut(text, store, "default").map_err(|e| e.to_string())));
    match r {
        Err(p) => WObs::Panic(p),
        Ok(Err(e)) => WObs::Err(e),
        Ok(Ok(b)) => WObs::Ok(
            b.records
                .iter()
                .map(|rec| b.columns.iter().map(|c| rec.get(c).map(from_value).unwrap_or(Val::Other("missing column".into()))).collect())
                .collect(),
        ),
    }
}

fn g_rows(rows: &[Vec<Val>]) -> String {
    g_list(rows.iter().map(|r| g_list(r.iter().map(g_val))))
}

// ---------------------------------------------------------------- the property's own predicates
fn props_match(n: &GNode, want: &[(u32, Val)]) -> bool {
    want.iter().all(|(k, v)| n.props.iter().any(|(k2, v2)| k2 == k && v2 == v))
}

fn lit_props(ps: &[(u32, Expr)]) -> Option<Vec<(u32, Val)>> {
    ps.iter().map(|(k, e)| if let Expr::Lit(v) = e { Some((*k, v.clone())) } else { None }).collect()
}

/// Returns (violation text, known class)
fn judge(before: &Graph, after: &Graph, s: &Stmt, obs: &WObs) -> Option<(String, Option<&'static str>)> {
    if let WObs::Panic(p) = obs {
        return Some((format!("the engine panicked: {}", p), None));
    }
    // no relationship without its endpoints, ids unique
    let ids: BTreeSet<u64> = after.nodes.iter().map(|n| n.id).collect();
    for r in &after.rels {
        if !ids.contains(&r.src) || !ids.contains(&r.tgt) {
            return Some((format!("relationship {} has a missing endpoint after the statement", r.id), None));
        }
    }
    // a stored null is not a property
    for n in &after.nodes {
        if n.props.iter().any(|(_, v)| *v == Val::Null) && !before.nodes.iter().any(|m| m.id == n.id && m.props == n.props) {
            return Some((format!("node {} holds a property whose value is null", n.id), Some("null_stored")));
        }
    }
    // MERGE of a single node pattern with literal properties and no reading clause
    if let (true, [Upd::Merge(p, _, _)]) = (s.reads.is_empty(), &s.updates[..]) {
        if p.segs.is_empty() {
            if let Some(want) = lit_props(&p.start.props) {
                if !want.iter().any(|(_, v)| *v == Val::Null) {
                    let m = |g: &Graph| {
                        g.nodes.iter().filter(|n| p.start.labels.iter().all(|l| n.labels.contains(l)) && props_match(n, &want)).count()
                    };
                    let b = m(before);
                    if matches!(obs, WObs::Ok(_)) {
                        // (ON MATCH / ON CREATE SET may rewrite the very properties the pattern names,
                        // so the judgement is on the number of nodes)
                        if b >= 1 && after.nodes.len() != before.nodes.len() {
                            return Some((format!("MERGE created a node although {} node(s) already matched its pattern", b), None));
                        }
                        if b == 0 && after.nodes.len() != before.nodes.len() + 1 {
                            return Some((
                                format!("MERGE found no match and the graph went from {} to {} nodes", before.nodes.len(), after.nodes.len()),
                                None,
                            ));
                        }
                        if let WObs::Ok(rows) = obs {
                            if s.ret.is_some() && s.shape != "merge_many_matches" && rows.len() != b.max(1) {
                                return Some((
                                    format!("MERGE matched {} node(s) but returned {} row(s)", b, rows.len()),
                                    Some("merge_binds_first_match"),
                                ));
                            }
                        }
                    }
                }
            }
        }
    }
    // a generated multi-variable DELETE: exactly what the statement as a whole defines
    if let Some((refused, nodes, rels)) = &s.expect {
        let got_n: BTreeSet<u64> = after.nodes.iter().map(|n| n.id).collect();
        let got_r: BTreeSet<u64> = after.rels.iter().map(|r| r.id).collect();
        let is_err = matches!(obs, WObs::Err(_));
        if is_err != *refused || got_n != *nodes || got_r != *rels {
            return Some((
                format!(
                    "DELETE: openCypher {} and leaves nodes {:?}, relationships {:?}; the engine {} and left nodes {:?}, relationships {:?}",
                    if *refused { "refuses the statement" } else { "deletes what is named" },
                    nodes,
                    rels,
                    if is_err { "refused it" } else { "answered Ok" },
                    got_n,
                    got_r
                ),
                None,
            ));
        }
    }
    // DELETE without DETACH of a node that keeps a relationship must be refused, nothing changed
    if let [Upd::Delete(false, xs)] = &s.updates[..] {
        if xs.len() == 1 {
            let gone: Vec<u64> = before.nodes.iter().map(|n| n.id).filter(|i| !ids.contains(i)).collect();
            let connected = |i: u64| before.rels.iter().any(|r| r.src == i || r.tgt == i);
            if gone.iter().any(|i| connected(*i)) {
                return Some((
                    format!("DELETE without DETACH removed connected node(s) {:?} and their relationships", gone),
                    None,
                ));
            }
        }
    }
    None
}

// ---------------------------------------------------------------- generator
fn lit(v: Val) -> Expr {
    Expr::Lit(v)
}
fn small_lit(r: &mut Rng, k: u32) -> Val {
    match k {
        0 => Val::Int(r.range(0, 3) as i64),
        1 => Val::Str(r.pick(&["a", "b", "ab"]).to_string()),
        2 => Val::Bool(r.chance(1, 2)),
        _ => Val::List(vec![Val::Int(r.range(0, 2) as i64)]),
    }
}
fn some_labels(r: &mut Rng, min: u64) -> Vec<u32> {
    let n = r.range(min, 2);
    let mut s = BTreeSet::new();
    for _ in 0..n {
        s.insert(r.below(4) as u32);
    }
    s.into_iter().collect()
}
fn lit_npat(r: &mut Rng, var: Option<u32>, min_labels: u64) -> NPat {
    let mut props = Vec::new();
    for k in 0..3u32 {
        if r.chance(2, 5) {
            props.push((k, lit(small_lit(r, k))));
        }
    }
    NPat { var, labels: some_labels(r, min_labels), props }
}
fn bare(var: u32) -> NPat {
    NPat { var: Some(var), labels: vec![], props: vec![] }
}
fn ret_props(vars: &[u32]) -> Proj {
    let mut items = Vec::new();
    for (i, v) in vars.iter().enumerate() {
        items.push((Item::Expr(Expr::Prop(*v, 0)), 80 + 2 * i as u32));
        items.push((Item::Expr(Expr::Prop(*v, 1)), 81 + 2 * i as u32));
    }
    Proj { distinct: false, items, order: vec![], skip: None, limit: None }
}
fn ret_count() -> Proj {
    // one constant row per binding (aggregates are not available after a write clause)
    Proj { distinct: false, items: vec![(Item::Expr(Expr::Lit(Val::Int(1))), 80)], order: vec![], skip: None, limit: None }
}
fn count_matches(g: &Graph, np: &NPat) -> usize {
    match lit_props(&np.props) {
        Some(want) => g.nodes.iter().filter(|n| np.labels.iter().all(|l| n.labels.contains(l)) && props_match(n, &want)).count(),
        None => 0,
    }
}
fn match_one(var: u32, id: u64) -> Clause {
    Clause::Match {
        opt: false,
        pats: vec![Path { start: bare(var), segs: vec![] }],
        wher: Some(Expr::Cmp(CmpOp::Eq, Box::new(Expr::Fn(Func::Id, vec![Expr::Var(var)])), Box::new(lit(Val::Int(id as i64))))),
    }
}
fn match_label(var: u32, l: Option<u32>) -> Clause {
    Clause::Match {
        opt: false,
        pats: vec![Path { start: NPat { var: Some(var), labels: l.into_iter().collect(), props: vec![] }, segs: vec![] }],
        wher: None,
    }
}

// ---------------------------------------------------------------- multi-variable DELETE
/// One row of `MATCH (v0)-[v2]->(v1) [MATCH (v3)]`: (a, r, b, extra)
type DRow = (u64, u64, u64, Option<u64>);

fn permutations<T: Clone>(l: &[T]) -> Vec<Vec<T>> {
    if l.len() <= 1 {
        return vec![l.to_vec()];
    }
    let mut out = Vec::new();
    for i in 0..l.len() {
        let mut rest = l.to_vec();
        let x = rest.remove(i);
        for mut p in permutations(&rest) {
            p.insert(0, x.clone());
            out.push(p);
        }
    }
    out
}

fn named(row: &DRow, vars: &[u32]) -> (Vec<u64>, Vec<u64>) {
    let (mut nodes, mut rels) = (Vec::new(), Vec::new());
    for v in vars {
        match v {
            0 => nodes.push(row.0),
            1 => nodes.push(row.2),
            2 => rels.push(row.1),
            _ => {
                if let Some(u) = row.3 {
                    nodes.push(u)
                }
            }
        }
    }
    (nodes, rels)
}

/// openCypher: everything named is deleted; refused (nothing changes) when a deleted node keeps a relationship
fn delete_statement_level(g: &Graph, rows: &[DRow], vars: &[u32]) -> (bool, BTreeSet<u64>, BTreeSet<u64>) {
    let mut nodes: BTreeSet<u64> = g.nodes.iter().map(|n| n.id).collect();
    let mut rels: BTreeSet<u64> = g.rels.iter().map(|r| r.id).collect();
    let all = (nodes.clone(), rels.clone());
    for row in rows {
        let (ns, rs) = named(row, vars);
        for r in rs {
            rels.remove(&r);
        }
        for n in ns {
            nodes.remove(&n);
        }
    }
    let dangling = g.rels.iter().any(|r| rels.contains(&r.id) && (!nodes.contains(&r.src) || !nodes.contains(&r.tgt)));
    if dangling {
        (true, all.0, all.1)
    } else {
        (false, nodes, rels)
    }
}

/// the engine's row-at-a-time DELETE (named relationships of the row, then the guard on the row's nodes,
/// then the nodes), for one row order: (refused?, surviving nodes, surviving rels)
fn delete_row_at_a_time(g: &Graph, rows: &[DRow], vars: &[u32]) -> (bool, BTreeSet<u64>, BTreeSet<u64>) {
    let mut nodes: BTreeSet<u64> = g.nodes.iter().map(|n| n.id).collect();
    let mut rels: BTreeSet<u64> = g.rels.iter().map(|r| r.id).collect();
    for row in rows {
        let (ns, rs) = named(row, vars);
        for r in rs {
            rels.remove(&r);
        }
        for n in &ns {
            if nodes.contains(n) && g.rels.iter().any(|r| rels.contains(&r.id) && (r.src == *n || r.tgt == *n)) {
                return (true, nodes, rels);
            }
        }
        for n in ns {
            nodes.remove(&n);
        }
    }
    (false, nodes, rels)
}

fn gen_delete_multi(r: &mut Rng, g: &Graph) -> Option<Stmt> {
    if g.rels.is_empty() {
        return None;
    }
    let e = r.pick(&g.rels).clone();
    let rpat = |types: Vec<u32>| Path {
        start: bare(0),
        segs: vec![(RPat { var: Some(2), types, dir: 0, props: vec![], len: None }, bare(1))],
    };
    let ideq = |f: Expr, i: u64| Expr::Cmp(CmpOp::Eq, Box::new(Expr::Fn(Func::Id, vec![f])), Box::new(lit(Val::Int(i as i64))));
    // which relationships the MATCH produces
    let (clause, matched): (Clause, Vec<&GRel>) = match r.below(4) {
        0 | 1 => (Clause::Match { opt: false, pats: vec![rpat(vec![])], wher: Some(ideq(Expr::Var(2), e.id)) }, g.rels.iter().filter(|x| x.id == e.id).collect()),
        2 => (Clause::Match { opt: false, pats: vec![rpat(vec![])], wher: Some(ideq(Expr::Var(0), e.src)) }, g.rels.iter().filter(|x| x.src == e.src).collect()),
        _ => (Clause::Match { opt: false, pats: vec![rpat(vec![e.ty])], wher: None }, g.rels.iter().filter(|x| x.ty == e.ty).collect()),
    };
    let isolated: Vec<u64> = g.nodes.iter().map(|n| n.id).filter(|i| !g.rels.iter().any(|x| x.src == *i || x.tgt == *i)).collect();
    let extra = if r.chance(1, 3) {
        Some(if !isolated.is_empty() && r.chance(3, 4) { *r.pick(&isolated) } else { r.pick(&g.nodes).id })
    } else {
        None
    };
    let mut reads = vec![clause];
    if let Some(u) = extra {
        reads.push(match_one(3, u));
    }
    let rows: Vec<DRow> = matched.iter().map(|x| (x.src, x.id, x.tgt, extra)).collect();
    let lists: Vec<Vec<u32>> = if extra.is_some() {
        vec![vec![3, 0], vec![0, 3], vec![3, 0, 2], vec![0, 3, 2], vec![3, 2, 0], vec![3, 1, 2, 0], vec![2, 3], vec![3, 3], vec![3, 1]]
    } else {
        vec![
            vec![0, 2], vec![2, 0], vec![1, 2], vec![2, 1], vec![0, 1, 2], vec![0, 2, 1], vec![1, 0, 2], vec![1, 2, 0], vec![2, 0, 1],
            vec![2, 1, 0], vec![0, 1], vec![1, 0], vec![0, 0], vec![0, 2, 0], vec![2, 2], vec![2, 0, 2],
        ]
    };
    let vars = r.pick(&lists).clone();
    let want = delete_statement_level(g, &rows, &vars);
    // the engine decides row by row (known finding delete_guard_per_row): keep to statements on which
    // every row order gives what the statement as a whole defines
    let orders: Vec<Vec<DRow>> = if rows.len() <= 4 { permutations(&rows) } else { vec![rows.clone(), rows.iter().rev().cloned().collect()] };
    if orders.iter().any(|o| delete_row_at_a_time(g, o, &vars) != want) {
        return None;
    }
    let mut tags = vec![];
    if vars.len() >= 2 {
        tags.push("delete_multi_var");
    }
    if rows.len() >= 2 {
        tags.push("delete_multi_row");
    }
    let pos = |v: u32| vars.iter().position(|x| *x == v);
    if let Some(pr) = pos(2) {
        if [0u32, 1].iter().any(|n| pos(*n).map_or(false, |pn| pn < pr)) {
            tags.push("delete_node_before_its_rel");
        } else if pos(0).is_some() || pos(1).is_some() {
            tags.push("delete_rel_before_its_node");
        }
    }
    if pos(0).is_some() && pos(1).is_some() && pos(2).is_some() {
        tags.push("delete_both_endpoints_and_rel");
    }
    let mut d = vars.clone();
    d.sort();
    d.dedup();
    if d.len() < vars.len() {
        tags.push("delete_duplicate_var");
    }
    if extra.is_some() {
        tags.push("delete_with_other_node");
    }
    if want.0 && vars.len() >= 2 && !rows.is_empty() {
        tags.push("delete_refused_multi_var");
    }
    if !want.0 && vars.len() >= 2 && !rows.is_empty() && vars.iter().any(|v| *v != 2) {
        tags.push("delete_nodes_multi_var_ok");
    }
    Some(Stmt { reads, updates: vec![Upd::Delete(false, vars)], ret: None, shape: "delete_multi", expect: Some(want), tags })
}

fn gen_stmt(r: &mut Rng, g: &Graph) -> Stmt {
    let node = |r: &mut Rng| if g.nodes.is_empty() { 0 } else { r.pick(&g.nodes).id };
    let some_label = |r: &mut Rng| -> Option<u32> {
        let ls: Vec<u32> = g.nodes.iter().flat_map(|n| n.labels.clone()).collect();
        if ls.is_empty() || r.chance(1, 5) {
            None
        } else {
            Some(*r.pick(&ls))
        }
    };
    let with_ret = r.chance(1, 2);
    match r.below(31) {
        24..=30 => match gen_delete_multi(r, g) {
            Some(s) => s,
            None => gen_stmt(r, g),
        },
        0 => {
            let mut np = lit_npat(r, Some(0), 0);
            let null = r.chance(1, 6);
            if null {
                np.props.push((3, lit(Val::Null)));
            }
            Stmt {
                reads: vec![],
                updates: vec![Upd::Create(vec![CPath { start: np, segs: vec![] }])],
                ret: if with_ret { Some(ret_props(&[0])) } else { None },
                shape: if null { "create_null" } else { "create_node" }, expect: None, tags: vec![]
            }
        }
        1 => {
            let rel = CRel { var: None, ty: r.below(3) as u32, out: r.chance(2, 3), props: if r.chance(1, 3) { vec![(0, lit(small_lit(r, 0)))] } else { vec![] } };
            Stmt {
                reads: vec![],
                updates: vec![Upd::Create(vec![CPath { start: lit_npat(r, Some(0), 0), segs: vec![(rel, lit_npat(r, Some(1), 0))] }])],
                ret: None,
                shape: "create_path", expect: None, tags: vec![]
            }
        }
        2 => {
            let (a, b) = (node(r), node(r));
            let rel = CRel { var: None, ty: r.below(3) as u32, out: r.chance(2, 3), props: if r.chance(1, 3) { vec![(0, lit(small_lit(r, 0)))] } else { vec![] } };
            Stmt {
                reads: vec![match_one(0, a), match_one(1, b)],
                updates: vec![Upd::Create(vec![CPath { start: bare(0), segs: vec![(rel, bare(1))] }])],
                ret: None,
                shape: "match_create_rel", expect: None, tags: vec![]
            }
        }
        3 => Stmt {
            reads: vec![Clause::Unwind(Expr::List(vec![lit(Val::Int(1)), lit(Val::Int(2))]), 5)],
            updates: vec![Upd::Create(vec![CPath {
                start: NPat { var: Some(0), labels: some_labels(r, 0), props: vec![(0, Expr::Var(5))] },
                segs: vec![],
            }])],
            ret: None,
            shape: "unwind_create", expect: None, tags: vec![]
        },
        4 | 5 => {
            // MERGE of a node pattern; often aimed at an existing node so that it matches
            let mut np = lit_npat(r, Some(0), 1);
            if !g.nodes.is_empty() && r.chance(2, 3) {
                let n = r.pick(&g.nodes);
                np.labels = n.labels.iter().take(r.range(1, 2) as usize).cloned().collect();
                np.props = n.props.iter().filter(|(_, v)| !matches!(v, Val::List(_) | Val::Null)).take(r.range(0, 2) as usize).map(|(k, v)| (*k, lit(v.clone()))).collect();
            }
            let multi = np.labels.len() > 1;
            let oc = if r.chance(1, 3) { vec![SetItem::Prop(0, 2, lit(Val::Bool(true)))] } else { vec![] };
            let mut om = if r.chance(1, 3) { vec![SetItem::Prop(0, 1, lit(Val::Str("m".into())))] } else { vec![] };
            let many = count_matches(g, &np) > 1;
            if many {
                // the engine binds one of the matches (known finding): nothing may depend on which
                om.clear();
            }
            Stmt {
                reads: vec![],
                updates: vec![Upd::Merge(CPath { start: np.clone(), segs: vec![] }, oc, om)],
                ret: if many { Some(ret_count()) } else if with_ret { Some(ret_props(&[0])) } else { None },
                shape: if many { "merge_many_matches" } else if np.labels.is_empty() { "merge_no_label" } else if multi { "merge_multi_label" } else { "merge_node" }, expect: None, tags: vec![]
            }
        }
        6 => {
            // label-less MERGE
            let mut np = lit_npat(r, Some(0), 0);
            np.labels.clear();
            if !g.nodes.is_empty() && r.chance(2, 3) {
                let n = r.pick(&g.nodes);
                np.props = n.props.iter().filter(|(_, v)| !matches!(v, Val::List(_) | Val::Null)).take(1).map(|(k, v)| (*k, lit(v.clone()))).collect();
            }
            if np.props.is_empty() {
                np.props.push((0, lit(Val::Int(1))));
            }
            let many = count_matches(g, &np) > 1;
            Stmt {
                reads: vec![],
                updates: vec![Upd::Merge(CPath { start: np, segs: vec![] }, vec![], vec![])],
                ret: if many { Some(ret_count()) } else if with_ret { Some(ret_props(&[0])) } else { None },
                shape: if many { "merge_many_matches" } else { "merge_no_label" }, expect: None, tags: vec![]
            }
        }
        7 => Stmt {
            reads: vec![Clause::Unwind(Expr::List(vec![lit(Val::Int(7)), lit(Val::Int(7)), lit(Val::Int(8))]), 5)],
            updates: vec![Upd::Merge(
                CPath { start: NPat { var: Some(0), labels: vec![r.below(4) as u32], props: vec![(0, Expr::Var(5))] }, segs: vec![] },
                vec![],
                vec![],
            )],
            ret: None,
            shape: "unwind_merge", expect: None, tags: vec![]
        },
        8 => {
            let (a, b) = (node(r), node(r));
            let rel = CRel { var: Some(2), ty: r.below(3) as u32, out: true, props: vec![] };
            Stmt {
                reads: vec![match_one(0, a), match_one(1, b)],
                updates: vec![Upd::Merge(CPath { start: bare(0), segs: vec![(rel, bare(1))] }, vec![], vec![])],
                ret: None,
                shape: "merge_rel_bound", expect: None, tags: vec![]
            }
        }
        9 => {
            let rel = CRel { var: None, ty: r.below(3) as u32, out: true, props: vec![] };
            let (a, b) = (lit_npat(r, Some(0), 1), lit_npat(r, Some(1), 1));
            // the engine never binds two pattern positions to one node (known finding
            // merge_path_node_injective): keep away from graphs where a self-loop is a match
            let fits = |n: &GNode, np: &NPat| {
                np.labels.iter().all(|l| n.labels.contains(l)) && lit_props(&np.props).map_or(false, |w| props_match(n, &w))
            };
            if g.rels.iter().any(|e| e.src == e.tgt && e.ty == rel.ty && g.nodes.iter().any(|n| n.id == e.src && fits(n, &a) && fits(n, &b))) {
                return gen_stmt(r, g);
            }
            Stmt { reads: vec![], updates: vec![Upd::Merge(CPath { start: a, segs: vec![(rel, b)] }, vec![], vec![])], ret: None, shape: "merge_path", expect: None, tags: vec![] }
        }
        10 | 11 => {
            let k = r.below(3) as u32;
            let rhs = match r.below(6) {
                0 => lit(Val::Null),
                1 => Expr::Arith(ArOp::Add, Box::new(Expr::Fn(Func::Coalesce, vec![Expr::Prop(0, 0), lit(Val::Int(0))])), Box::new(lit(Val::Int(1)))),
                _ => lit(small_lit(r, k)),
            };
            let null = matches!(rhs, Expr::Lit(Val::Null));
            Stmt {
                reads: vec![match_one(0, node(r))],
                updates: vec![Upd::Set(vec![SetItem::Prop(0, k, rhs)])],
                ret: if with_ret { Some(ret_props(&[0])) } else { None },
                shape: if null { "set_null" } else { "set_prop" }, expect: None, tags: vec![]
            }
        }
        12 => {
            // SET from another variable's value
            let (a, b) = (node(r), node(r));
            Stmt {
                reads: vec![match_one(0, a), match_one(1, b)],
                updates: vec![Upd::Set(vec![SetItem::Prop(0, 0, Expr::Prop(1, 0)), SetItem::Prop(1, 0, Expr::Prop(0, 1))])],
                ret: None,
                shape: "set_from_other", expect: None, tags: vec![]
            }
        }
        13 => Stmt {
            reads: vec![match_label(0, some_label(r))],
            updates: vec![Upd::Set(vec![SetItem::Prop(0, 3, lit(Val::Int(5)))])],
            ret: None,
            shape: "set_prop_many", expect: None, tags: vec![]
        },
        14 => Stmt {
            reads: vec![match_one(0, node(r))],
            updates: vec![Upd::Set(vec![SetItem::MapAdd(0, vec![(0, lit(small_lit(r, 0))), (1, if r.chance(1, 2) { lit(Val::Null) } else { lit(small_lit(r, 1)) })])])],
            ret: None,
            shape: "set_map_add", expect: None, tags: vec![]
        },
        15 => Stmt {
            reads: vec![match_one(0, node(r))],
            updates: vec![Upd::Set(vec![SetItem::Labels(0, some_labels(r, 1))])],
            ret: if with_ret { Some(ret_props(&[0])) } else { None },
            shape: "set_labels", expect: None, tags: vec![]
        },
        16 => Stmt {
            reads: vec![match_one(0, node(r))],
            updates: vec![Upd::Remove(vec![if r.chance(1, 2) { RemItem::Prop(0, r.below(3) as u32) } else { RemItem::Labels(0, some_labels(r, 1)) }])],
            ret: None,
            shape: "remove", expect: None, tags: vec![]
        },
        17 => {
            // delete one relationship
            if g.rels.is_empty() {
                return gen_stmt(r, g);
            }
            let e = r.pick(&g.rels).clone();
            Stmt {
                reads: vec![Clause::Match {
                    opt: false,
                    pats: vec![Path {
                        start: NPat { var: None, labels: vec![], props: vec![] },
                        segs: vec![(RPat { var: Some(2), types: vec![], dir: 0, props: vec![], len: None }, NPat { var: None, labels: vec![], props: vec![] })],
                    }],
                    wher: Some(Expr::Cmp(CmpOp::Eq, Box::new(Expr::Fn(Func::Id, vec![Expr::Var(2)])), Box::new(lit(Val::Int(e.id as i64))))),
                }],
                updates: vec![Upd::Delete(false, vec![2])],
                ret: None,
                shape: "delete_rel", expect: None, tags: vec![]
            }
        }
        18 | 19 => {
            let i = node(r);
            let connected = g.rels.iter().any(|e| e.src == i || e.tgt == i);
            Stmt {
                reads: vec![match_one(0, i)],
                updates: vec![Upd::Delete(false, vec![0])],
                ret: None,
                shape: if connected { "delete_connected" } else { "delete_unconnected" }, expect: None, tags: vec![]
            }
        }
        20 => Stmt { reads: vec![match_one(0, node(r))], updates: vec![Upd::Delete(true, vec![0])], ret: None, shape: "detach_delete", expect: None, tags: vec![] },
        21 => Stmt { reads: vec![match_label(0, some_label(r))], updates: vec![Upd::Delete(true, vec![0])], ret: None, shape: "detach_delete_many", expect: None, tags: vec![] },
        22 => Stmt {
            // a right-hand side that is an error
            reads: vec![match_one(0, node(r))],
            updates: vec![Upd::Set(vec![SetItem::Prop(0, 0, Expr::Arith(ArOp::Div, Box::new(lit(Val::Int(1))), Box::new(lit(Val::Int(0)))))])],
            ret: None,
            shape: "set_error_rhs", expect: None, tags: vec![]
        },
        _ => Stmt {
            reads: vec![match_one(0, node(r))],
            updates: vec![Upd::Set(vec![SetItem::Prop(0, 1, lit(Val::Str("x".into())))]), Upd::Set(vec![SetItem::Labels(0, vec![3])])],
            ret: if with_ret { Some(ret_props(&[0])) } else { None },
            shape: "two_sets", expect: None, tags: vec![]
        },
    }
}

/// known-finding class of a statement shape on which the engine is known to deviate
fn known_class(shape: &str) -> Option<&'static str> {
    match shape {
        "set_null" | "create_null" | "set_map_add" => Some("null_stored"),
        "merge_many_matches" => Some("merge_binds_first_match"),
        "set_error_rhs" => Some("set_error_becomes_null"),
        _ => None,
    }
}

/// Stored witnesses of the known findings (known_findings.txt), replayed on the implementation every run.
fn replay_known(out: &mut Out) {
    let engine = QueryEngine::new();
    let fresh = || build_store(&fixed_graph()).0;
    let mut st = fresh();
    let q = "MATCH (v0) WHERE id(v0) = 1 SET v0.p0 = null";
    let o = run_stmt(&engine, &mut st, q);
    let d = dump(&st);
    let stored = d.nodes.iter().any(|n| n.id == 1 && n.props.iter().any(|(k, v)| *k == 0 && *v == Val::Null));
    out.known.push(KnownReplay {
        class: "null_stored".into(),
        still_fails: stored,
        detail: format!(
            "{} on the fixed graph: node 1 afterwards {:?} ({}); openCypher removes p0",
            q,
            d.nodes.iter().find(|n| n.id == 1).map(|n| &n.props),
            match o {
                WObs::Ok(_) => "Ok",
                WObs::Err(_) => "Err",
                WObs::Panic(_) => "Panic",
            }
        ),
    });
    let mut st = fresh();
    let q = "MATCH (v0) WHERE id(v0) = 1 SET v0.p1 = 1 / 0";
    let o = run_stmt(&engine, &mut st, q);
    out.known.push(KnownReplay {
        class: "set_error_becomes_null".into(),
        still_fails: matches!(o, WObs::Ok(_)),
        detail: format!(
            "{} on the fixed graph: engine {}, openCypher raises an arithmetic error",
            q,
            match &o {
                WObs::Ok(_) => "answers Ok and stores null".to_string(),
                WObs::Err(e) => format!("Err({})", e),
                WObs::Panic(p) => format!("Panic({})", p),
            }
        ),
    });
    // delete_guard_per_row
    let mut st = GraphStore::new();
    for q in ["CREATE (v0:C {p0: 1})-[:R]->(v1:D)", "MATCH (v0:C) CREATE (v0)-[:S]->(v1:D)"] {
        let _ = run_stmt(&engine, &mut st, q);
    }
    let q = "MATCH (v0:C)-[v2]->(v1) DELETE v0, v2";
    let o = run_stmt(&engine, &mut st, q);
    let d = dump(&st);
    out.known.push(KnownReplay {
        class: "delete_guard_per_row".into(),
        still_fails: !(matches!(o, WObs::Ok(_)) && d.nodes.len() == 2 && d.rels.is_empty()),
        detail: format!(
            "{} on (c:C)-[:R]->(:D), (c)-[:S]->(:D): the engine {} and leaves {} node(s), {} relationship(s); openCypher deletes c and both relationships (2 nodes, 0 relationships left)",
            q,
            match &o {
                WObs::Ok(_) => "answers Ok".to_string(),
                WObs::Err(e) => format!("refuses ({})", e),
                WObs::Panic(p) => format!("panics ({})", p),
            },
            d.nodes.len(),
            d.rels.len()
        ),
    });
    let mut st = fresh();
    let q = "MERGE (v0:B)-[:R]->(v1:B)";
    let before = dump(&st).nodes.len();
    let _ = run_stmt(&engine, &mut st, q);
    let after = dump(&st).nodes.len();
    out.known.push(KnownReplay {
        class: "merge_path_node_injective".into(),
        still_fails: after != before,
        detail: format!(
            "{} on the fixed graph, where (3:B)-[:R]->(3) is a match with both positions on node 3: the engine goes from {} to {} nodes, openCypher creates nothing",
            q, before, after
        ),
    });
    let mut st = fresh();
    let q = "MERGE (v0:A) RETURN id(v0) AS x";
    let o = run_stmt(&engine, &mut st, q);
    let n = if let WObs::Ok(rows) = &o { rows.len() } else { 0 };
    out.known.push(KnownReplay {
        class: "merge_binds_first_match".into(),
        still_fails: n != 2,
        detail: format!("{} on the fixed graph (two :A nodes): engine returns {} row(s), openCypher 2", q, n),
    });
}

fn probe(path: &str) {
    let (mut store, g) = build_store(&fixed_graph());
    let engine = QueryEngine::new();
    println!("graph: {}", human_graph(&g));
    let text = std::fs::read_to_string(path).unwrap();
    for q in text.lines() {
        let q = q.trim();
        if q.is_empty() || q.starts_with('#') {
            continue;
        }
        if q == "RESET" {
            store = build_store(&fixed_graph()).0;
            println!("-- reset");
            continue;
        }
        println!("Q: {}", q);
        match run_stmt(&engine, &mut store, q) {
            WObs::Panic(p) => println!("   PANIC {}", p),
            WObs::Err(e) => println!("   ERR {}", e),
            WObs::Ok(rows) => println!("   rows {}", human_obs(&Obs::Ok(rows))),
        }
        println!("   => {}", human_graph(&dump(&store)));
    }
}

fn main() {
    quiet_panics();
    if let Ok(p) = std::env::var("C04_PROBE") {
        probe(&p);
        return;
    }
    let args = parse_args();
    let mut out = Out::new(&args, "From Verif Require Import CypherCore Cypher CypherWrite.", "CypherWrite.wcase", "CypherWrite.check_wcase", 100);
    out.rule = "random property graphs (<=6 nodes, <=10 relationships, as in C01) x sequences of <=5 generated write \
                statements (CREATE node/path, MATCH+CREATE relationship, UNWIND+CREATE, MERGE of a node with one / several / \
                no labels aimed at existing nodes, UNWIND+MERGE, MERGE of a relationship between bound nodes and of a whole \
                path, SET property (literal, null, arithmetic on the old value, another variable's value, over many rows), \
                SET +=, SET labels, REMOVE, DELETE relationship, DELETE of connected / unconnected nodes, DETACH DELETE, a \
                failing SET right-hand side); every statement is a case of its own: graph before (as dumped from the \
                engine), statement, graph after and rows. Non-trivial = the statement changed the graph or returned rows \
                or was refused; distinct by (graph, statement) text."
        .to_string();
    let nseq = if args.thorough { 6000 } else { 500 };
    let engine = QueryEngine::new();
    let mut shapes: BTreeMap<&'static str, u64> = BTreeMap::new();
    for c in 0..nseq {
        let mut gr = Rng::for_case(args.seed ^ 0x0404, c);
        let (mut store, _) = build_store(&gen_graph(&mut gr));
        let mut r = Rng::for_case(args.seed, c);
        let n = r.range(1, 5);
        for _ in 0..n {
            let before = dump(&store);
            let s = gen_stmt(&mut r, &before);
            let text = render_stmt(&s);
            let idx = out.next_index();
            if !out.wants(idx) {
                // keep the history identical for a replay: still run the statement
                let _ = run_stmt(&engine, &mut store, &text);
                out.skip();
                continue;
            }
            let obs = run_stmt(&engine, &mut store, &text);
            let after = dump(&store);
            *shapes.entry(s.shape).or_insert(0) += 1;
            out.count(s.shape);
            for t in &s.tags {
                out.count(t);
            }
            let changed = g_graph(&before) != g_graph(&after);
            match &obs {
                WObs::Ok(_) => out.count("engine_ok"),
                WObs::Err(_) => out.count("engine_err"),
                WObs::Panic(_) => out.count("engine_panic"),
            }
            if changed {
                out.count("graph_changed");
            }
            let human = format!(
                "graph={} stmt={} obs={} after={}",
                human_graph(&before),
                text,
                match &obs {
                    WObs::Ok(rows) => human_obs(&Obs::Ok(rows.clone())),
                    WObs::Err(e) => format!("Err({})", e),
                    WObs::Panic(p) => format!("Panic({})", p),
                },
                human_graph(&after)
            )
            .replace('\n', " ");
            let gobs = match &obs {
                WObs::Ok(rows) => format!("(WOk {} {})", g_graph(&after), g_rows(rows)),
                WObs::Err(_) => format!("(WErr {})", g_graph(&after)),
                WObs::Panic(_) => "WPanic".to_string(),
            };
            let gal = format!("(WCase {} {} {})", g_graph(&before), g_stmt(&s), gobs);
            let nontrivial = changed || !matches!(&obs, WObs::Ok(rows) if rows.is_empty());
            let i = out.case(gal, human.clone(), nontrivial);
            if let Some((d, cls)) = judge(&before, &after, &s, &obs) {
                out.fail(i, &human, &d, cls.or(known_class(s.shape)));
            }
        }
    }
    replay_known(&mut out);
    out.count_n("distinct_shapes", shapes.len() as u64);
    out.finish();
}
