//! C33 — cluster health vs. a majority of distinct voters.
use samyama::raft::cluster::{ClusterConfig, ClusterManager, NodeRole};
use std::collections::BTreeSet;
use vh::*;

#[derive(Clone, Debug)]
enum Op {
    Add(u64, bool),
    Remove(u64),
    Active(u64),
    Inactive(u64),
    Role(u64, u8),
}

fn role_of(r: u8) -> NodeRole {
    match r {
        0 => NodeRole::Leader,
        1 => NodeRole::Follower,
        2 => NodeRole::Candidate,
        _ => NodeRole::Learner,
    }
}
fn role_g(r: u8) -> &'static str {
    ["Leader", "Follower", "Candidate", "Learner"][r as usize]
}

fn g_op(o: &Op) -> String {
    match o {
        Op::Add(i, v) => format!("AddNode {} {}", i, g_bool(*v)),
        Op::Remove(i) => format!("RemoveNode {}", i),
        Op::Active(i) => format!("MarkActive {}", i),
        Op::Inactive(i) => format!("MarkInactive {}", i),
        Op::Role(i, r) => format!("SetRole {} {}", i, role_g(*r)),
    }
}

struct Obs {
    healthy: bool,
    total: usize,
    active: usize,
    voters: usize,
    active_voters: usize,
    leader: bool,
}

/// Observe health and evaluate the property's own predicate on the implementation:
/// healthy => strict majority of the DISTINCT voter ids is active, and some node is Leader.
async fn observe(m: &ClusterManager) -> (Obs, Option<String>) {
    let h = m.health_status().await;
    let cfg = m.get_config().await;
    let d: BTreeSet<u64> = cfg.nodes.iter().filter(|n| n.voter).map(|n| n.id).collect();
    let act: BTreeSet<u64> = m.get_active_nodes().await.into_iter().collect();
    let inter = d.intersection(&act).count();
    let mut any_leader = false;
    for id in 0..8u64 {
        if let Some(md) = m.get_node_metadata(id).await {
            if md.role == NodeRole::Leader {
                any_leader = true;
            }
        }
    }
    let mut bad = None;
    if h.healthy && !(2 * inter > d.len()) {
        bad = Some(format!(
            "healthy with {} of {} distinct voters active (voters {:?}, active {:?})",
            inter,
            d.len(),
            d,
            act
        ));
    } else if h.healthy && !any_leader {
        bad = Some("healthy without a known leader".to_string());
    }
    (
        Obs {
            healthy: h.healthy,
            total: h.total_nodes,
            active: h.active_nodes,
            voters: h.total_voters,
            active_voters: h.active_voters,
            leader: h.has_leader,
        },
        bad,
    )
}

fn g_obs(o: &Obs) -> String {
    format!(
        "({}, {}, {}, {}, {}, {})",
        g_bool(o.healthy),
        o.total,
        o.active,
        o.voters,
        o.active_voters,
        g_bool(o.leader)
    )
}

fn run_case(rt: &tokio::runtime::Runtime, out: &mut Out, init: &[(u64, bool)], ops: &[Op]) {
    let mut cfg = ClusterConfig::new("c".to_string(), 1);
    for (i, v) in init {
        cfg.add_node(*i, format!("127.0.0.1:{}", 5000 + i), *v);
    }
    let m = match ClusterManager::new(cfg) {
        Ok(m) => m,
        Err(_) => {
            out.count("init_rejected");
            return;
        }
    };
    let idx = out.next_index();
    if !out.wants(idx) {
        out.skip();
        return;
    }
    let human = format!("init={:?} ops={:?}", init, ops);
    let mut obs = Vec::new();
    let mut bad: Option<String> = None;
    let mut healthy_seen = false;
    rt.block_on(async {
        let (o, b) = observe(&m).await;
        obs.push(o);
        if bad.is_none() {
            bad = b;
        }
        for op in ops {
            match op {
                Op::Add(i, v) => {
                    m.add_node(*i, format!("127.0.0.1:{}", 5000 + i), *v).await.unwrap();
                }
                Op::Remove(i) => {
                    m.remove_node(*i).await.unwrap();
                }
                Op::Active(i) => m.mark_active(*i).await,
                Op::Inactive(i) => m.mark_inactive(*i).await,
                Op::Role(i, r) => m.update_node_role(*i, role_of(*r)).await,
            }
            let (o, b) = observe(&m).await;
            healthy_seen |= o.healthy;
            obs.push(o);
            if bad.is_none() {
                bad = b.map(|s| format!("after {:?}: {}", op, s));
            }
        }
    });
    let dup = {
        let mut s = BTreeSet::new();
        init.iter().any(|(i, _)| !s.insert(*i))
            || ops.iter().any(|o| matches!(o, Op::Add(i, _) if init.iter().any(|(j, _)| j == i)))
    };
    if dup {
        out.count("with_repeated_id");
    }
    if healthy_seen {
        out.count("reached_healthy");
    }
    out.count_n("ops", ops.len() as u64);
    let g = format!(
        "({}, {}, {})",
        g_list(init.iter().map(|(i, v)| format!("({}, {})", i, g_bool(*v)))),
        g_list(ops.iter().map(g_op)),
        g_list(obs.iter().map(g_obs))
    );
    let i = out.case(g, human.clone(), !ops.is_empty() || init.len() > 1);
    if let Some(b) = bad {
        out.fail(i, &human, &b, None);
    }
}

fn main() {
    let args = parse_args();
    let rt = tokio::runtime::Builder::new_current_thread().enable_all().build().unwrap();
    let mut out = Out::new(&args, "From Verif Require Import Cluster.", "Cluster.case", "Cluster.check_case", 400);
    out.rule = "exhaustive: every initial membership of <=3 entries over ids {1,2,3} x voter flag, every active \
                subset, leader known or not; random: memberships of <=6 entries over 5 ids (repeats likely) with \
                <=14 add/remove/heartbeat/role operations, health observed after every operation. Non-trivial = \
                at least one operation or more than one initial entry; distinct by case text."
        .to_string();

    // exhaustive small scope
    let ids = [1u64, 2, 3];
    let entries: Vec<(u64, bool)> = ids.iter().flat_map(|i| [(*i, true), (*i, false)]).collect();
    let mut inits: Vec<Vec<(u64, bool)>> = Vec::new();
    for a in &entries {
        inits.push(vec![*a]);
        for b in &entries {
            inits.push(vec![*a, *b]);
            for c in &entries {
                inits.push(vec![*a, *b, *c]);
            }
        }
    }
    for init in &inits {
        for mask in 0..8u32 {
            for leader in [None, Some(1u64), Some(3u64)] {
                let mut ops = Vec::new();
                for (b, id) in ids.iter().enumerate() {
                    if mask & (1 << b) != 0 {
                        ops.push(Op::Active(*id));
                    }
                }
                if let Some(l) = leader {
                    ops.push(Op::Role(l, 0));
                }
                run_case(&rt, &mut out, init, &ops);
            }
        }
    }
    // random histories
    let n = if args.thorough { 20000 } else { 1500 };
    for c in 0..n {
        let mut r = Rng::for_case(args.seed, c);
        let k = r.range(1, 6);
        let mut init: Vec<(u64, bool)> = (0..k).map(|_| (r.range(1, 5), r.chance(3, 4))).collect();
        if !init.iter().any(|x| x.1) {
            init[0].1 = true;
        }
        let nops = r.range(0, 14);
        let ops: Vec<Op> = (0..nops)
            .map(|_| match r.below(10) {
                0 | 1 => Op::Add(r.range(1, 5), r.chance(3, 4)),
                2 => Op::Remove(r.range(1, 5)),
                3 | 4 | 5 => Op::Active(r.range(1, 6)),
                6 => Op::Inactive(r.range(1, 5)),
                _ => Op::Role(r.range(1, 5), r.below(4) as u8),
            })
            .collect();
        run_case(&rt, &mut out, &init, &ops);
    }
    out.finish();
}
