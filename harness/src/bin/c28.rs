//! C28 — hierarchy index answers vs. the brute-force poset answers.
//!
//! Two kinds of cases:
//!  * direct: `Poset::from_edges` + `OehIndex::build` / `build_forced`, then a script of
//!    subsumes / descendants / descendant_count / rollup / LCA queries interleaved with
//!    `set_measure` and `update_measure`;
//!  * manager: a `GraphStore` with a registered hierarchy index, a history of edge writes,
//!    property writes and rebuilds, observing `usable` and `rollup_id` after every step.
//! For every answer the property's own predicate (a brute-force closure / fold computed here,
//! independently of oracle.rs) is evaluated; the Coq model replays the same case.
use samyama::graph::{EdgeId, EdgeType, GraphStore, NodeId, PropertyValue};
use samyama::index::hierarchy::{Encoding, HierarchyError, HierarchySpec, OehIndex, Poset, RollupOp, RollupValue};
use std::collections::{BTreeMap, BTreeSet};
use std::panic::AssertUnwindSafe;
use std::sync::Arc;
use vh::*;

const OPS: [RollupOp; 4] = [RollupOp::Sum, RollupOp::Count, RollupOp::Min, RollupOp::Max];

fn g_op(o: RollupOp) -> &'static str {
    match o {
        RollupOp::Sum => "OSum",
        RollupOp::Count => "OCount",
        RollupOp::Min => "OMin",
        RollupOp::Max => "OMax",
    }
}
fn g_rv(v: &RollupValue) -> String {
    match v {
        RollupValue::Int(i) => format!("(RInt {})", g_z(*i)),
        RollupValue::Null => "RNull".to_string(),
        RollupValue::Float(f) => format!("(RFLOAT {})", f), // never emitted: int-only cases
    }
}
fn g_ov(v: &Option<i64>) -> String {
    g_opt(v.map(|z| g_z(z as i128)))
}
fn g_nlist(v: &[u32]) -> String {
    g_list(v.iter().map(|x| format!("{}", x)))
}

// ---------- brute force ----------
struct Brute {
    n: usize,
    /// reach[x][y] : x ⊑ y (y reachable from x through child->parent edges, reflexive)
    reach: Vec<Vec<bool>>,
}
impl Brute {
    fn new(n: usize, edges: &[(u32, u32)]) -> Brute {
        let mut reach = vec![vec![false; n]; n];
        for (i, row) in reach.iter_mut().enumerate() {
            row[i] = true;
        }
        // n rounds of relaxation over the edge list (Bellman-Ford style closure)
        for _ in 0..n {
            let mut changed = false;
            for &(c, p) in edges {
                let (c, p) = (c as usize, p as usize);
                for y in 0..n {
                    if reach[p][y] && !reach[c][y] {
                        reach[c][y] = true;
                        changed = true;
                    }
                }
            }
            if !changed {
                break;
            }
        }
        Brute { n, reach }
    }
    fn desc(&self, y: usize) -> Vec<u32> {
        (0..self.n).filter(|&x| self.reach[x][y]).map(|x| x as u32).collect()
    }
    fn lca(&self, x: usize, y: usize) -> Vec<u32> {
        let common: Vec<usize> = (0..self.n).filter(|&c| self.reach[x][c] && self.reach[y][c]).collect();
        common
            .iter()
            .copied()
            .filter(|&c| !common.iter().any(|&d| d != c && self.reach[d][c]))
            .map(|c| c as u32)
            .collect()
    }
    fn rollup(&self, y: usize, m: &[Option<i64>], op: RollupOp) -> RollupValue {
        let d = self.desc(y);
        if op == RollupOp::Count {
            return RollupValue::Int(d.len() as i128);
        }
        let vals: Vec<i128> = d.iter().filter_map(|&x| m[x as usize]).map(|v| v as i128).collect();
        match op {
            RollupOp::Count => RollupValue::Int(d.len() as i128),
            RollupOp::Sum => RollupValue::Int(vals.iter().sum()),
            RollupOp::Min => vals.iter().min().map_or(RollupValue::Null, |v| RollupValue::Int(*v)),
            RollupOp::Max => vals.iter().max().map_or(RollupValue::Null, |v| RollupValue::Int(*v)),
        }
    }
}

fn acyclic(n: usize, edges: &[(u32, u32)]) -> bool {
    let mut indeg = vec![0usize; n];
    for &(_, p) in edges {
        indeg[p as usize] += 1;
    }
    let mut q: Vec<usize> = (0..n).filter(|&i| indeg[i] == 0).collect();
    let mut seen = 0;
    while let Some(u) = q.pop() {
        seen += 1;
        for &(c, p) in edges {
            if c as usize == u {
                indeg[p as usize] -= 1;
                if indeg[p as usize] == 0 {
                    q.push(p as usize);
                }
            }
        }
    }
    seen == n
}

// ---------- direct cases ----------
#[derive(Clone, Debug)]
enum Step {
    Sub(u32, u32),
    Desc(u32),
    Count(u32),
    Roll(u32, RollupOp),
    Lca(u32, u32),
    AllSub,
    SetMeasure(Vec<Option<i64>>, Vec<RollupOp>),
    Upd(u32, Option<i64>),
}

fn rand_val(r: &mut Rng) -> Option<i64> {
    match r.below(10) {
        0 | 1 => None,
        2 => Some(0),
        3 => Some(-(r.range(1, 50) as i64)),
        4 => Some((r.next() >> 2) as i64 - (1i64 << 61)),
        _ => Some(r.range(1, 100) as i64),
    }
}

fn small_script(n: usize, r: &mut Rng, with_oob: bool) -> Vec<Step> {
    let n32 = n as u32;
    let mut s = vec![Step::Roll(0, RollupOp::Sum), Step::Roll(0, RollupOp::Count), Step::AllSub];
    s.push(Step::Upd(0, Some(1))); // no measure attached yet: must report false
    for y in 0..n32 {
        s.push(Step::Desc(y));
        s.push(Step::Count(y));
    }
    for x in 0..n32 {
        for y in 0..n32 {
            s.push(Step::Lca(x, y));
        }
    }
    s.push(Step::SetMeasure((0..n).map(|_| rand_val(r)).collect(), OPS.to_vec()));
    for y in 0..n32 {
        for op in OPS {
            s.push(Step::Roll(y, op));
        }
    }
    for _ in 0..2 {
        s.push(Step::Upd(r.below(n as u64) as u32, rand_val(r)));
        for y in 0..n32 {
            for op in OPS {
                s.push(Step::Roll(y, op));
            }
        }
    }
    // a measure with only some monoids built
    let sub: Vec<RollupOp> = OPS.iter().copied().filter(|_| r.chance(1, 2)).collect();
    s.push(Step::SetMeasure((0..n).map(|_| rand_val(r)).collect(), sub));
    s.push(Step::Upd(r.below(n as u64) as u32, rand_val(r)));
    for y in 0..n32 {
        for op in OPS {
            s.push(Step::Roll(y, op));
        }
    }
    if with_oob {
        s.push(Step::Upd(n32 + 3, Some(5)));
        s.push(Step::Sub(n32, 0));
        s.push(Step::Sub(0, n32 + 1));
        s.push(Step::Desc(n32));
        s.push(Step::Count(n32 + 2));
        s.push(Step::Lca(n32, 0));
    }
    s
}

fn big_script(n: usize, r: &mut Rng, thorough: bool) -> Vec<Step> {
    let n64 = n as u64;
    let mut s = vec![Step::AllSub];
    let nd = if n <= 24 { n } else { 12 };
    for i in 0..nd {
        let y = if n <= 24 { i as u32 } else { r.below(n64) as u32 };
        s.push(Step::Desc(y));
        s.push(Step::Count(y));
    }
    for _ in 0..(if thorough { 30 } else { 14 }) {
        s.push(Step::Lca(r.below(n64) as u32, r.below(n64) as u32));
    }
    s.push(Step::SetMeasure((0..n).map(|_| rand_val(r)).collect(), OPS.to_vec()));
    for y in 0..n as u32 {
        for op in OPS {
            if n <= 24 || r.chance(1, 2) {
                s.push(Step::Roll(y, op));
            }
        }
    }
    for _ in 0..(if thorough { 24 } else { 10 }) {
        s.push(Step::Upd(r.below(n64) as u32, rand_val(r)));
        for _ in 0..6 {
            s.push(Step::Roll(r.below(n64) as u32, *r.pick(&OPS)));
        }
        if r.chance(1, 6) {
            s.push(Step::Sub(r.below(n64) as u32, r.below(n64) as u32));
        }
    }
    for y in 0..n as u32 {
        s.push(Step::Roll(y, RollupOp::Sum));
        if r.chance(1, 3) {
            s.push(Step::Roll(y, RollupOp::Min));
            s.push(Step::Roll(y, RollupOp::Max));
        }
    }
    s
}

fn enc_code(e: Encoding) -> u8 {
    match e {
        Encoding::NestedSet => 0,
        Encoding::Chain => 1,
        Encoding::NearTree => 2,
    }
}

fn approx(a: f64, b: f64) -> bool {
    (a - b).abs() <= 1e-9 * (1.0 + a.abs().max(b.abs()))
}

/// Float-domain measures (not modelled in Coq): index roll-ups must equal the brute-force fold
/// numerically (Int(6) and Float(6.0) are the same answer; sums to a relative 1e-9).
fn float_phase(n: usize, poset: &Poset, forced: u8, brute: &Brute, r: &mut Rng) -> Option<String> {
    #[derive(Clone, Copy, Debug)]
    enum V {
        I(i64),
        F(f64),
    }
    let gen = |r: &mut Rng, pf: u64| -> Option<V> {
        match r.below(10) {
            0 => None,
            x if x < 1 + pf => Some(V::F((r.range(0, 4000) as f64 - 2000.0) / 8.0)),
            _ => Some(V::I(r.range(0, 200) as i64 - 100)),
        }
    };
    let to_rv = |v: Option<V>| {
        v.map(|v| match v {
            V::I(i) => RollupValue::Int(i as i128),
            V::F(f) => RollupValue::Float(f),
        })
    };
    let mut idx = match forced {
        0 => OehIndex::build(poset.clone()),
        1 => OehIndex::build_forced(poset.clone(), Encoding::NestedSet),
        2 => OehIndex::build_forced(poset.clone(), Encoding::Chain),
        _ => OehIndex::build_forced(poset.clone(), Encoding::NearTree),
    }
    .ok()?;
    // start all-integer in half of the runs so that an update is what introduces the first float
    let pf0 = if r.chance(1, 2) { 0 } else { 3 };
    let mut m: Vec<Option<V>> = (0..n).map(|_| gen(r, pf0)).collect();
    idx.set_measure(m.iter().map(|v| to_rv(*v)).collect(), &OPS);
    for round in 0..6 {
        if round > 0 {
            let node = r.below(n as u64) as usize;
            let v = gen(r, 4);
            if !idx.update_measure(NodeId::new(node as u64), to_rv(v)) {
                return Some(format!("float phase: update_measure({node}) returned false"));
            }
            m[node] = v;
        }
        for y in 0..n {
            let d = brute.desc(y);
            let vals: Vec<f64> = d
                .iter()
                .filter_map(|&x| m[x as usize])
                .map(|v| match v {
                    V::I(i) => i as f64,
                    V::F(f) => f,
                })
                .collect();
            for op in [RollupOp::Sum, RollupOp::Min, RollupOp::Max] {
                let want: Option<f64> = match op {
                    RollupOp::Sum => Some(vals.iter().sum()),
                    RollupOp::Min => vals.iter().copied().fold(None, |a: Option<f64>, b| Some(a.map_or(b, |a| a.min(b)))),
                    _ => vals.iter().copied().fold(None, |a: Option<f64>, b| Some(a.map_or(b, |a| a.max(b)))),
                };
                let got = idx.rollup(y as u32, op);
                let ok = match (got, want) {
                    (Some(RollupValue::Null), None) => true,
                    (Some(g), Some(w)) => g.as_f64().map_or(false, |g| approx(g, w)),
                    _ => false,
                };
                if !ok {
                    return Some(format!(
                        "float measures {:?} (round {round}): rollup({y}, {:?}) = {:?}, brute force = {:?}",
                        m, op, got, want
                    ));
                }
            }
        }
    }
    None
}

#[allow(clippy::too_many_arguments)]
fn run_direct(out: &mut Out, n: usize, edges: &[(u32, u32)], forced: u8, script: &[Step], tag: &str, seed: u64, floats: bool) {
    let idx_no = out.next_index();
    if !out.wants(idx_no) {
        out.skip();
        return;
    }
    let human = format!("direct[{tag}] n={n} edges(child,parent)={:?} forced={forced} script={:?}", edges, script);
    let poset = Poset::from_edges(
        edges.iter().map(|&(c, p)| (NodeId::new(c as u64), NodeId::new(p as u64))),
        (0..n as u64).map(NodeId::new),
    );
    let g_edges = g_list(edges.iter().map(|(c, p)| format!("({}, {})", c, p)));
    let is_acyclic = acyclic(n, edges);
    let mut bad: Option<String> = None;
    let poset = match poset {
        Err(HierarchyError::NotAcyclic { .. }) => {
            out.count("cyclic_rejected");
            if is_acyclic {
                bad = Some("acyclic covering relation rejected as cyclic".into());
            }
            let i = out.case(format!("CDirect {} {} {} (BErr 0) []", n, g_edges, forced), human.clone(), true);
            if let Some(b) = bad {
                out.fail(i, &human, &b, None);
            }
            return;
        }
        Err(e) => {
            let i = out.case(format!("CDirect {} {} {} (BErr 9) []", n, g_edges, forced), human.clone(), true);
            out.fail(i, &human, &format!("unexpected from_edges error {e:?}"), None);
            return;
        }
        Ok(p) => p,
    };
    if !is_acyclic {
        let i = out.case(format!("CDirect {} {} {} (BOk 9) []", n, g_edges, forced), human.clone(), true);
        out.fail(i, &human, "cyclic covering relation accepted", None);
        return;
    }
    let built = match forced {
        0 => OehIndex::build(poset.clone()),
        1 => OehIndex::build_forced(poset.clone(), Encoding::NestedSet),
        2 => OehIndex::build_forced(poset.clone(), Encoding::Chain),
        _ => OehIndex::build_forced(poset.clone(), Encoding::NearTree),
    };
    let mut idx = match built {
        Err(e) => {
            let code = match e {
                HierarchyError::NotATree => 1,
                HierarchyError::WidthTooHigh { .. } => 2,
                _ => 9,
            };
            out.count("build_declined");
            let i = out.case(format!("CDirect {} {} {} (BErr {}) []", n, g_edges, forced, code), human.clone(), true);
            if code == 9 || (code == 1 && poset.is_tree()) {
                out.fail(i, &human, &format!("unexpected build error {e:?}"), None);
            }
            return;
        }
        Ok(i) => i,
    };
    let code = enc_code(idx.encoding());
    out.count(["enc_nested", "enc_chain", "enc_near"][code as usize]);
    let brute = Brute::new(n, edges);
    if code == 2 {
        // generator health for the near-tree exception search: is there a pair (x, y) with x below y
        // only through >= 2 chained exception edges (non-first-parent edges)?
        let mut first: Vec<Option<u32>> = vec![None; n];
        let mut forest: Vec<(u32, u32)> = Vec::new();
        let mut exc: Vec<(u32, u32)> = Vec::new();
        for &(c, p) in edges {
            if forest.contains(&(c, p)) || exc.contains(&(c, p)) {
                continue;
            }
            if first[c as usize].is_none() {
                first[c as usize] = Some(p);
                forest.push((c, p));
            } else {
                exc.push((c, p));
            }
        }
        let f = Brute::new(n, &forest);
        let one = |x: usize, y: usize| exc.iter().any(|&(c, q)| f.reach[x][c as usize] && f.reach[q as usize][y]);
        let chained = (0..n).any(|x| (0..n).any(|y| brute.reach[x][y] && !f.reach[x][y] && !one(x, y)));
        if !exc.is_empty() {
            out.count("near_with_exceptions");
        }
        if chained {
            out.count("near_chained_exceptions");
        }
    }
    let mut measure: Option<Vec<Option<i64>>> = None;
    let mut built_ops: Vec<RollupOp> = Vec::new();
    let mut gs: Vec<String> = Vec::new();
    let mut note = |bad: &mut Option<String>, s: String| {
        if bad.is_none() {
            *bad = Some(s);
        }
    };
    let inr = |x: u32| (x as usize) < n;
    for st in script {
        match st {
            Step::Sub(x, y) => {
                let r = catch(AssertUnwindSafe(|| idx.subsumes(*x, *y))).ok();
                if inr(*x) && inr(*y) && r != Some(brute.reach[*x as usize][*y as usize]) {
                    note(&mut bad, format!("subsumes({x},{y}) = {r:?}"));
                }
                gs.push(format!("QSub {} {} {}", x, y, g_opt(r.map(|b| g_bool(b).to_string()))));
            }
            Step::Desc(y) => {
                let r = catch(AssertUnwindSafe(|| idx.descendants(*y))).ok();
                if inr(*y) {
                    match &r {
                        Some(d) => {
                            let set: BTreeSet<u32> = d.iter().copied().collect();
                            let want: BTreeSet<u32> = brute.desc(*y as usize).into_iter().collect();
                            if set.len() != d.len() || set != want {
                                note(&mut bad, format!("descendants({y}) = {d:?}, brute force {want:?}"));
                            }
                        }
                        None => note(&mut bad, format!("descendants({y}) panicked")),
                    }
                }
                gs.push(format!("QDesc {} {}", y, g_opt(r.map(|d| g_nlist(&d)))));
            }
            Step::Count(y) => {
                let r = catch(AssertUnwindSafe(|| idx.descendant_count(*y))).ok();
                if inr(*y) && r != Some(brute.desc(*y as usize).len()) {
                    note(&mut bad, format!("descendant_count({y}) = {r:?}"));
                }
                gs.push(format!("QCount {} {}", y, g_opt(r.map(|c| format!("{}", c)))));
            }
            Step::Roll(y, op) => {
                let r = catch(AssertUnwindSafe(|| idx.rollup(*y, *op))).ok();
                if inr(*y) {
                    let want = if *op == RollupOp::Count {
                        Some(brute.rollup(*y as usize, &[], *op))
                    } else if let (Some(m), true) = (&measure, built_ops.contains(op)) {
                        Some(brute.rollup(*y as usize, m, *op))
                    } else {
                        None
                    };
                    if r != Some(want) {
                        note(&mut bad, format!("rollup({y},{op:?}) = {r:?}, brute force {want:?} (measure {measure:?})"));
                    }
                    if want.is_some() && *op != RollupOp::Count {
                        out.count("rollup_answers");
                    }
                }
                gs.push(format!("QRoll {} {} {}", y, g_op(*op), g_opt(r.map(|o| g_opt(o.map(|v| g_rv(&v)))))));
            }
            Step::Lca(x, y) => {
                let r = catch(AssertUnwindSafe(|| idx.lowest_common_ancestors(*x, *y))).ok();
                if inr(*x) && inr(*y) {
                    let mut got = r.clone().unwrap_or_default();
                    got.sort_unstable();
                    if r.is_none() || got != brute.lca(*x as usize, *y as usize) {
                        note(&mut bad, format!("lca({x},{y}) = {r:?}, brute force {:?}", brute.lca(*x as usize, *y as usize)));
                    }
                }
                gs.push(format!("QLca {} {} {}", x, y, g_opt(r.map(|d| g_nlist(&d)))));
            }
            Step::AllSub => {
                let mut bits = Vec::with_capacity(n * n);
                for x in 0..n as u32 {
                    for y in 0..n as u32 {
                        let b = idx.subsumes(x, y);
                        if b != brute.reach[x as usize][y as usize] {
                            note(&mut bad, format!("subsumes({x},{y}) = {b}"));
                        }
                        bits.push(g_bool(b).to_string());
                    }
                }
                gs.push(format!("QAllSub {}", g_list(bits)));
            }
            Step::SetMeasure(m, ops) => {
                idx.set_measure(m.iter().map(|v| v.map(|z| RollupValue::Int(z as i128))).collect(), ops);
                measure = Some(m.clone());
                built_ops = ops.clone();
                gs.push(format!("SetMeasure {} {}", g_list(m.iter().map(g_ov)), g_list(ops.iter().map(|o| g_op(*o).to_string()))));
            }
            Step::Upd(node, v) => {
                let r = idx.update_measure(NodeId::new(*node as u64), v.map(|z| RollupValue::Int(z as i128)));
                let want = inr(*node) && measure.is_some();
                if r != want {
                    note(&mut bad, format!("update_measure({node}) returned {r}"));
                }
                if r {
                    if let Some(m) = measure.as_mut() {
                        m[*node as usize] = *v;
                    }
                    out.count("measure_updates");
                }
                gs.push(format!("UpdMeasure {} {} {}", node, g_ov(v), g_bool(r)));
            }
        }
    }
    if floats && bad.is_none() {
        let mut r = Rng::for_case(seed ^ 0xF10A7, idx_no);
        out.count("float_phases");
        if let Some(b) = float_phase(n, &poset, forced, &brute, &mut r) {
            bad = Some(b);
        }
    }
    let i = out.case(
        format!("CDirect {} {} {} (BOk {}) {}", n, g_edges, forced, code, g_list(gs)),
        human.clone(),
        n > 1,
    );
    if let Some(b) = bad {
        out.fail(i, &human, &b, None);
    }
}

// ---------- poset generators ----------
fn relabel(n: usize, edges: &[(u32, u32)], r: &mut Rng) -> Vec<(u32, u32)> {
    let mut perm: Vec<u32> = (0..n as u32).collect();
    for i in (1..n).rev() {
        let j = r.below(i as u64 + 1) as usize;
        perm.swap(i, j);
    }
    let mut e: Vec<(u32, u32)> = edges.iter().map(|&(c, p)| (perm[c as usize], perm[p as usize])).collect();
    for i in (1..e.len()).rev() {
        let j = r.below(i as u64 + 1) as usize;
        e.swap(i, j);
    }
    e
}

/// hidden order: node i may only have parents < i
fn gen_tree(n: usize, r: &mut Rng) -> Vec<(u32, u32)> {
    let deep = r.chance(1, 4);
    (1..n)
        .filter_map(|i| {
            if r.chance(1, 12) {
                None // another root: a forest
            } else if deep {
                Some((i as u32, (i - 1 - r.below(2.min(i as u64)) as usize) as u32))
            } else {
                Some((i as u32, r.below(i as u64) as u32))
            }
        })
        .collect()
}
fn gen_near_tree(n: usize, r: &mut Rng, extra: usize) -> Vec<(u32, u32)> {
    let mut e = gen_tree(n, r);
    for _ in 0..extra {
        let c = r.range(1, n as u64 - 1) as u32;
        let p = r.below(c as u64) as u32;
        if !e.contains(&(c, p)) {
            e.push((c, p));
        }
    }
    e
}
fn gen_layered(n: usize, r: &mut Rng) -> Vec<(u32, u32)> {
    let width = r.range(1, 4) as usize;
    let mut e = Vec::new();
    for i in width..n {
        let layer = i / width;
        let k = r.range(1, 2);
        for _ in 0..k {
            let up = if r.chance(1, 5) && layer >= 2 { layer - 2 } else { layer - 1 };
            let p = (up * width + r.below(width as u64) as usize) as u32;
            if !e.contains(&(i as u32, p)) {
                e.push((i as u32, p));
            }
        }
    }
    e
}

/// Several disjoint paths ("branches"); a node of branch j gets an extra (non-first) parent in branch
/// j+1, so a node of branch 0 reaches branch k only through k chained exception edges.
fn gen_exception_ladder(n: usize, r: &mut Rng) -> Vec<(u32, u32)> {
    let b = r.range(3, 5) as usize;
    let mut branches: Vec<Vec<u32>> = vec![Vec::new(); b];
    for v in 0..n as u32 {
        branches[(v as usize) % b].push(v);
    }
    let mut e = Vec::new();
    // forest edges first: they stay the first parents
    for br in &branches {
        for w in br.windows(2) {
            e.push((w[1], w[0]));
        }
    }
    for j in 0..b - 1 {
        for _ in 0..r.range(1, 2) {
            if branches[j].len() < 2 || branches[j + 1].len() < 2 {
                continue;
            }
            // the second node of branch j has a forest parent (so this edge is an exception) and is above
            // everything that entered the branch below the root, so the hops chain
            let c = if j == 0 { *r.pick(&branches[j][1..]) } else { branches[j][1] };
            let q = *r.pick(&branches[j + 1][1..]);
            // keep the relation acyclic: only edges from branch j up into branch j+1
            if !e.contains(&(c, q)) {
                e.push((c, q));
            }
        }
    }
    e
}

// ---------- manager histories ----------
fn run_mgr(out: &mut Out, seed: u64, c: u64, thorough: bool) {
    let idx_no = out.next_index();
    if !out.wants(idx_no) {
        out.skip();
        return;
    }
    let mut r = Rng::for_case(seed ^ 0x4D47, c);
    let n = r.range(2, if thorough { 24 } else { 12 }) as usize;
    let mut store = GraphStore::new();
    // a third of the histories restrict the measure to label M; the other nodes carry T only
    let restricted = c % 3 == 1;
    let mut has_m: Vec<bool> = (0..n).map(|_| !restricted || r.chance(2, 3)).collect();
    let ids: Vec<NodeId> = (0..n).map(|i| store.create_node(if restricted && has_m[i] { "M" } else { "T" })).collect();
    let cover = EdgeType::new("IS_A");
    let shape = r.below(3);
    let e0 = match shape {
        0 => gen_tree(n, &mut r),
        1 => gen_near_tree(n, &mut r, 1 + n / 6),
        _ => gen_layered(n, &mut r),
    };
    let mut alive: Vec<(EdgeId, u32, u32)> = Vec::new();
    for &(ch, p) in &e0 {
        let id = store.create_edge(ids[ch as usize], ids[p as usize], "IS_A").unwrap();
        alive.push((id, ch, p));
    }
    if alive.is_empty() {
        let id = store.create_edge(ids[1], ids[0], "IS_A").unwrap();
        alive.push((id, 1, 0));
    }
    // raw column values (whatever the label)
    let mut meas: BTreeMap<u32, i64> = BTreeMap::new();
    for i in 0..n as u32 {
        if let Some(v) = rand_val(&mut r) {
            store.set_column_property(ids[i as usize], "units", PropertyValue::Integer(v));
            meas.insert(i, v);
        }
    }
    let ops = vec![RollupOp::Sum, RollupOp::Min, RollupOp::Max, RollupOp::Count];
    let mgr = Arc::clone(&store.hierarchy_index);
    let label = if restricted { Some(samyama::graph::Label::new("M")) } else { None };
    mgr.create(&store, HierarchySpec::new("h", vec![cover.clone()]).with_measure(label, "units", ops.clone()))
        .expect("create");
    let id_of = |i: u32| ids[i as usize].as_u64();
    let snapshot_edges = |store: &GraphStore| -> String {
        g_list(store.get_edges_by_type(&EdgeType::new("IS_A")).iter().map(|e| format!("({}, {})", e.source.as_u64(), e.target.as_u64())))
    };
    let snapshot_meas = |meas: &BTreeMap<u32, i64>| -> String {
        g_list(meas.iter().map(|(k, v)| format!("({}, Some {})", id_of(*k), g_z(*v as i128))))
    };
    let g_elig_of = |has_m: &Vec<bool>| -> String {
        if restricted {
            format!("(Some {})", g_list((0..n as u32).filter(|i| has_m[*i as usize]).map(|i| format!("{}", id_of(i)))))
        } else {
            "None".to_string()
        }
    };
    let g_elig = g_elig_of(&has_m);
    let g_edges0 = snapshot_edges(&store);
    let g_meas0 = snapshot_meas(&meas);
    let mut human = format!("mgr n={n} edges={:?} measure={:?} label-restricted={restricted} has_label={:?}", e0, meas, has_m);
    let mut bad: Option<String> = None;
    let mut must_be_unusable = false;
    let mut saw_stale_then_rebuilt = false;
    let mut observe = |alive: &Vec<(EdgeId, u32, u32)>,
                       meas: &BTreeMap<u32, i64>,
                       has_m: &Vec<bool>,
                       must_be_unusable: bool,
                       bad: &mut Option<String>,
                       what: &str|
     -> String {
        let usable = mgr.usable_for_edge_type(&cover).is_some();
        let entry = mgr.get("h").unwrap();
        let g = entry.read().unwrap();
        let mut rolls = Vec::new();
        let edges: Vec<(u32, u32)> = alive.iter().map(|&(_, c, p)| (c, p)).collect();
        let brute = Brute::new(n, &edges);
        let in_h: BTreeSet<u32> = edges.iter().flat_map(|&(c, p)| [c, p]).collect();
        // the measure the property talks about: the current value of nodes carrying the label
        let m: Vec<Option<i64>> = (0..n as u32).map(|i| if has_m[i as usize] { meas.get(&i).copied() } else { None }).collect();
        if must_be_unusable && usable && bad.is_none() {
            *bad = Some(format!("after {what}: index usable although the covering relation was written and not rebuilt"));
        }
        for i in 0..n as u32 {
            for op in &ops {
                let got = g.index.as_ref().and_then(|ix| ix.rollup_id(ids[i as usize], *op));
                rolls.push(format!("({}, {}, {})", id_of(i), g_op(*op), g_opt(got.map(|v| g_rv(&v)))));
                if usable && bad.is_none() {
                    let want = if in_h.contains(&i) { Some(brute.rollup(i as usize, &m, *op)) } else { None };
                    if got != want {
                        *bad = Some(format!("after {what}: usable index answers rollup({i},{op:?}) = {got:?}, brute force on the current graph {want:?}"));
                    }
                }
            }
        }
        format!("({}, {})", g_bool(usable), g_list(rolls))
    };
    let o0 = observe(&alive, &meas, &has_m, false, &mut bad, "create");
    let mut hist: Vec<String> = Vec::new();
    let steps = r.range(3, if thorough { 16 } else { 9 });
    for _ in 0..steps {
        let (h, what): (String, String) = match r.below(14) {
            12 | 13 => {
                // SET n:Label / REMOVE n:Label — the measure label (restricted histories) or another one
                let a = r.below(n as u64) as usize;
                let measure_label = restricted && r.chance(3, 4);
                let lab = if measure_label { "M" } else { "X" };
                let add = if measure_label { !has_m[a] } else { r.chance(1, 2) };
                if add {
                    store.add_label_to_node("default", ids[a], lab).unwrap();
                } else {
                    store.remove_label_from_node(ids[a], &samyama::graph::Label::new(lab)).unwrap();
                }
                if measure_label {
                    has_m[a] = add;
                    out.count("mgr_measure_label_writes");
                }
                (format!("HLabelWrite {}", g_bool(measure_label)), format!("{} label {lab} on {a}", if add { "add" } else { "remove" }))
            }
            0 | 1 => {
                // new covering edge child > parent in the hidden order keeps the relation acyclic
                let ch = r.range(1, n as u64 - 1) as u32;
                let p = r.below(ch as u64) as u32;
                if alive.iter().any(|&(_, a, b)| (a, b) == (ch, p)) {
                    continue;
                }
                let id = store.create_edge(ids[ch as usize], ids[p as usize], "IS_A").unwrap();
                alive.push((id, ch, p));
                must_be_unusable = true;
                ("HEdgeWrite true".into(), format!("create_edge IS_A {ch}->{p}"))
            }
            2 => {
                if alive.len() < 2 {
                    continue;
                }
                let k = r.below(alive.len() as u64) as usize;
                let (id, a, b) = alive.remove(k);
                store.delete_edge(id).unwrap();
                must_be_unusable = true;
                ("HEdgeWrite true".into(), format!("delete_edge IS_A {a}->{b}"))
            }
            3 => {
                let a = r.below(n as u64) as usize;
                let b = r.below(n as u64) as usize;
                store.create_edge(ids[a], ids[b], "REL").unwrap();
                ("HEdgeWrite false".into(), format!("create_edge REL {a}->{b}"))
            }
            4 => {
                let a = r.below(n as u64) as usize;
                store.set_column_property(ids[a], "colour", PropertyValue::Integer(7));
                (format!("HPropWrite false {} (Some 7%Z)", id_of(a as u32)), format!("set colour on {a}"))
            }
            5 | 6 | 7 => {
                let a = r.below(n as u64) as u32;
                let v = rand_val(&mut r);
                match v {
                    Some(z) => {
                        store.set_column_property(ids[a as usize], "units", PropertyValue::Integer(z));
                        meas.insert(a, z);
                    }
                    None => {
                        store.set_column_property(ids[a as usize], "units", PropertyValue::Null);
                        meas.remove(&a);
                    }
                }
                (format!("HPropWrite true {} {}", id_of(a), g_ov(&v)), format!("set units on {a} to {v:?}"))
            }
            8 => {
                // REMOVE n.units / REMOVE n.colour
                let a = r.below(n as u64) as u32;
                if r.chance(1, 4) {
                    store.remove_node_property(ids[a as usize], "colour");
                    (format!("HPropRemove false {}", id_of(a)), format!("remove colour on {a}"))
                } else {
                    store.remove_node_property(ids[a as usize], "units");
                    meas.remove(&a);
                    out.count("mgr_measure_removed");
                    (format!("HPropRemove true {}", id_of(a)), format!("remove units on {a}"))
                }
            }
            _ => {
                mgr.rebuild(&store, "h").expect("rebuild");
                if must_be_unusable {
                    saw_stale_then_rebuilt = true;
                }
                must_be_unusable = false;
                (format!("HRebuild {} {} {}", snapshot_edges(&store), g_elig_of(&has_m), snapshot_meas(&meas)), "rebuild".into())
            }
        };
        human.push_str(&format!("; {what}"));
        let o = observe(&alive, &meas, &has_m, must_be_unusable, &mut bad, &what);
        hist.push(format!("({}, {})", h, o));
    }
    out.count("mgr_histories");
    if restricted {
        out.count("mgr_label_restricted");
    }
    if saw_stale_then_rebuilt {
        out.count("mgr_stale_then_rebuilt");
    }
    let g = format!(
        "CMgr {} {} {} {} {} {}",
        g_edges0,
        g_elig,
        g_meas0,
        g_list(ops.iter().map(|o| g_op(*o).to_string())),
        o0,
        g_list(hist)
    );
    let i = out.case(g, human.clone(), true);
    if let Some(b) = bad {
        out.fail(i, &human, &b, None);
    }
}

// ---------- Cypher layer: the same queries with and without the hierarchy index ----------

fn canon_rows(engine: &samyama::query::QueryEngine, store: &GraphStore, q: &str) -> String {
    match engine.execute(q, store) {
        Ok(batch) => {
            let mut rows: Vec<String> = batch
                .records
                .iter()
                .map(|rec| {
                    batch
                        .columns
                        .iter()
                        .map(|c| match rec.get(c) {
                            // Property(Null) and Null are the same null to the caller; Integer 6 and Float 6.0 are not
                            None | Some(samyama::query::executor::record::Value::Null) => "Null".to_string(),
                            Some(samyama::query::executor::record::Value::Property(p)) => format!("{:?}", p),
                            Some(v) => format!("{:?}", v),
                        })
                        .collect::<Vec<_>>()
                        .join(",")
                })
                .collect();
            rows.sort();
            rows.join(";")
        }
        Err(e) => format!("ERR {}", e.to_string().chars().take(60).collect::<String>()),
    }
}

/// Two stores receive the same Cypher writes; one has `CREATE HIERARCHY INDEX`, the other answers the
/// same `*0..` queries by variable-length expansion. Their rows must be equal after every step
/// (and, where the index is usable, the planner's rewrite is what answers on the indexed side).
fn run_cypher(out: &mut Out, seed: u64, c: u64) {
    let idx_no = out.next_index();
    if !out.wants(idx_no) {
        out.skip();
        return;
    }
    let mut r = Rng::for_case(seed ^ 0xC1F, c);
    let n = r.range(2, 9) as usize;
    let tree = c % 3 != 2;
    let edges = if tree { gen_tree(n, &mut r) } else { gen_near_tree(n, &mut r, 1 + n / 3) };
    if !(0..n as u32).all(|v| edges.iter().filter(|e| e.0 == v).count() <= 1) {
        out.count("cypher_dag_histories");
    }
    let engine = samyama::query::QueryEngine::new();
    let mut with = GraphStore::new();
    let mut without = GraphStore::new();
    let mut human = format!("cypher n={n} edges={:?}", edges);
    let mut script: Vec<String> = Vec::new();
    let restricted = c % 4 == 3;
    for i in 0..n {
        let labels = if restricted && r.chance(2, 3) { ":C:M" } else { ":C" };
        let q = match rand_val(&mut r).map(|v| v % 1000) {
            Some(v) => format!("CREATE ({labels} {{code: 'n{i}', units: {v}}})"),
            None => format!("CREATE ({labels} {{code: 'n{i}'}})"),
        };
        script.push(q);
    }
    if restricted {
        out.count("cypher_label_restricted");
    }
    for &(ch, p) in &edges {
        script.push(format!("MATCH (a:C {{code: 'n{ch}'}}), (b:C {{code: 'n{p}'}}) CREATE (a)-[:IS_A]->(b)"));
    }
    let mut bad: Option<String> = None;
    let mut apply = |q: &str, with: &mut GraphStore, without: &mut GraphStore, bad: &mut Option<String>| {
        let a = engine.execute_mut(q, with, "default").map(|_| ()).map_err(|e| e.to_string());
        let b = engine.execute_mut(q, without, "default").map(|_| ()).map_err(|e| e.to_string());
        if a.is_ok() != b.is_ok() && bad.is_none() {
            *bad = Some(format!("write {q}: indexed store {a:?}, plain store {b:?}"));
        }
    };
    for q in &script {
        apply(q, &mut with, &mut without, &mut bad);
    }
    let aggs = if r.chance(1, 2) { "sum, min, max, count" } else { "sum, count" };
    let create = format!("CREATE HIERARCHY INDEX h ON ()-[:IS_A]->() MEASURE {}units AGGREGATE {aggs}", if restricted { "M." } else { "" });
    if let Err(e) = engine.execute_mut(&create, &mut with, "default") {
        bad = Some(format!("{create}: {e}"));
    }
    human.push_str(&format!("; {create}"));
    let queries = |root: usize| -> Vec<String> {
        let pat = format!("MATCH (d)-[:IS_A*0..]->(r:C {{code: 'n{root}'}})");
        vec![
            format!("{pat} RETURN sum(d.units) AS v"),
            format!("{pat} RETURN min(d.units) AS v"),
            format!("{pat} RETURN max(d.units) AS v"),
            format!("{pat} RETURN count(d) AS v"),
            format!("{pat} RETURN d.code AS v"),
            format!("MATCH (r:C {{code: 'n{root}'}})<-[:IS_A*0..]-(d) RETURN sum(d.units) AS v"),
        ]
    };
    let mut compare = |with: &GraphStore, without: &GraphStore, what: &str, bad: &mut Option<String>, out: &mut Out| {
        for root in 0..n {
            for q in queries(root) {
                let fired = samyama::query::parse_query(&q)
                    .ok()
                    .and_then(|pq| samyama::query::executor::hierarchy_detector::detect(&pq, with))
                    .is_some();
                if fired {
                    out.count("cypher_rewrites_fired");
                }
                let a = canon_rows(&engine, with, &q);
                let b = canon_rows(&engine, without, &q);
                out.count("cypher_comparisons");
                if a != b {
                    let msg = format!("after {what}: `{q}` with the index (rewrite fired: {fired}) = [{a}], by variable-length expansion = [{b}]");
                    if bad.is_none() {
                        *bad = Some(msg);
                    }
                }
            }
        }
    };
    compare(&with, &without, "create index", &mut bad, out);
    let steps = r.range(2, 5);
    for _ in 0..steps {
        let q = match r.below(8) {
            6 => {
                let k = r.below(n as u64);
                format!("MATCH (x:C {{code: 'n{k}'}}) REMOVE x.units")
            }
            7 => {
                let k = r.below(n as u64);
                let lab = if restricted && r.chance(3, 4) { "M" } else { "X" };
                if r.chance(1, 2) {
                    format!("MATCH (x:C {{code: 'n{k}'}}) SET x:{lab}")
                } else {
                    format!("MATCH (x:C {{code: 'n{k}'}}) REMOVE x:{lab}")
                }
            }
            0 | 1 | 2 => {
                let k = r.below(n as u64);
                match rand_val(&mut r).map(|v| v % 1000) {
                    Some(v) => format!("MATCH (x:C {{code: 'n{k}'}}) SET x.units = {v}"),
                    None => format!("MATCH (x:C {{code: 'n{k}'}}) SET x.units = null"),
                }
            }
            3 => {
                // new leaf under an existing node: a covering-edge write, the index goes stale
                let k = r.below(n as u64);
                format!("MATCH (b:C {{code: 'n{k}'}}) CREATE (:C {{code: 'x{}', units: 3}})-[:IS_A]->(b)", r.below(1000))
            }
            4 => "REBUILD HIERARCHY INDEX h".to_string(),
            _ => {
                let k = r.below(n as u64);
                format!("MATCH (x:C {{code: 'n{k}'}}) SET x.colour = 1")
            }
        };
        human.push_str(&format!("; {q}"));
        if q.starts_with("REBUILD") {
            if let Err(e) = engine.execute_mut(&q, &mut with, "default") {
                if bad.is_none() {
                    bad = Some(format!("{q}: {e}"));
                }
            }
        } else {
            apply(&q, &mut with, &mut without, &mut bad);
        }
        compare(&with, &without, &q, &mut bad, out);
    }
    out.count("cypher_histories");
    let i = out.case("CDirect 1 [] 0 (BOk 0) []".to_string(), human.clone(), true);
    if let Some(b) = bad {
        out.fail(i, &human, &b, None);
    }
}

fn main() {
    let args = parse_args();
    if std::env::var("C28_LOUD").is_err() {
        quiet_panics();
    }
    let mut out = Out::new(&args, "From Verif Require Import Hierarchy.", "Hierarchy.case", "Hierarchy.check_case", if args.thorough { 400 } else { 100 });
    out.rule = "exhaustive: every labelled DAG on <=4 nodes (thorough: <=5) under auto / forced chain / forced near-tree / \
                forced nested-set, all (x,y) subsumes, all descendants, counts, all LCAs, all roll-ups (sum/count/min/max) \
                before and after update_measure; random trees, near-trees and layered low-width DAGs up to 60 (thorough 400) \
                nodes with random update_measure sequences; manager histories (covering-edge writes, measure writes, property \
                removals, label-restricted measures, rebuilds) on a GraphStore; Cypher histories on twin stores (one with CREATE \
                HIERARCHY INDEX, one without): *0.. roll-up / descendant queries must return the same rows with the rewritten plan \
                and by variable-length expansion after every write (these cases carry a placeholder Coq term; they are checked on \
                the Rust side only). Non-trivial = more than one node; distinct by case text."
        .to_string();
    let seed = args.seed;

    // 1. exhaustive small scope
    let max_n = if args.thorough { 5 } else { 4 };
    let mut cyc = 0u64;
    let mut c = 0u64;
    for n in 1..=max_n {
        let pairs: Vec<(u32, u32)> = (0..n as u32).flat_map(|a| (0..n as u32).filter(move |b| *b != a).map(move |b| (a, b))).collect();
        for mask in 0u32..(1u32 << pairs.len()) {
            let mut edges: Vec<(u32, u32)> = pairs.iter().enumerate().filter(|(i, _)| mask & (1 << i) != 0).map(|(_, e)| *e).collect();
            if !acyclic(n, &edges) {
                cyc += 1;
                if cyc % 97 == 1 {
                    run_direct(&mut out, n, &edges, 0, &[], "cyclic", seed, false);
                }
                continue;
            }
            c += 1;
            let mut r = Rng::for_case(seed, c);
            if r.chance(1, 2) {
                edges.reverse();
            }
            let forced_list: Vec<u8> = if n == 5 { vec![0, 2 + (c % 2) as u8] } else if c % 4 == 0 { vec![0, 1, 2, 3] } else { vec![0, 2, 3] };
            for f in forced_list {
                let script = small_script(n, &mut r, c % 16 == 0);
                run_direct(&mut out, n, &edges, f, &script, "exh", seed, c % 8 == 0);
            }
        }
    }
    // 2. five nodes (quick tier: random sample, relabelled)
    if !args.thorough {
        for k in 0..150u64 {
            let mut r = Rng::for_case(seed ^ 0x55, k);
            let pairs: Vec<(u32, u32)> = (0..5u32).flat_map(|a| (0..a).map(move |b| (a, b))).collect();
            let edges: Vec<(u32, u32)> = pairs.into_iter().filter(|_| r.chance(2, 5)).collect();
            let edges = relabel(5, &edges, &mut r);
            let f = [0u8, 2, 3][(k % 3) as usize];
            let script = small_script(5, &mut r, false);
            run_direct(&mut out, 5, &edges, f, &script, "five", seed, k % 4 == 0);
        }
    }
    // 3. random larger posets
    let nbig = if args.thorough { 1200 } else { 200 };
    for k in 0..nbig {
        let mut r = Rng::for_case(seed ^ 0xB16, k);
        let hi = if args.thorough && k % 16 == 0 { 400 } else { 60 };
        let n = r.range(6, hi) as usize;
        let (edges, shape) = match k % 4 {
            0 => (gen_tree(n, &mut r), "tree"),
            1 => {
                // within the probe's exception cap (n/20) when possible, so that auto selects near-tree
                let cap = n / 20;
                let extra = if cap > 0 && r.chance(2, 3) { r.range(1, cap as u64) as usize } else { r.range(1, 4) as usize };
                (gen_near_tree(n, &mut r, extra), "near")
            }
            2 => (gen_layered(n, &mut r), "layered"),
            _ => (gen_near_tree(n, &mut r, n / 3), "dag"),
        };
        let edges = relabel(n, &edges, &mut r);
        let f = match r.below(4) {
            0 | 1 => 0u8,
            2 => 2,
            _ => 3,
        };
        out.count(&format!("shape_{shape}"));
        let script = if n > 120 {
            // large: keep the Coq side affordable — sampled queries only
            let mut s = Vec::new();
            for _ in 0..40 {
                s.push(Step::Sub(r.below(n as u64) as u32, r.below(n as u64) as u32));
            }
            for _ in 0..4 {
                s.push(Step::Desc(r.below(n as u64) as u32));
            }
            s.push(Step::SetMeasure((0..n).map(|_| rand_val(&mut r)).collect(), OPS.to_vec()));
            for _ in 0..10 {
                s.push(Step::Upd(r.below(n as u64) as u32, rand_val(&mut r)));
                for _ in 0..4 {
                    s.push(Step::Roll(r.below(n as u64) as u32, *r.pick(&OPS)));
                }
            }
            s
        } else {
            big_script(n, &mut r, args.thorough)
        };
        run_direct(&mut out, n, &edges, f, &script, shape, seed, k % 3 == 0);
    }
    // 3b. exception ladders (near-tree forced): reachability through chained exception edges
    let nl = if args.thorough { 400 } else { 60 };
    for k in 0..nl {
        let mut r = Rng::for_case(seed ^ 0x1ADD, k);
        let n = r.range(6, if args.thorough { 40 } else { 20 }) as usize;
        let edges = gen_exception_ladder(n, &mut r);
        // relabel nodes but keep the edge order (first parents stay the branch parents)
        let mut perm: Vec<u32> = (0..n as u32).collect();
        for i in (1..n).rev() {
            let j = r.below(i as u64 + 1) as usize;
            perm.swap(i, j);
        }
        let edges: Vec<(u32, u32)> = edges.iter().map(|&(c, p)| (perm[c as usize], perm[p as usize])).collect();
        let script = big_script(n, &mut r, args.thorough);
        run_direct(&mut out, n, &edges, 3, &script, "ladder", seed, k % 5 == 0);
    }
    // 4. manager histories
    let nm = if args.thorough { 1500 } else { 150 };
    for k in 0..nm {
        run_mgr(&mut out, seed, k, args.thorough);
    }
    // 5. Cypher layer
    let nc = if args.thorough { 600 } else { 60 };
    for k in 0..nc {
        run_cypher(&mut out, seed, k);
    }
    out.finish();
}
