//! C18 — tenant quotas hold under every interleaving of writers.
//!
//! Real threads call PersistenceManager::persist_create_node / persist_create_edge on a real
//! RocksDB directory. A deterministic scheduler parks every writer at the `pm.create_*.*`
//! hook points (the boundaries between the code's critical sections) and lets exactly one
//! writer run at a time, in the order a schedule says. All interleavings of 2 writers (quick)
//! and of 3 writers (thorough) at those boundaries are enumerated for quotas 1–2 (plus larger
//! samples), with and without entities created beforehand, with distinct and with colliding
//! ids. After every step the controller reads get_usage and scans the tenant; at the end it
//! collects the call results, the scan, and the usage after one and two `recover` calls on
//! the same manager. Observations go to the Coq model (Tenant.check_case); the property's own
//! predicate is evaluated here on what the implementation did.
use samyama::graph::{Edge, EdgeId, EdgeType, Label, Node, NodeId};
use samyama::persistence::{PersistenceError, PersistenceManager, ResourceQuotas, TenantError};
use std::cell::Cell;
use std::sync::{Arc, Condvar, Mutex};
use std::time::Duration;
use vh::*;

// ---------------- deterministic scheduler ----------------
struct SState {
    /// the writer currently allowed to run
    turn: Option<usize>,
    /// where each writer is parked (None = running or finished)
    parked: Vec<Option<String>>,
    done: Vec<bool>,
    /// hook names each writer passed, in order
    passed: Vec<Vec<String>>,
}
struct Sched {
    m: Mutex<SState>,
    cv: Condvar,
}
thread_local! {
    static TID: Cell<Option<usize>> = const { Cell::new(None) };
}
static SCHED: Mutex<Option<Arc<Sched>>> = Mutex::new(None);

const STUCK: Duration = Duration::from_secs(20);

impl Sched {
    fn new(n: usize) -> Arc<Sched> {
        Arc::new(Sched {
            m: Mutex::new(SState { turn: None, parked: vec![None; n], done: vec![false; n], passed: vec![Vec::new(); n] }),
            cv: Condvar::new(),
        })
    }
    /// called by writer `i`: park here until the controller grants the next turn
    fn park(&self, i: usize, name: &str) {
        let mut g = self.m.lock().unwrap();
        g.parked[i] = Some(name.to_string());
        g.passed[i].push(name.to_string());
        g.turn = None;
        self.cv.notify_all();
        while g.turn != Some(i) {
            g = self.cv.wait(g).unwrap();
        }
        g.parked[i] = None;
    }
    fn finish(&self, i: usize) {
        let mut g = self.m.lock().unwrap();
        g.done[i] = true;
        g.turn = None;
        self.cv.notify_all();
    }
    /// controller: wait until every writer is parked at its start point
    fn wait_all_parked(&self) {
        let mut g = self.m.lock().unwrap();
        while !g.parked.iter().all(|p| p.is_some()) {
            let (g2, t) = self.cv.wait_timeout(g, STUCK).unwrap();
            g = g2;
            if t.timed_out() {
                eprintln!("c18: scheduler stuck waiting for writers to start");
                std::process::exit(3);
            }
        }
    }
    /// controller: let writer `i` run one segment (until its next hook point or its return)
    fn step(&self, i: usize) {
        let mut g = self.m.lock().unwrap();
        assert!(g.parked[i].is_some() && !g.done[i], "writer {} is not parked", i);
        g.turn = Some(i);
        self.cv.notify_all();
        while g.turn.is_some() {
            let (g2, t) = self.cv.wait_timeout(g, STUCK).unwrap();
            g = g2;
            if t.timed_out() {
                eprintln!("c18: scheduler stuck: writer {} did not reach the next hook point", i);
                std::process::exit(3);
            }
        }
    }
    fn done(&self, i: usize) -> bool {
        self.m.lock().unwrap().done[i]
    }
}

fn install_hook() {
    samyama::verif_hooks::set_callback(Some(Arc::new(|name: &str| {
        if let Some(i) = TID.with(|t| t.get()) {
            if name.starts_with("pm.create_") || name.starts_with("pm.delete_") {
                let s = SCHED.lock().unwrap().clone();
                if let Some(s) = s {
                    s.park(i, name);
                }
            }
        }
    })));
}

// ---------------- one run ----------------
#[derive(Clone, Copy, Debug, PartialEq)]
enum Kind {
    Node,
    Edge,
}
/// what a writer does: create the entity with this id, or delete it
#[derive(Clone, Copy, Debug, PartialEq)]
enum W {
    C(u64),
    D(u64),
}
impl W {
    fn id(&self) -> u64 {
        match self {
            W::C(i) | W::D(i) => *i,
        }
    }
    fn is_create(&self) -> bool {
        matches!(self, W::C(_))
    }
}
#[derive(Clone, Copy, Debug, PartialEq)]
enum Res {
    Accepted,
    Refused,
    Other,
}

struct Run {
    /// (writer, usage after the step, entities scanned after the step)
    sched: Vec<(usize, u64, u64)>,
    results: Vec<Res>,
    errors: Vec<String>,
    scanned: Vec<u64>,
    usage: (u64, u64, u64),
    recovered: (usize, usize),
    hooks: Vec<Vec<String>>,
    /// (choice index, number of enabled writers) at every choice point
    choices: Vec<(usize, usize)>,
}

fn usage_of(pm: &PersistenceManager, tenant: &str, kind: Kind) -> u64 {
    let u = pm.tenants().get_usage(tenant).expect("get_usage");
    (match kind {
        Kind::Node => u.node_count,
        Kind::Edge => u.edge_count,
    }) as u64
}
fn scan_ids(pm: &PersistenceManager, tenant: &str, kind: Kind) -> Vec<u64> {
    match kind {
        Kind::Node => pm.storage().scan_nodes(tenant).expect("scan_nodes").iter().map(|n| n.id.as_u64()).collect(),
        Kind::Edge => pm.storage().scan_edges(tenant).expect("scan_edges").iter().map(|e| e.id.as_u64()).collect(),
    }
}

fn perform(pm: &PersistenceManager, tenant: &str, kind: Kind, w: W) -> Result<(), PersistenceError> {
    match w {
        W::C(id) => create(pm, tenant, kind, id),
        W::D(id) => match kind {
            Kind::Node => pm.persist_delete_node(tenant, id),
            Kind::Edge => pm.persist_delete_edge(tenant, id),
        },
    }
}

fn create(pm: &PersistenceManager, tenant: &str, kind: Kind, id: u64) -> Result<(), PersistenceError> {
    match kind {
        Kind::Node => {
            let mut n = Node::new(NodeId::new(id), Label::new("L"));
            n.set_property("p", id as i64);
            pm.persist_create_node(tenant, &n)
        }
        Kind::Edge => {
            let e = Edge::new(EdgeId::new(id), NodeId::new(1), NodeId::new(2), EdgeType::new("R"));
            pm.persist_create_edge(tenant, &e)
        }
    }
}

/// `pre`: the first `pre` writers run to completion one after the other before the rest start
/// interleaving. `choose(enabled)` returns the position in `enabled` of the writer to run next.
fn run_once(
    pm: &Arc<PersistenceManager>,
    tenant: &str,
    kind: Kind,
    targets: &[W],
    pre: usize,
    choose: &mut dyn FnMut(&[usize]) -> usize,
) -> Run {
    let n = targets.len();
    let sched = Sched::new(n);
    *SCHED.lock().unwrap() = Some(sched.clone());
    let results: Arc<Mutex<Vec<Option<Result<(), String>>>>> = Arc::new(Mutex::new(vec![None; n]));
    let mut handles = Vec::new();
    for i in 0..n {
        let pm = pm.clone();
        let tenant = tenant.to_string();
        let id = targets[i];
        let sched = sched.clone();
        let results = results.clone();
        handles.push(std::thread::spawn(move || {
            TID.with(|t| t.set(Some(i)));
            sched.park(i, "start");
            let r = std::panic::catch_unwind(std::panic::AssertUnwindSafe(|| perform(&pm, &tenant, kind, id)));
            let r = match r {
                Ok(Ok(())) => Ok(()),
                Ok(Err(PersistenceError::Tenant(TenantError::QuotaExceeded { .. }))) => Err("quota".to_string()),
                Ok(Err(e)) => Err(format!("error: {}", e)),
                Err(_) => Err("panic".to_string()),
            };
            results.lock().unwrap()[i] = Some(r);
            sched.finish(i);
        }));
    }
    sched.wait_all_parked();
    let mut out = Run {
        sched: Vec::new(),
        results: Vec::new(),
        errors: Vec::new(),
        scanned: Vec::new(),
        usage: (0, 0, 0),
        recovered: (0, 0),
        hooks: Vec::new(),
        choices: Vec::new(),
    };
    loop {
        let pending_pre: Vec<usize> = (0..pre.min(n)).filter(|i| !sched.done(*i)).collect();
        let i = if let Some(i) = pending_pre.first() {
            *i
        } else {
            let enabled: Vec<usize> = (0..n).filter(|i| !sched.done(*i)).collect();
            if enabled.is_empty() {
                break;
            }
            let c = if enabled.len() == 1 { 0 } else { choose(&enabled) };
            if enabled.len() > 1 {
                out.choices.push((c, enabled.len()));
            }
            enabled[c]
        };
        sched.step(i);
        out.sched.push((i, usage_of(pm, tenant, kind), scan_ids(pm, tenant, kind).len() as u64));
    }
    for h in handles {
        let _ = h.join();
    }
    *SCHED.lock().unwrap() = None;
    for r in results.lock().unwrap().iter() {
        match r {
            Some(Ok(())) => out.results.push(Res::Accepted),
            Some(Err(e)) if e == "quota" => out.results.push(Res::Refused),
            Some(Err(e)) => {
                out.results.push(Res::Other);
                out.errors.push(e.clone());
            }
            None => {
                out.results.push(Res::Other);
                out.errors.push("no result".to_string());
            }
        }
    }
    out.hooks = sched.m.lock().unwrap().passed.clone();
    out.scanned = scan_ids(pm, tenant, kind);
    let u0 = usage_of(pm, tenant, kind);
    // recovery repeated on the same manager
    let (n1, e1) = pm.recover(tenant).expect("recover");
    let u1 = usage_of(pm, tenant, kind);
    let _ = pm.recover(tenant).expect("recover");
    let u2 = usage_of(pm, tenant, kind);
    out.usage = (u0, u1, u2);
    out.recovered = (n1.len(), e1.len());
    out
}

// ---------------- a case ----------------
struct Ctx {
    pm: Option<Arc<PersistenceManager>>,
    dir: tempfile::TempDir,
    serial: u64,
}

fn quotas(q: Option<u64>) -> ResourceQuotas {
    let mut r = ResourceQuotas::unlimited();
    r.max_nodes = q.map(|x| x as usize);
    r.max_edges = q.map(|x| x as usize);
    r
}

/// the property's own predicate on what the implementation did
fn predicate(q: Option<u64>, targets: &[W], r: &Run, kind: Kind) -> Option<String> {
    if !r.errors.is_empty() {
        return Some(format!("a call failed with something other than QuotaExceeded: {:?}", r.errors));
    }
    if let Some(q) = q {
        for (k, (w, _u, c)) in r.sched.iter().enumerate() {
            if *c > q {
                return Some(format!("after step {} (writer {}) {} entities are persisted, quota {}", k, w, c, q));
            }
        }
        if r.scanned.len() as u64 > q {
            return Some(format!("{} entities persisted at the end, quota {}", r.scanned.len(), q));
        }
    }
    for (i, res) in r.results.iter().enumerate() {
        let id = targets[i].id();
        let deleted_by_someone = targets.iter().any(|w| *w == W::D(id));
        if !targets[i].is_create() {
            if *res != Res::Accepted {
                return Some(format!("writer {} (a delete) was not acknowledged", i));
            }
            continue;
        }
        // a refused creation leaves nothing behind
        if *res == Res::Refused {
            let by_other = (0..targets.len()).any(|j| j != i && targets[j] == W::C(id) && r.results[j] == Res::Accepted);
            if r.scanned.contains(&id) && !by_other {
                return Some(format!("writer {} was refused but its entity {} is persisted", i, id));
            }
        }
        if *res == Res::Accepted && !r.scanned.contains(&id) && !deleted_by_someone {
            return Some(format!("writer {} was accepted but its entity {} is not persisted", i, id));
        }
    }
    // nothing is persisted that no writer created
    for id in &r.scanned {
        if !targets.contains(&W::C(*id)) {
            return Some(format!("entity {} is persisted but no writer created it", id));
        }
    }
    let cnt = r.scanned.len() as u64;
    // usage = persisted count after every step in which no creation is in flight is implied by the
    // model comparison; here: at quiescence and after recovery
    if r.usage.0 != cnt {
        return Some(format!("at quiescence usage is {} but {} entities are persisted", r.usage.0, cnt));
    }
    if r.usage.1 != cnt || r.usage.2 != cnt {
        return Some(format!(
            "usage after one / two recoveries on the same manager is {} / {}, {} entities are persisted",
            r.usage.1, r.usage.2, cnt
        ));
    }
    let rec = if kind == Kind::Node { r.recovered.0 } else { r.recovered.1 };
    if rec as u64 != cnt {
        return Some(format!("recover returned {} entities, {} are persisted", rec, cnt));
    }
    None
}

fn g_w(w: &W) -> String {
    match w {
        W::C(i) => format!("(Creator, {})", i),
        W::D(i) => format!("(Deleter, {})", i),
    }
}

fn g_res(r: &Res) -> String {
    match r {
        Res::Accepted => "(Some Accepted)".to_string(),
        Res::Refused => "(Some Refused)".to_string(),
        Res::Other => "None".to_string(),
    }
}

/// Runs one schedule and records it. Returns the choice trace (for the enumerator).
fn one_case(
    out: &mut Out,
    cx: &mut Ctx,
    kind: Kind,
    q: Option<u64>,
    targets: &[W],
    pre: usize,
    choose: &mut dyn FnMut(&[usize]) -> usize,
    label: &str,
) -> Vec<(usize, usize)> {
    let idx = out.next_index();
    cx.serial += 1;
    let tenant = format!("q{}", cx.serial);
    // every so often the directory is closed and opened again first (fresh TenantManager)
    if cx.serial % 64 == 0 {
        cx.pm = None;
        cx.pm = Some(Arc::new(PersistenceManager::new(cx.dir.path()).expect("reopen")));
        out.count("reopened");
    }
    let pm = cx.pm.as_ref().unwrap().clone();
    pm.tenants().create_tenant(tenant.clone(), tenant.clone(), Some(quotas(q))).expect("create_tenant");
    let r = run_once(&pm, &tenant, kind, targets, pre, choose);
    if !out.wants(idx) {
        out.skip();
        return r.choices;
    }
    let human = format!(
        "{} kind={:?} quota={:?} targets={:?} pre={} schedule={:?} results={:?} scanned={:?} usage(end,recover1,recover2)={:?}",
        label,
        kind,
        q,
        targets,
        pre,
        r.sched.iter().map(|s| s.0).collect::<Vec<_>>(),
        r.results,
        r.scanned,
        r.usage
    );
    // generator health
    let acc = r.results.iter().filter(|x| **x == Res::Accepted).count();
    let refu = r.results.iter().filter(|x| **x == Res::Refused).count();
    if refu > 0 {
        out.count("some_refused");
    }
    if acc > 0 && refu > 0 {
        out.count("accepted_and_refused");
    }
    // two writers were both between their quota step and their storage step at some point
    let mut inflight = vec![0u8; targets.len()];
    let mut overlapped = false;
    for (w, _, _) in &r.sched {
        inflight[*w] += 1;
        let open = (pre..targets.len()).filter(|i| inflight[*i] >= 1 && inflight[*i] < 3 && r.results[*i] == Res::Accepted).count();
        if open >= 2 {
            overlapped = true;
        }
    }
    if overlapped {
        out.count("two_writers_in_flight");
    }
    let mut ts: Vec<u64> = targets.iter().map(|w| w.id()).collect();
    ts.sort();
    ts.dedup();
    if ts.len() < targets.len() {
        out.count("colliding_ids");
    }
    if targets.iter().any(|w| !w.is_create()) {
        out.count("with_deletes");
        // a delete and a creation of the same id both past their first step and before their last
        let hit = targets.iter().enumerate().any(|(i, w)| {
            !w.is_create() && i >= pre && targets.iter().enumerate().any(|(j, v)| j >= pre && *v == W::C(w.id()))
        });
        if hit {
            out.count("delete_races_create_same_id");
        }
        if targets.iter().any(|w| !w.is_create() && !targets.contains(&W::C(w.id()))) {
            out.count("delete_of_absent_id");
        }
    }
    if kind == Kind::Edge {
        out.count("edge_cases");
    }
    if targets.len() - pre >= 3 {
        out.count("three_writers");
    }
    // the hook points each accepted writer passed must be the documented ones, in order
    let mut hook_bad = None;
    for (i, h) in r.hooks.iter().enumerate() {
        let pfx = match (kind, targets[i].is_create()) {
            (Kind::Node, true) => "pm.create_node.",
            (Kind::Edge, true) => "pm.create_edge.",
            (Kind::Node, false) => "pm.delete_node.",
            (Kind::Edge, false) => "pm.delete_edge.",
        };
        let want: Vec<String> = if r.results[i] == Res::Accepted {
            vec!["start".to_string(), format!("{}after_quota", pfx), format!("{}after_wal", pfx), format!("{}after_storage", pfx)]
        } else {
            vec!["start".to_string()]
        };
        if *h != want && r.results[i] != Res::Other {
            hook_bad = Some(format!("writer {} passed hook points {:?}, expected {:?}", i, h, want));
        }
    }
    out.count_n("steps", r.sched.len() as u64);
    let g = format!(
        "({}, {}, {}, {}, {}, ({}, {}, {}))",
        g_opt(q.map(g_n)),
        g_list(targets.iter().map(g_w)),
        g_list(r.sched.iter().map(|(w, u, c)| format!("({}, ({}, {}))", w, u, c))),
        g_list(r.results.iter().map(g_res)),
        g_list(r.scanned.iter().map(|t| g_n(*t))),
        r.usage.0,
        r.usage.1,
        r.usage.2
    );
    let i = out.case(g, human.clone(), true);
    if let Some(b) = predicate(q, targets, &r, kind) {
        out.fail(i, &human, &b, None);
    } else if let Some(b) = hook_bad {
        out.fail(i, &human, &b, None);
    }
    r.choices
}

/// every interleaving (depth-first over the choice points), or the first `limit` of them
fn enumerate(out: &mut Out, cx: &mut Ctx, kind: Kind, q: Option<u64>, targets: &[W], pre: usize, limit: usize, label: &str) -> usize {
    let mut prefix: Vec<usize> = Vec::new();
    let mut count = 0;
    loop {
        let mut k = 0;
        let pfx = prefix.clone();
        let mut choose = |_en: &[usize]| -> usize {
            let c = if k < pfx.len() { pfx[k] } else { 0 };
            k += 1;
            c
        };
        let trace = one_case(out, cx, kind, q, targets, pre, &mut choose, label);
        count += 1;
        if count >= limit {
            out.count("enumeration_truncated");
            return count;
        }
        let mut p = trace.len();
        loop {
            if p == 0 {
                return count;
            }
            p -= 1;
            if trace[p].0 + 1 < trace[p].1 {
                prefix = trace[..p].iter().map(|x| x.0).collect();
                prefix.push(trace[p].0 + 1);
                break;
            }
        }
    }
}

fn main() {
    let args = parse_args();
    quiet_panics();
    install_hook();
    let mut out = Out::new(&args, "From Verif Require Import Tenant.", "Tenant.case", "Tenant.check_case", 600);
    out.rule = "exhaustive: every interleaving, at the pm.{create,delete}_*.{after_quota,after_wal,after_storage} hook \
                points, of 2 writers (quick and thorough) and of 3 writers (thorough; quick takes a random sample) \
                creating or deleting nodes or relationships for one tenant with quota 1 and 2 (and 3, unlimited in \
                samples), with 0-1 entities created beforehand, with distinct ids and with ids that collide with \
                each other or with an existing entity (create/create, create/delete, delete/delete, deletes of \
                absent ids); usage and the scan observed after every step, then results, scan, and usage after \
                0/1/2 recoveries on the same manager; the directory is reopened every 64 cases. Distinct by case text."
        .to_string();
    let base = if std::path::Path::new("/dev/shm").is_dir() { std::path::PathBuf::from("/dev/shm") } else { std::env::temp_dir() };
    let dir = tempfile::Builder::new().prefix("c18-").tempdir_in(base).expect("tempdir");
    let pm = Arc::new(PersistenceManager::new(dir.path()).expect("open"));
    let mut cx = Ctx { pm: Some(pm), dir, serial: 0 };

    use W::{C, D};
    // ---- 2 writers, every interleaving ----
    let mut total2 = 0;
    let mut total2d = 0;
    for kind in [Kind::Node, Kind::Edge] {
        for q in [1u64, 2] {
            // distinct ids, nothing there before / one entity there before
            total2 += enumerate(&mut out, &mut cx, kind, Some(q), &[C(1), C(2)], 0, usize::MAX, "2w");
            total2 += enumerate(&mut out, &mut cx, kind, Some(q), &[C(9), C(1), C(2)], 1, usize::MAX, "2w+pre");
            // both writers create the same id
            total2 += enumerate(&mut out, &mut cx, kind, Some(q), &[C(1), C(1)], 0, usize::MAX, "2w-same-id");
            // one writer re-creates the entity that is already there
            total2 += enumerate(&mut out, &mut cx, kind, Some(q), &[C(1), C(1), C(2)], 1, usize::MAX, "2w-overwrite");
            // ---- creates mixed with deletes ----
            // a delete of the existing entity races a creation of another one (frees a unit or not in time)
            total2d += enumerate(&mut out, &mut cx, kind, Some(q), &[C(1), D(1), C(2)], 1, usize::MAX, "cd-free-unit");
            // a delete races a re-creation (overwrite) of the same, existing id
            total2d += enumerate(&mut out, &mut cx, kind, Some(q), &[C(1), D(1), C(1)], 1, usize::MAX, "cd-same-id-existing");
            // a delete races the first creation of the same id
            total2d += enumerate(&mut out, &mut cx, kind, Some(q), &[C(1), D(1)], 0, usize::MAX, "cd-same-id-new");
            // a delete of an id that is not there races a creation
            total2d += enumerate(&mut out, &mut cx, kind, Some(q), &[C(1), D(7), C(2)], 1, usize::MAX, "cd-absent");
            // two deletes of the same existing entity; a delete of an absent and of a present id
            total2d += enumerate(&mut out, &mut cx, kind, Some(q), &[C(1), D(1), D(1)], 1, usize::MAX, "dd-same-id");
            total2d += enumerate(&mut out, &mut cx, kind, Some(q), &[C(1), D(7), D(1)], 1, usize::MAX, "dd-absent-present");
        }
        total2 += enumerate(&mut out, &mut cx, kind, Some(3), &[C(1), C(1), C(2)], 1, usize::MAX, "2w-overwrite");
        total2 += enumerate(&mut out, &mut cx, kind, None, &[C(1), C(2)], 0, usize::MAX, "2w-unlimited");
    }
    // the two sequential witnesses of the delete accounting, every run
    total2d += enumerate(&mut out, &mut cx, Kind::Node, Some(2), &[C(1), D(7)], 2, usize::MAX, "seq-create-delete-absent");
    total2d += enumerate(&mut out, &mut cx, Kind::Node, Some(2), &[C(1), D(1), D(1), C(2), C(3)], 5, usize::MAX, "seq-double-delete");
    out.count_n("two_writer_schedules", total2 as u64);
    out.count_n("two_writer_schedules_with_deletes", total2d as u64);

    // ---- 3 writers ----
    let mut total3 = 0;
    if args.thorough {
        for q in [1u64, 2] {
            total3 += enumerate(&mut out, &mut cx, Kind::Node, Some(q), &[C(1), C(2), C(3)], 0, usize::MAX, "3w");
            total3 += enumerate(&mut out, &mut cx, Kind::Node, Some(q), &[C(1), D(1), C(1), C(2)], 1, 8000, "3w-cd");
        }
        total3 += enumerate(&mut out, &mut cx, Kind::Edge, Some(2), &[C(1), C(2), C(3)], 0, 6000, "3w");
        total3 += enumerate(&mut out, &mut cx, Kind::Node, Some(2), &[C(1), C(1), C(2)], 0, 6000, "3w-same-id");
    }
    out.count_n("three_writer_schedules_enumerated", total3 as u64);
    // random schedules of 3 writers (creates and deletes, distinct and colliding ids, quota 1-3,
    // 0-2 entities created beforehand)
    let n = if args.thorough { 6000 } else { 500 };
    for c in 0..n {
        let mut r = Rng::for_case(args.seed, c);
        let kind = if r.chance(1, 4) { Kind::Edge } else { Kind::Node };
        let q = match r.below(8) {
            0 => None,
            1 | 2 | 3 => Some(1),
            4 | 5 | 6 => Some(2),
            _ => Some(3),
        };
        let pre = r.below(3) as usize;
        let collide = r.chance(1, 3);
        let deletes = r.chance(1, 2);
        let mut targets: Vec<W> = Vec::new();
        for i in 0..(pre + 3) {
            let id = if collide || (deletes && i >= pre) { r.range(1, 3) } else { (i + 1) as u64 };
            targets.push(if deletes && i >= pre && r.chance(2, 5) { D(id) } else { C(id) });
        }
        let mut rr = r.clone();
        let mut choose = |en: &[usize]| -> usize { rr.below(en.len() as u64) as usize };
        one_case(&mut out, &mut cx, kind, q, &targets, pre, &mut choose, "3w-random");
    }
    cx.pm = None;
    out.finish();
}
