//! C09 — transactions commit first-committer-wins with increasing versions.
//!
//! Every case is a sequence of calls of the MVCC transaction API of GraphStore
//! (begin / txn_write_node / txn_write_edge / commit / abort / gc), i.e. one
//! interleaving of per-transaction scripts.  After every call the harness
//! records the result class, current_version, the public transaction table and
//! the version at which get_node_for_txn reads.
use samyama::graph::{EdgeId, GraphError, GraphStore, IsolationLevel, NodeId, TxnStatus};
use std::collections::{BTreeMap, BTreeSet};
use vh::*;

#[derive(Clone, Copy, Debug, PartialEq)]
enum Op {
    Begin(bool), // true = SnapshotIsolation
    WriteN(u64, u64),
    WriteE(u64, u64),
    Commit(u64),
    Abort(u64),
    Gc(u64),
    GcAuto,
}

/// script-level op (the transaction id is whatever begin returned)
#[derive(Clone, Copy, Debug, PartialEq)]
enum SOp {
    Begin(bool),
    WriteN(u64),
    WriteE(u64),
    Commit,
    Abort,
}

#[derive(Clone, Debug, PartialEq)]
enum Res {
    Begin(u64),
    Unit,
    Ok(u64),
    Conflict,
    NotActive,
    NotFound,
    Other(String),
}

fn g_op(o: &Op) -> String {
    match o {
        Op::Begin(si) => format!("Begin {}", if *si { "SI" } else { "RC" }),
        Op::WriteN(t, n) => format!("WriteN {} {}", t, n),
        Op::WriteE(t, e) => format!("WriteE {} {}", t, e),
        Op::Commit(t) => format!("Commit {}", t),
        Op::Abort(t) => format!("Abort {}", t),
        Op::Gc(w) => format!("Gc {}", w),
        Op::GcAuto => "GcAuto".to_string(),
    }
}
fn h_op(o: &Op) -> String {
    match o {
        Op::Begin(si) => format!("B{}", if *si { "si" } else { "rc" }),
        Op::WriteN(t, n) => format!("{}wn{}", t, n),
        Op::WriteE(t, e) => format!("{}we{}", t, e),
        Op::Commit(t) => format!("{}C", t),
        Op::Abort(t) => format!("{}A", t),
        Op::Gc(w) => format!("gc{}", w),
        Op::GcAuto => "gcauto".to_string(),
    }
}
fn g_res(r: &Res) -> String {
    match r {
        Res::Begin(i) => format!("RBegin {}", i),
        Res::Unit => "RUnit".into(),
        Res::Ok(v) => format!("ROk {}", v),
        Res::Conflict => "RConflict".into(),
        Res::NotActive => "RNotActive".into(),
        Res::NotFound => "RNotFound".into(),
        // an error class the model does not have: printed as a value the model never produces
        Res::Other(_) => "ROk 0".into(),
    }
}

fn class(e: &GraphError) -> Res {
    match e {
        GraphError::WriteConflict(_) => Res::Conflict,
        GraphError::TransactionNotActive(_) => Res::NotActive,
        GraphError::TransactionNotFound(_) => Res::NotFound,
        other => Res::Other(format!("{:?}", other)),
    }
}

struct TObs {
    si: bool,
    status: TxnStatus,
    start: u64,
    commit: Option<u64>,
    wn: Vec<u64>,
    we: Vec<u64>,
    rv: Option<u64>,
}

fn g_tobs(t: &Option<TObs>) -> String {
    match t {
        None => "NoT".into(),
        Some(t) => format!(
            "(T {} {} {} {} {} {})",
            if t.si { "SI" } else { "RC" },
            match t.status {
                TxnStatus::Active => "Active",
                TxnStatus::Committed => "Committed",
                TxnStatus::Aborted => "Aborted",
            },
            t.start,
            t.commit.map_or("NoV".to_string(), |v| format!("(V {})", v)),
            g_list(t.wn.iter().map(|x| g_n(*x))),
            g_list(t.we.iter().map(|x| g_n(*x)))
        ),
    }
}

/// The property's own reference: a plain history of what happened, by call position.
#[derive(Default)]
struct Oracle {
    /// txn -> (position of its begin, isolation, current_version seen just before begin)
    begun: BTreeMap<u64, (usize, bool, u64)>,
    wn: BTreeMap<u64, BTreeSet<u64>>,
    we: BTreeMap<u64, BTreeSet<u64>>,
    /// a commit or abort was attempted on the (existing) transaction
    finished: BTreeSet<u64>,
    /// successful commits: (txn, position, version, node writes, edge writes)
    commits: Vec<(u64, usize, u64, BTreeSet<u64>, BTreeSet<u64>)>,
    last_ok_version: Option<u64>,
}

#[derive(Default)]
struct Mutate {
    kind: u8, // 0 none, 1 first conflict reported as success, 2 first SI read version off by one
    done: bool,
}

struct Ctx {
    mutate: Mutate,
}

fn run_case(out: &mut Out, ctx: &mut Ctx, k: u64, ops: &[Op], tags: &str) {
    let idx = out.next_index();
    if !out.wants(idx) {
        out.skip();
        return;
    }
    let mut store = GraphStore::new();
    let probe = store.create_node("Probe");
    let mut or = Oracle::default();
    let mut bad: Option<String> = None;
    let mut obs: Vec<String> = Vec::new();
    let mut n_ok = 0u64;
    let mut n_conf = 0u64;
    let mut conf_later = false;
    let mut conf_edge = false;
    let mut n_na = 0u64;
    let mut n_nf = 0u64;
    let mut si_stale = false;
    let mut gc_dropped = false;
    let mut prev_cur = store.current_version;
    let mut last_table: Vec<Option<TObs>> = (0..k).map(|_| None).collect();
    let note = |bad: &mut Option<String>, s: String| {
        if bad.is_none() {
            *bad = Some(s);
        }
    };
    for (pos, op) in ops.iter().enumerate() {
        let cur_before = store.current_version;
        let table_before = store.active_transactions.len();
        let mut res = match *op {
            Op::Begin(si) => {
                let id = store.begin_transaction(if si {
                    IsolationLevel::SnapshotIsolation
                } else {
                    IsolationLevel::ReadCommitted
                });
                if or.begun.contains_key(&id) {
                    note(&mut bad, format!("op {}: begin returned the id {} of an earlier transaction", pos, id));
                }
                or.begun.insert(id, (pos, si, cur_before));
                Res::Begin(id)
            }
            Op::WriteN(t, n) => {
                store.txn_write_node(t, NodeId::new(n));
                if or.begun.contains_key(&t) {
                    or.wn.entry(t).or_default().insert(n);
                }
                Res::Unit
            }
            Op::WriteE(t, e) => {
                store.txn_write_edge(t, EdgeId::new(e));
                if or.begun.contains_key(&t) {
                    or.we.entry(t).or_default().insert(e);
                }
                Res::Unit
            }
            Op::Commit(t) => match store.commit_transaction(t) {
                Ok(v) => Res::Ok(v),
                Err(e) => class(&e),
            },
            Op::Abort(t) => match store.abort_transaction(t) {
                Ok(()) => Res::Unit,
                Err(e) => class(&e),
            },
            Op::Gc(w) => {
                store.gc_versions(w);
                Res::Unit
            }
            Op::GcAuto => {
                store.gc_auto();
                Res::Unit
            }
        };
        if matches!(op, Op::Gc(_) | Op::GcAuto) && store.active_transactions.len() < table_before {
            gc_dropped = true;
        }
        // debug mutation of the observation (off unless VERIF_C09_MUTATE is set)
        if ctx.mutate.kind == 1 && !ctx.mutate.done && res == Res::Conflict {
            res = Res::Ok(store.current_version + 1);
            ctx.mutate.done = true;
        }
        // give the probe node a version at every store version, so that the node
        // get_node_for_txn returns carries exactly the read version
        if store.current_version != cur_before {
            store
                .set_node_property("default", probe, "v", store.current_version as i64)
                .expect("probe write");
        }
        let cur = store.current_version;

        // ---- the property's predicate on what the implementation just did ----
        match *op {
            Op::Commit(t) => {
                let empty = BTreeSet::new();
                let my_wn = or.wn.get(&t).unwrap_or(&empty);
                let my_we = or.we.get(&t).unwrap_or(&empty);
                let live = or.begun.contains_key(&t) && !or.finished.contains(&t);
                let mut overlapping: Option<(u64, bool, bool)> = None; // (who, began later, on an edge)
                if let Some(&(bpos, _, _)) = or.begun.get(&t) {
                    for (who, cpos, _, cwn, cwe) in &or.commits {
                        if *who != t && *cpos > bpos {
                            let on_n = cwn.intersection(my_wn).next().is_some();
                            let on_e = cwe.intersection(my_we).next().is_some();
                            if on_n || on_e {
                                let later = or.begun.get(who).map_or(false, |b| b.0 > bpos);
                                overlapping = Some((*who, later, on_e && !on_n));
                            }
                        }
                    }
                }
                let expect_ok = live && overlapping.is_none();
                match &res {
                    Res::Ok(v) => {
                        n_ok += 1;
                        if !expect_ok {
                            note(
                                &mut bad,
                                format!(
                                    "op {} commit {}: succeeded with version {} but {}",
                                    pos,
                                    t,
                                    v,
                                    if !live {
                                        "the transaction was not active".to_string()
                                    } else {
                                        format!(
                                            "transaction {} committed an overlapping write after it began",
                                            overlapping.unwrap().0
                                        )
                                    }
                                ),
                            );
                        }
                        if let Some(p) = or.last_ok_version {
                            if *v <= p {
                                note(&mut bad, format!("op {} commit {}: version {} not above the previous commit version {}", pos, t, v, p));
                            }
                        }
                        if *v <= cur_before || cur != *v {
                            note(&mut bad, format!("op {} commit {}: returned {} with current_version {} -> {}", pos, t, v, cur_before, cur));
                        }
                        or.last_ok_version = Some(*v);
                        or.commits.push((t, pos, *v, my_wn.clone(), my_we.clone()));
                    }
                    other => {
                        if expect_ok {
                            note(&mut bad, format!("op {} commit {}: refused ({:?}) although it was active and nothing it wrote was committed by another transaction after it began", pos, t, other));
                        }
                        match other {
                            Res::Conflict => {
                                n_conf += 1;
                                if let Some((_, later, edge)) = overlapping {
                                    conf_later |= later;
                                    conf_edge |= edge;
                                }
                            }
                            Res::NotActive => n_na += 1,
                            Res::NotFound => n_nf += 1,
                            _ => {}
                        }
                    }
                }
                if or.begun.contains_key(&t) {
                    or.finished.insert(t);
                }
            }
            Op::Abort(t) => {
                let live = or.begun.contains_key(&t) && !or.finished.contains(&t);
                match &res {
                    Res::Unit => {
                        if !live {
                            note(&mut bad, format!("op {} abort {}: succeeded on a transaction that was not active", pos, t));
                        }
                    }
                    other => {
                        if live {
                            note(&mut bad, format!("op {} abort {}: refused ({:?}) on an active transaction", pos, t, other));
                        }
                        match other {
                            Res::NotActive => n_na += 1,
                            Res::NotFound => n_nf += 1,
                            _ => {}
                        }
                    }
                }
                if or.begun.contains_key(&t) {
                    or.finished.insert(t);
                }
            }
            _ => {}
        }
        if let Res::Other(m) = &res {
            note(&mut bad, format!("op {}: unexpected error class {}", pos, m));
        }
        if cur < prev_cur || (cur != cur_before && !matches!(res, Res::Ok(_))) {
            note(&mut bad, format!("op {}: current_version moved {} -> {} without a successful commit", pos, cur_before, cur));
        }
        prev_cur = cur;

        // ---- observations ----
        let mut ts: Vec<Option<TObs>> = Vec::new();
        for id in 1..=k {
            let t = store.active_transactions.get(&id).map(|t| {
                let mut wn: Vec<u64> = t.node_write_set.iter().map(|n| n.as_u64()).collect();
                let mut we: Vec<u64> = t.edge_write_set.iter().map(|n| n.as_u64()).collect();
                wn.sort();
                we.sort();
                TObs {
                    si: t.isolation == IsolationLevel::SnapshotIsolation,
                    status: t.status,
                    start: t.start_version,
                    commit: t.commit_version,
                    wn,
                    we,
                    rv: store.get_node_for_txn(id, probe).map(|n| n.version),
                }
            });
            let mut t = t;
            if let Some(tt) = t.as_mut() {
                if ctx.mutate.kind == 2 && !ctx.mutate.done && tt.si && tt.rv.is_some() && tt.rv != Some(cur) {
                    tt.rv = tt.rv.map(|v| v + 1);
                    ctx.mutate.done = true;
                }
                // read version rule, on the implementation
                let want = match or.begun.get(&id) {
                    Some(&(_, true, at_begin)) => Some(at_begin),
                    Some(&(_, false, _)) => Some(cur),
                    None => None,
                };
                if tt.rv != want || want.is_none() {
                    note(&mut bad, format!("after op {}: transaction {} ({}) reads at {:?}, expected {:?}", pos, id, if tt.si { "SI" } else { "RC" }, tt.rv, want));
                }
                if tt.si && tt.rv.map_or(false, |v| v < cur) {
                    si_stale = true;
                }
            } else if store.get_node_for_txn(id, probe).is_some() {
                note(&mut bad, format!("after op {}: get_node_for_txn answers for {} which is not in the table", pos, id));
            }
            ts.push(t);
        }
        // status code (0 = not in the table) and read version (0 = no answer) per id
        let mut sts = 0u64;
        let mut rvs = 0u128;
        for (j, t) in ts.iter().enumerate() {
            let (st, rv) = match t {
                None => (0u64, 0u64),
                Some(t) => (
                    match t.status {
                        TxnStatus::Active => 1,
                        TxnStatus::Committed => 2,
                        TxnStatus::Aborted => 3,
                    },
                    t.rv.unwrap_or(0),
                ),
            };
            assert!(rv < 256 && j < 8, "packing bound");
            sts += st << (2 * j);
            rvs += (rv as u128) << (8 * j);
        }
        obs.push(format!("Ob ({}) {} {} {}", g_res(&res), cur, sts, rvs));
        last_table = ts;
    }
    if n_ok > 0 {
        out.count("commit_ok");
    }
    if n_ok > 1 {
        out.count("two_or_more_commits");
    }
    if n_conf > 0 {
        out.count("conflict");
    }
    if conf_later {
        out.count("conflict_with_later_beginner");
    }
    if conf_edge {
        out.count("conflict_on_relationship_only");
    }
    if n_na > 0 {
        out.count("not_active_refused");
    }
    if n_nf > 0 {
        out.count("not_found_refused");
    }
    if si_stale {
        out.count("si_reads_below_current");
    }
    if gc_dropped {
        out.count("gc_dropped_finished_txn");
    }
    out.count_n("ops", ops.len() as u64);
    let human = format!("{} k={} [{}]", tags, k, ops.iter().map(h_op).collect::<Vec<_>>().join(" "));
    let g = format!(
        "Case {} {} {} {}",
        k,
        g_list(ops.iter().map(g_op)),
        g_list(obs.into_iter()),
        g_list(last_table.iter().map(g_tobs))
    );
    let i = out.case(g, human.clone(), ops.iter().any(|o| matches!(o, Op::Commit(_))));
    if let Some(b) = bad {
        out.fail(i, &human, &b, None);
    }
}

/// all merges of the scripts (each script's own order preserved), as (script index, op).
/// Script s starts only after script s-1 has started: ids are handed out in begin order and the
/// callers range over all ordered tuples of scripts, so the other merges are the same call
/// sequences again.
fn merges(scripts: &[Vec<SOp>], pos: &mut Vec<usize>, cur: &mut Vec<(usize, SOp)>, f: &mut dyn FnMut(&[(usize, SOp)])) {
    let mut any = false;
    for s in 0..scripts.len() {
        if pos[s] < scripts[s].len() {
            any = true;
            if pos[s] == 0 && s > 0 && pos[s - 1] == 0 {
                continue;
            }
            cur.push((s, scripts[s][pos[s]]));
            pos[s] += 1;
            merges(scripts, pos, cur, f);
            pos[s] -= 1;
            cur.pop();
        }
    }
    if !any {
        f(cur);
    }
}

/// bind script indices to transaction ids: ids are handed out 1, 2, ... in the order of the begins
/// (the harness checks the returned ids against this in the observations)
fn concretize(m: &[(usize, SOp)], nscripts: usize) -> Vec<Op> {
    let mut ids = vec![0u64; nscripts];
    let mut next = 1u64;
    let mut ops = Vec::new();
    for (s, o) in m {
        match o {
            SOp::Begin(si) => {
                ids[*s] = next;
                next += 1;
                ops.push(Op::Begin(*si));
            }
            SOp::WriteN(n) => ops.push(Op::WriteN(ids[*s], *n)),
            SOp::WriteE(e) => ops.push(Op::WriteE(ids[*s], *e)),
            SOp::Commit => ops.push(Op::Commit(ids[*s])),
            SOp::Abort => ops.push(Op::Abort(ids[*s])),
        }
    }
    // epilogue: every transaction is finished now; nothing may commit or abort again,
    // and an id that was never handed out is refused
    for id in 1..=(nscripts as u64) {
        ops.push(Op::Commit(id));
        ops.push(Op::Abort(id));
    }
    ops.push(Op::Commit(nscripts as u64 + 1));
    ops.push(Op::Abort(nscripts as u64 + 1));
    ops
}

/// the 3 entities: node 1, node 2, relationship 1 (same number as node 1 on purpose)
const ENTS3: [SOp; 3] = [SOp::WriteN(1), SOp::WriteN(2), SOp::WriteE(1)];
const ENTS2: [SOp; 2] = [SOp::WriteN(1), SOp::WriteE(1)];

fn write_sets(ents: &[SOp], max: usize) -> Vec<Vec<SOp>> {
    let mut v = Vec::new();
    for mask in 0..(1u32 << ents.len()) {
        if (mask.count_ones() as usize) <= max {
            v.push((0..ents.len()).filter(|b| mask & (1 << b) != 0).map(|b| ents[b]).collect());
        }
    }
    v
}

fn scripts_for(ents: &[SOp], max_writes: usize, isos: &[bool], ends: &[SOp]) -> Vec<Vec<SOp>> {
    let mut v = Vec::new();
    for &si in isos {
        for ws in write_sets(ents, max_writes) {
            for end in ends {
                let mut s = vec![SOp::Begin(si)];
                s.extend(ws.iter().cloned());
                s.push(*end);
                v.push(s);
            }
        }
    }
    v
}

fn exhaust3(out: &mut Out, ctx: &mut Ctx, r: &mut Rng, s3: &[Vec<SOp>], tag: &str) {
    for a in s3 {
        for b in s3 {
            for c in s3 {
                let scripts = vec![a.clone(), b.clone(), c.clone()];
                let mut list: Vec<Vec<(usize, SOp)>> = Vec::new();
                merges(&scripts, &mut vec![0; 3], &mut Vec::new(), &mut |m| list.push(m.to_vec()));
                for mut m in list {
                    for x in m.iter_mut() {
                        if let SOp::Begin(_) = x.1 {
                            x.1 = SOp::Begin(r.chance(1, 2));
                        }
                    }
                    let ops = concretize(&m, 3);
                    run_case(out, ctx, 4, &ops, tag);
                }
            }
        }
    }
}

fn main() {
    let args = parse_args();
    let mut ctx = Ctx {
        mutate: Mutate {
            kind: std::env::var("VERIF_C09_MUTATE").ok().and_then(|s| s.parse().ok()).unwrap_or(0),
            done: false,
        },
    };
    let mut out = Out::new(&args, "From Verif Require Import Txn.", "Txn.case", "Txn.check_case", 1500);
    out.rule = "exhaustive: every interleaving of 2 transactions, each = begin (either isolation level), a write set of \
                <=3 of the entities {node 1, node 2, relationship 1}, commit or abort; followed by a second commit and \
                abort of each and of a never-begun id. thorough adds every interleaving of 3 transactions with <=1 \
                write each, and with <=2 writes over {node 1, relationship 1} all committing (isolation levels drawn \
                from the seed). random: <=4 transactions, <=26 calls incl. repeated \
                commits/aborts, unknown ids, gc_versions(w <= watermark) and gc_auto at any point. After every call: \
                result class, current_version, the transaction table and the version get_node_for_txn reads at. \
                Non-trivial = contains a commit; distinct by case text."
        .to_string();
    if ctx.mutate.kind != 0 {
        out.notes.push(format!("DEBUG MUTATION {} ACTIVE: one observation is deliberately falsified", ctx.mutate.kind));
    }

    // ---- exhaustive: 2 transactions x <=3 writes over 3 entities, both isolation levels ----
    let s2 = scripts_for(&ENTS3, 3, &[false, true], &[SOp::Commit, SOp::Abort]);
    for a in &s2 {
        for b in &s2 {
            let scripts = vec![a.clone(), b.clone()];
            let mut list: Vec<Vec<(usize, SOp)>> = Vec::new();
            merges(&scripts, &mut vec![0; 2], &mut Vec::new(), &mut |m| list.push(m.to_vec()));
            for m in list {
                let ops = concretize(&m, 2);
                run_case(&mut out, &mut ctx, 3, &ops, "x2");
            }
        }
    }
    // ---- thorough: 3 transactions ----
    if args.thorough {
        let mut r = Rng::new(args.seed ^ 0xC09);
        // <=1 write over the 3 entities, commit or abort
        let s3 = scripts_for(&ENTS3, 1, &[false], &[SOp::Commit, SOp::Abort]);
        exhaust3(&mut out, &mut ctx, &mut r, &s3, "x3");
        // <=2 writes over {node 1, relationship 1}, all commit
        let s3b = scripts_for(&ENTS2, 2, &[false], &[SOp::Commit]);
        exhaust3(&mut out, &mut ctx, &mut r, &s3b, "x3c");
    }
    // ---- random histories with gc, repeated ends, unknown ids ----
    let n = if args.thorough { 30000 } else { 3000 };
    for c in 0..n {
        let mut r = Rng::for_case(args.seed, c);
        let maxt = r.range(2, 4);
        let len = r.range(4, 26);
        let mut begun = 0u64;
        // shadow of what gc may be asked without dropping versions an active transaction reads
        let mut shadow = GraphStore::new();
        let mut ops: Vec<Op> = Vec::new();
        for _ in 0..len {
            let pick_t = |r: &mut Rng, begun: u64| if r.chance(1, 12) { begun + 1 + r.below(2) } else { r.range(1, begun.max(1)) };
            let op = match r.below(20) {
                0..=3 if begun < maxt => Op::Begin(r.chance(1, 2)),
                0..=8 => {
                    let t = pick_t(&mut r, begun);
                    if r.chance(2, 3) {
                        Op::WriteN(t, r.range(1, 2))
                    } else {
                        Op::WriteE(t, 1)
                    }
                }
                9..=13 => Op::Commit(pick_t(&mut r, begun)),
                14..=15 => Op::Abort(pick_t(&mut r, begun)),
                16..=17 => Op::GcAuto,
                _ => Op::Gc(r.range(0, shadow.gc_watermark())),
            };
            match op {
                Op::Begin(si) => {
                    shadow.begin_transaction(if si { IsolationLevel::SnapshotIsolation } else { IsolationLevel::ReadCommitted });
                    begun += 1;
                }
                Op::WriteN(t, n) => shadow.txn_write_node(t, NodeId::new(n)),
                Op::WriteE(t, e) => shadow.txn_write_edge(t, EdgeId::new(e)),
                Op::Commit(t) => {
                    let _ = shadow.commit_transaction(t);
                }
                Op::Abort(t) => {
                    let _ = shadow.abort_transaction(t);
                }
                Op::Gc(w) => {
                    shadow.gc_versions(w);
                }
                Op::GcAuto => {
                    shadow.gc_auto();
                }
            }
            ops.push(op);
        }
        run_case(&mut out, &mut ctx, maxt + 1, &ops, "rnd");
    }
    out.finish();
}
