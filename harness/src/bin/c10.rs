//! C10 — property values are ordered by lawful total orders.
//!
//! Runs `PropertyValue::cmp`, `==`, `Hash` (through a Hasher that records every call) and
//! `cypher_order` on all ordered pairs of a boundary pool and of random groups of related
//! nested values; prints them for the Gallina model (coq/model/Value.v) and evaluates the laws
//! themselves (reflexive, antisymmetric, transitive over all triples, `cmp == Equal` iff `==`,
//! equal values feed the hasher identically, cypher_order a total preorder, sort and index
//! lookups independent of insertion order) directly on what the implementation answered.
use samyama::graph::property::cypher_order;
use samyama::graph::{NodeId, PropertyValue};
use samyama::index::property_index::PropertyIndex;
use std::cmp::Ordering;
use std::collections::HashMap;
use std::hash::{Hash, Hasher};
use vh::*;

type PV = PropertyValue;

// ---------- recording hasher ----------
#[derive(Clone, Debug, PartialEq, Eq)]
enum Tok {
    U8(u8),
    U32(u32),
    U64(u64),
    Usize(usize),
    Bytes(Vec<u8>),
}

#[derive(Default)]
struct Rec {
    toks: Vec<Tok>,
}

impl Hasher for Rec {
    fn finish(&self) -> u64 {
        0
    }
    fn write(&mut self, b: &[u8]) {
        self.toks.push(Tok::Bytes(b.to_vec()));
    }
    fn write_u8(&mut self, i: u8) {
        self.toks.push(Tok::U8(i));
    }
    fn write_u32(&mut self, i: u32) {
        self.toks.push(Tok::U32(i));
    }
    fn write_u64(&mut self, i: u64) {
        self.toks.push(Tok::U64(i));
    }
    fn write_usize(&mut self, i: usize) {
        self.toks.push(Tok::Usize(i));
    }
}

fn feed(v: &PV) -> Vec<Tok> {
    let mut r = Rec::default();
    v.hash(&mut r);
    r.toks
}

fn g_tok(t: &Tok) -> String {
    match t {
        Tok::U8(x) => format!("TU8 {}", x),
        Tok::U32(x) => format!("TU32 {}", x),
        Tok::U64(x) => format!("TU64 {}", x),
        Tok::Usize(x) => format!("TUsize {}", x),
        Tok::Bytes(b) => format!("TBytes {}", g_bytes(b)),
    }
}

// ---------- printers ----------
fn g_pv(v: &PV) -> String {
    match v {
        PV::String(s) => format!("PStr {}", g_bytes(s.as_bytes())),
        PV::Integer(i) => format!("PInt {}", g_z(*i as i128)),
        PV::Float(f) => format!("PFloat {}", g_z(f.to_bits() as i128)),
        PV::Boolean(b) => format!("PBool {}", g_bool(*b)),
        PV::DateTime(d) => format!("PDate {}", g_z(*d as i128)),
        PV::Array(a) => format!("PArr {}", g_list(a.iter().map(|x| g_pv(x)))),
        PV::Map(m) => {
            let mut ks: Vec<&String> = m.keys().collect();
            ks.sort_by(|a, b| a.as_bytes().cmp(b.as_bytes()));
            format!(
                "PMap {}",
                g_list(ks.iter().map(|k| format!("({}, {})", g_bytes(k.as_bytes()), g_pv(&m[*k]))))
            )
        }
        PV::Vector(x) => format!("PVec {}", g_list(x.iter().map(|f| g_z(f.to_bits() as i128)))),
        PV::Duration { months, days, seconds, nanos } => format!(
            "PDur {} {} {} {}",
            g_z(*months as i128),
            g_z(*days as i128),
            g_z(*seconds as i128),
            g_z(*nanos as i128)
        ),
        PV::Null => "PNull".to_string(),
    }
}

fn h_pv(v: &PV) -> String {
    match v {
        PV::Float(f) => format!("Float({:?} bits {:#018x})", f, f.to_bits()),
        PV::Array(a) => format!("[{}]", a.iter().map(h_pv).collect::<Vec<_>>().join(", ")),
        PV::Map(m) => {
            let mut ks: Vec<&String> = m.keys().collect();
            ks.sort();
            format!("{{{}}}", ks.iter().map(|k| format!("{:?}: {}", k, h_pv(&m[*k]))).collect::<Vec<_>>().join(", "))
        }
        PV::Vector(x) => format!(
            "Vector[{}]",
            x.iter().map(|f| format!("{:?}/{:#010x}", f, f.to_bits())).collect::<Vec<_>>().join(", ")
        ),
        other => format!("{:?}", other),
    }
}

fn g_ord(o: Ordering) -> &'static str {
    match o {
        Ordering::Less => "Lt",
        Ordering::Equal => "Eq",
        Ordering::Greater => "Gt",
    }
}

// ---------- value construction ----------
fn fl(bits: u64) -> PV {
    PV::Float(f64::from_bits(bits))
}
fn s(x: &str) -> PV {
    PV::String(x.to_string())
}
fn arr(x: Vec<PV>) -> PV {
    PV::Array(x)
}
fn map(x: Vec<(&str, PV)>) -> PV {
    let mut m = HashMap::new();
    for (k, v) in x {
        m.insert(k.to_string(), v);
    }
    PV::Map(m)
}
fn vecf(bits: &[u32]) -> PV {
    PV::Vector(bits.iter().map(|b| f32::from_bits(*b)).collect())
}
fn dur(m: i64, d: i64, s: i64, n: i32) -> PV {
    PV::Duration { months: m, days: d, seconds: s, nanos: n }
}

const QNAN: u64 = 0x7FF8_0000_0000_0000;
const NQNAN: u64 = 0xFFF8_0000_0000_0000;
const SNAN: u64 = 0x7FF0_0000_0000_0001;
const NSNAN: u64 = 0xFFF0_0000_0000_0001;
const NAN_MAX: u64 = 0x7FFF_FFFF_FFFF_FFFF;
const NNAN_MAX: u64 = 0xFFFF_FFFF_FFFF_FFFF;
const P53: i64 = 1 << 53;

fn float_specials() -> Vec<u64> {
    let mut v: Vec<u64> = vec![QNAN, NQNAN, SNAN, NSNAN, NAN_MAX, NNAN_MAX, 0, 1u64 << 63, 1, (1u64 << 63) | 1];
    for f in [
        1.0f64,
        -1.0,
        0.5,
        1.5,
        2.0,
        2.5,
        -2.5,
        6.9,
        999_999.0,
        f64::INFINITY,
        f64::NEG_INFINITY,
        f64::MAX,
        f64::MIN,
        f64::MIN_POSITIVE,
        9007199254740991.0,
        9007199254740992.0,
        9007199254740994.0,
        9007199254740996.0,
        -9007199254740992.0,
        9223372036854775808.0,
        -9223372036854775808.0,
        9223372036854774784.0,
        -9223372036854774784.0,
        1e19,
        -1e19,
    ] {
        v.push(f.to_bits());
    }
    v
}

fn int_specials() -> Vec<i64> {
    vec![
        0,
        1,
        -1,
        2,
        -2,
        100,
        999_999,
        P53 - 1,
        P53,
        P53 + 1,
        P53 + 2,
        P53 + 3,
        P53 + 4,
        P53 + 5,
        -(P53 + 1),
        -(P53 + 3),
        (1 << 62),
        i64::MAX,
        i64::MAX - 1,
        i64::MAX - 511,
        i64::MAX - 512,
        i64::MAX - 513,
        i64::MAX - 1023,
        i64::MAX - 1024,
        i64::MIN,
        i64::MIN + 1,
        i64::MIN + 512,
        i64::MIN + 513,
        i64::MIN + 1024,
    ]
}

fn pool() -> Vec<PV> {
    let mut p: Vec<PV> = Vec::new();
    for b in float_specials() {
        p.push(fl(b));
    }
    for i in int_specials() {
        p.push(PV::Integer(i));
    }
    for x in ["", "a", "ab", "abc", "b", "é", "\u{0}", "true", "zzz"] {
        p.push(s(x));
    }
    p.push(PV::Boolean(false));
    p.push(PV::Boolean(true));
    for d in [0, -1, 100, 200, i64::MIN, i64::MAX] {
        p.push(PV::DateTime(d));
    }
    p.push(PV::Null);
    // arrays
    p.push(arr(vec![]));
    p.push(arr(vec![PV::Integer(1)]));
    p.push(arr(vec![PV::Integer(2)]));
    p.push(arr(vec![PV::Integer(1), PV::Integer(2)]));
    p.push(arr(vec![fl(1.0f64.to_bits())]));
    p.push(arr(vec![fl(QNAN)]));
    p.push(arr(vec![fl(NQNAN)]));
    p.push(arr(vec![fl(0)]));
    p.push(arr(vec![fl(1u64 << 63)]));
    p.push(arr(vec![PV::Integer(0)]));
    p.push(arr(vec![fl((-1.0f64).to_bits())]));
    p.push(arr(vec![arr(vec![])]));
    p.push(arr(vec![arr(vec![PV::Integer(1)])]));
    p.push(arr(vec![arr(vec![]), arr(vec![])]));
    p.push(arr(vec![PV::Null]));
    p.push(arr(vec![s("a")]));
    p.push(arr(vec![PV::Integer(1), s("a")]));
    p.push(arr(vec![vecf(&[0x3f800000])]));
    p.push(arr(vec![map(vec![("a", fl(NQNAN))])]));
    p.push(arr(vec![fl(QNAN), PV::Integer(1)]));
    p.push(arr(vec![fl(SNAN), PV::Integer(2)]));
    // maps
    p.push(map(vec![]));
    p.push(map(vec![("a", PV::Integer(1))]));
    p.push(map(vec![("a", PV::Integer(2))]));
    p.push(map(vec![("b", PV::Integer(1))]));
    p.push(map(vec![("a", PV::Integer(1)), ("b", PV::Integer(2))]));
    p.push(map(vec![("a", PV::Integer(9)), ("c", PV::Integer(0))]));
    p.push(map(vec![("a", fl(QNAN))]));
    p.push(map(vec![("a", fl(NQNAN))]));
    p.push(map(vec![("a", fl(0))]));
    p.push(map(vec![("a", fl(1u64 << 63))]));
    p.push(map(vec![("a", PV::Integer(0))]));
    p.push(map(vec![("a", fl((-1.0f64).to_bits()))]));
    p.push(map(vec![("a", map(vec![]))]));
    p.push(map(vec![("", PV::Null)]));
    p.push(map(vec![("a", arr(vec![PV::Integer(1)]))]));
    p.push(map(vec![("a", vecf(&[0x7fc00000]))]));
    // vectors (f32 bit patterns)
    p.push(vecf(&[]));
    p.push(vecf(&[0x3f800000]));
    p.push(vecf(&[0x3f800000, 0x40000000]));
    p.push(vecf(&[0x3f800000, 0x40400000]));
    p.push(vecf(&[0x7fc00000]));
    p.push(vecf(&[0xffc00000]));
    p.push(vecf(&[0x7f800001]));
    p.push(vecf(&[0]));
    p.push(vecf(&[0x80000000]));
    p.push(vecf(&[0x7f800000]));
    p.push(vecf(&[0xbf800000]));
    p.push(vecf(&[0, 0]));
    // durations
    p.push(dur(0, 0, 0, 0));
    p.push(dur(1, 0, 0, 0));
    p.push(dur(2, 0, 0, 0));
    p.push(dur(1, 5, 0, 0));
    p.push(dur(1, 10, 0, 0));
    p.push(dur(1, 5, 100, 10));
    p.push(dur(1, 5, 100, 20));
    p.push(dur(1, 5, 200, 0));
    p.push(dur(-1, 0, 0, 0));
    p.push(dur(0, 0, 0, -1));
    p.push(dur(i64::MAX, i64::MIN, i64::MAX, i32::MAX));
    p.push(dur(i64::MIN, i64::MAX, i64::MIN, i32::MIN));
    p
}

// ---------- random values ----------
fn rand_int(r: &mut Rng) -> i64 {
    match r.below(6) {
        0 => *r.pick(&int_specials()),
        1 => r.below(7) as i64 - 3,
        2 | 3 => {
            // random magnitude: uniform bit length, so the rounding cases above 2^53 are common
            let bits = r.range(1, 63);
            let m = (r.next() >> (64 - bits)) as i64;
            if r.chance(1, 2) {
                m
            } else {
                -m
            }
        }
        4 => {
            // exactly at or next to a rounding half-way point
            let sh = r.range(1, 10);
            let q = (1u64 << 52) | (r.next() >> 12);
            let base = (q << sh) as i64;
            let half = 1i64 << (sh - 1);
            let v = base.wrapping_add(half).wrapping_add(r.below(3) as i64 - 1);
            if r.chance(1, 2) {
                v
            } else {
                v.wrapping_neg()
            }
        }
        _ => r.next() as i64,
    }
}

fn rand_float(r: &mut Rng) -> f64 {
    match r.below(6) {
        0 | 1 => f64::from_bits(*r.pick(&float_specials())),
        2 => (r.below(9) as f64 - 4.0) / 2.0,
        3 => rand_int(r) as f64,
        4 => {
            // a neighbour of an integer's image
            let b = (rand_int(r) as f64).to_bits();
            f64::from_bits(b.wrapping_add(r.below(3)).wrapping_sub(1))
        }
        _ => f64::from_bits(r.next()),
    }
}

const KEYS: [&str; 6] = ["", "a", "b", "ab", "k", "é"];
const STRS: [&str; 7] = ["", "a", "ab", "b", "true", "é", "a\u{0}"];
const F32S: [u32; 10] =
    [0, 0x80000000, 0x3f800000, 0xbf800000, 0x40000000, 0x7fc00000, 0xffc00000, 0x7f800000, 0xff800000, 0x7f800001];

fn rand_leaf(r: &mut Rng) -> PV {
    match r.below(12) {
        0 | 1 | 2 => PV::Integer(rand_int(r)),
        3 | 4 | 5 => PV::Float(rand_float(r)),
        6 => s(*r.pick(&STRS[..])),
        7 => PV::Boolean(r.chance(1, 2)),
        8 => PV::DateTime(rand_int(r)),
        9 => PV::Null,
        10 => {
            let n = r.below(4);
            PV::Vector((0..n).map(|_| f32::from_bits(if r.chance(3, 4) { *r.pick(&F32S) } else { r.next() as u32 })).collect())
        }
        _ => dur(r.below(3) as i64 - 1, r.below(3) as i64, rand_int(r), (r.below(3) as i32) - 1),
    }
}

fn rand_value(r: &mut Rng, depth: u32) -> PV {
    if depth == 0 || r.chance(2, 5) {
        return rand_leaf(r);
    }
    if r.chance(1, 2) {
        let n = r.below(4);
        PV::Array((0..n).map(|_| rand_value(r, depth - 1)).collect())
    } else {
        let n = r.below(4);
        let mut m = HashMap::new();
        for _ in 0..n {
            m.insert(r.pick(&KEYS).to_string(), rand_value(r, depth - 1));
        }
        PV::Map(m)
    }
}

/// A value near `v`: one leaf or one level changed in a way the orders care about.
fn mutate(r: &mut Rng, v: &PV) -> PV {
    match v {
        PV::Integer(i) => match r.below(4) {
            0 => PV::Float(*i as f64),
            1 => PV::Integer(i.wrapping_add(1)),
            2 => PV::Integer(i.wrapping_sub(1)),
            _ => PV::Float(f64::from_bits((*i as f64).to_bits() ^ (1 << 63))),
        },
        PV::Float(f) => match r.below(6) {
            0 => PV::Float(f64::from_bits(f.to_bits() ^ (1 << 63))),
            1 => PV::Float(f64::from_bits(f.to_bits().wrapping_add(1))),
            2 => PV::Float(f64::from_bits(f.to_bits().wrapping_sub(1))),
            3 => fl(if r.chance(1, 2) { QNAN } else { NQNAN }),
            4 => {
                if f.is_finite() && f.abs() < 9.3e18 {
                    PV::Integer(*f as i64)
                } else {
                    PV::Integer(0)
                }
            }
            _ => PV::Float(-0.0),
        },
        PV::String(x) => {
            if r.chance(1, 2) {
                s(&format!("{}a", x))
            } else {
                let mut c = x.clone();
                c.pop();
                PV::String(c)
            }
        }
        PV::Boolean(b) => PV::Boolean(!b),
        PV::DateTime(d) => {
            if r.chance(1, 2) {
                PV::DateTime(d.wrapping_add(1))
            } else {
                PV::Integer(*d)
            }
        }
        PV::Null => PV::Array(vec![]),
        PV::Vector(x) => {
            let mut y = x.clone();
            if y.is_empty() || r.chance(1, 3) {
                y.push(f32::from_bits(*r.pick(&F32S)));
            } else {
                let k = r.below(y.len() as u64) as usize;
                y[k] = f32::from_bits(y[k].to_bits() ^ 0x8000_0000);
            }
            if r.chance(1, 6) {
                PV::Array(y.iter().map(|f| PV::Float(*f as f64)).collect())
            } else {
                PV::Vector(y)
            }
        }
        PV::Duration { months, days, seconds, nanos } => match r.below(4) {
            0 => dur(months + 1, *days, *seconds, *nanos),
            1 => dur(*months, days - 1, *seconds, *nanos),
            2 => dur(*months, *days, seconds.wrapping_add(1), *nanos),
            _ => dur(*months, *days, *seconds, nanos.wrapping_add(1)),
        },
        PV::Array(a) => {
            let mut b = a.clone();
            match r.below(4) {
                0 => b.push(rand_leaf(r)),
                1 => {
                    b.pop();
                }
                _ => {
                    if b.is_empty() {
                        b.push(rand_leaf(r));
                    } else {
                        let k = r.below(b.len() as u64) as usize;
                        b[k] = mutate(r, &b[k]);
                    }
                }
            }
            PV::Array(b)
        }
        PV::Map(m) => {
            let mut ks: Vec<String> = m.keys().cloned().collect();
            ks.sort();
            let mut n: HashMap<String, PV> = HashMap::new();
            // rebuilt in reverse key order: equal maps must not depend on insertion order
            for k in ks.iter().rev() {
                n.insert(k.clone(), m[k].clone());
            }
            match r.below(4) {
                0 => {
                    n.insert(r.pick(&KEYS).to_string(), rand_leaf(r));
                }
                1 => {
                    if let Some(k) = ks.first() {
                        n.remove(k);
                    }
                }
                _ => {
                    if let Some(k) = ks.last() {
                        let nv = mutate(r, &m[k]);
                        n.insert(k.clone(), nv);
                    }
                }
            }
            PV::Map(n)
        }
    }
}

/// Same value, rebuilt from scratch (maps with a fresh HashMap and reversed insertion order).
fn rebuild(v: &PV) -> PV {
    match v {
        PV::Array(a) => PV::Array(a.iter().map(rebuild).collect()),
        PV::Map(m) => {
            let mut ks: Vec<&String> = m.keys().collect();
            ks.sort();
            let mut n = HashMap::new();
            for k in ks.iter().rev() {
                n.insert((*k).clone(), rebuild(&m[*k]));
            }
            PV::Map(n)
        }
        other => other.clone(),
    }
}

// ---------- observations and laws ----------
struct Matrix {
    cmp: Vec<Vec<Ordering>>,
    eq: Vec<Vec<bool>>,
    cy: Vec<Vec<Ordering>>,
}

fn observe(rows: &[PV], cols: &[PV]) -> Matrix {
    let mut m = Matrix { cmp: Vec::new(), eq: Vec::new(), cy: Vec::new() };
    for a in rows {
        m.cmp.push(cols.iter().map(|b| a.cmp(b)).collect());
        m.eq.push(cols.iter().map(|b| a == b).collect());
        m.cy.push(cols.iter().map(|b| cypher_order(a, b)).collect());
    }
    m
}

fn le(o: Ordering) -> bool {
    o != Ordering::Greater
}

/// The laws of the property on a square observation matrix (rows == cols == vals).
/// Returns (row index, description) for each violated law instance (capped per law).
fn laws(vals: &[PV], m: &Matrix, feeds: &[Vec<Tok>], triples: &mut u64) -> Vec<(usize, String)> {
    let n = vals.len();
    let mut bad: Vec<(usize, String)> = Vec::new();
    let mut per_law: HashMap<&'static str, usize> = HashMap::new();
    let mut report = |law: &'static str, i: usize, msg: String, bad: &mut Vec<(usize, String)>| {
        let c = per_law.entry(law).or_insert(0);
        *c += 1;
        if *c <= 4 {
            bad.push((i, format!("{}: {}", law, msg)));
        }
    };
    for i in 0..n {
        if m.cmp[i][i] != Ordering::Equal {
            report("cmp reflexive", i, format!("cmp(a,a)={:?} for a={}", m.cmp[i][i], h_pv(&vals[i])), &mut bad);
        }
        if !m.eq[i][i] {
            report("== reflexive", i, format!("a != a for a={}", h_pv(&vals[i])), &mut bad);
        }
        if m.cy[i][i] != Ordering::Equal {
            report("cypher_order reflexive", i, format!("cypher_order(a,a)={:?} for a={}", m.cy[i][i], h_pv(&vals[i])), &mut bad);
        }
        for j in 0..n {
            let (a, b) = (&vals[i], &vals[j]);
            if m.cmp[i][j] != m.cmp[j][i].reverse() {
                report(
                    "cmp antisymmetric",
                    i,
                    format!("cmp(a,b)={:?} cmp(b,a)={:?} a={} b={}", m.cmp[i][j], m.cmp[j][i], h_pv(a), h_pv(b)),
                    &mut bad,
                );
            }
            if m.cy[i][j] != m.cy[j][i].reverse() {
                report(
                    "cypher_order antisymmetric",
                    i,
                    format!("cy(a,b)={:?} cy(b,a)={:?} a={} b={}", m.cy[i][j], m.cy[j][i], h_pv(a), h_pv(b)),
                    &mut bad,
                );
            }
            if (m.cmp[i][j] == Ordering::Equal) != m.eq[i][j] {
                report(
                    "cmp == Equal iff ==",
                    i,
                    format!("cmp(a,b)={:?} but (a==b)={} a={} b={}", m.cmp[i][j], m.eq[i][j], h_pv(a), h_pv(b)),
                    &mut bad,
                );
            }
            if m.eq[i][j] != m.eq[j][i] {
                report("== symmetric", i, format!("a={} b={}", h_pv(a), h_pv(b)), &mut bad);
            }
            if m.eq[i][j] && feeds[i] != feeds[j] {
                report(
                    "equal values hash equally",
                    i,
                    format!("a==b but the hasher is fed {:?} vs {:?}; a={} b={}", feeds[i], feeds[j], h_pv(a), h_pv(b)),
                    &mut bad,
                );
            }
        }
    }
    for i in 0..n {
        for j in 0..n {
            let (cij, yij) = (m.cmp[i][j], m.cy[i][j]);
            for k in 0..n {
                *triples += 1;
                let (cjk, cik) = (m.cmp[j][k], m.cmp[i][k]);
                if le(cij) && le(cjk) {
                    let strict = cij == Ordering::Less || cjk == Ordering::Less;
                    let ok = if strict { cik == Ordering::Less } else { cik == Ordering::Equal };
                    if !ok {
                        report(
                            "cmp transitive",
                            i,
                            format!(
                                "cmp(a,b)={:?} cmp(b,c)={:?} but cmp(a,c)={:?}; a={} b={} c={}",
                                cij,
                                cjk,
                                cik,
                                h_pv(&vals[i]),
                                h_pv(&vals[j]),
                                h_pv(&vals[k])
                            ),
                            &mut bad,
                        );
                    }
                }
                if m.eq[i][j] && m.eq[j][k] && !m.eq[i][k] {
                    report(
                        "== transitive",
                        i,
                        format!("a={} b={} c={}", h_pv(&vals[i]), h_pv(&vals[j]), h_pv(&vals[k])),
                        &mut bad,
                    );
                }
                let (yjk, yik) = (m.cy[j][k], m.cy[i][k]);
                if le(yij) && le(yjk) {
                    let strict = yij == Ordering::Less || yjk == Ordering::Less;
                    let ok = if strict { yik == Ordering::Less } else { yik == Ordering::Equal };
                    if !ok {
                        report(
                            "cypher_order transitive",
                            i,
                            format!(
                                "cy(a,b)={:?} cy(b,c)={:?} but cy(a,c)={:?}; a={} b={} c={}",
                                yij,
                                yjk,
                                yik,
                                h_pv(&vals[i]),
                                h_pv(&vals[j]),
                                h_pv(&vals[k])
                            ),
                            &mut bad,
                        );
                    }
                }
            }
        }
    }
    bad
}

/// Sorting and index lookups must not depend on the order values arrive in.
fn order_free(vals: &[PV], r: &mut Rng) -> Option<String> {
    let n = vals.len();
    let mut perm: Vec<usize> = (0..n).collect();
    for i in (1..n).rev() {
        let j = r.below(i as u64 + 1) as usize;
        perm.swap(i, j);
    }
    // sort
    let mut s1: Vec<&PV> = vals.iter().collect();
    let mut s2: Vec<&PV> = perm.iter().map(|i| &vals[*i]).collect();
    let sorted1 = catch(std::panic::AssertUnwindSafe(|| {
        s1.sort();
        s1.iter().map(|v| g_pv(v)).collect::<Vec<_>>()
    }));
    let sorted2 = catch(std::panic::AssertUnwindSafe(|| {
        s2.sort();
        s2.iter().map(|v| g_pv(v)).collect::<Vec<_>>()
    }));
    match (&sorted1, &sorted2) {
        (Ok(a), Ok(b)) => {
            if a != b {
                let k = a.iter().zip(b.iter()).position(|(x, y)| x != y).unwrap_or(0);
                return Some(format!(
                    "sort depends on input order: position {} holds {} after sorting the values as listed, {} after sorting a permutation",
                    k, a[k], b[k]
                ));
            }
        }
        _ => return Some("sort panicked (the order is not total)".to_string()),
    }
    // index lookups
    let mut i1 = PropertyIndex::new();
    let mut i2 = PropertyIndex::new();
    for (k, v) in vals.iter().enumerate() {
        i1.insert(v.clone(), NodeId::new(k as u64));
    }
    for k in perm.iter() {
        i2.insert(vals[*k].clone(), NodeId::new(*k as u64));
    }
    for (k, v) in vals.iter().enumerate() {
        let mut g1 = i1.get(v);
        let mut g2 = i2.get(v);
        g1.sort();
        g2.sort();
        if g1 != g2 || !g1.contains(&NodeId::new(k as u64)) {
            return Some(format!(
                "index lookup depends on insertion order: get({}) returns {:?} after inserting in listed order, {:?} after inserting a permutation (expected to contain node {})",
                h_pv(v),
                g1,
                g2,
                k
            ));
        }
    }
    None
}

fn is_nan_any(v: &PV) -> bool {
    match v {
        PV::Float(f) => f.is_nan(),
        PV::Array(a) => a.iter().any(is_nan_any),
        PV::Map(m) => m.values().any(is_nan_any),
        PV::Vector(x) => x.iter().any(|f| f.is_nan()),
        _ => false,
    }
}
fn is_zero_any(v: &PV) -> bool {
    match v {
        PV::Float(f) => *f == 0.0,
        PV::Array(a) => a.iter().any(is_zero_any),
        PV::Map(m) => m.values().any(is_zero_any),
        PV::Vector(x) => x.iter().any(|f| *f == 0.0),
        _ => false,
    }
}
fn nested(v: &PV) -> bool {
    match v {
        PV::Array(a) => a.iter().any(|x| matches!(x, PV::Array(_) | PV::Map(_))),
        PV::Map(m) => m.values().any(|x| matches!(x, PV::Array(_) | PV::Map(_))),
        _ => false,
    }
}

fn count_pairs(out: &mut Out, rows: &[PV], cols: &[PV], m: &Matrix) {
    for (i, a) in rows.iter().enumerate() {
        for (j, b) in cols.iter().enumerate() {
            out.count("pairs");
            if is_nan_any(a) || is_nan_any(b) {
                out.count("pairs_with_nan");
            }
            if is_zero_any(a) && is_zero_any(b) {
                out.count("pairs_with_zeros");
            }
            if matches!((a, b), (PV::Integer(_), PV::Float(_)) | (PV::Float(_), PV::Integer(_))) {
                out.count("pairs_int_float");
            }
            if nested(a) && nested(b) {
                out.count("pairs_nested");
            }
            if m.cmp[i][j] == Ordering::Equal && g_pv(a) == g_pv(b) && matches!(a, PV::Array(_) | PV::Map(_)) {
                out.count("pairs_equal_containers");
            }
        }
    }
}

fn g_case(rows: &[PV], cols: &[PV], feeds: &[Vec<Tok>], m: &Matrix, row_range: std::ops::Range<usize>, convs: &[i64]) -> String {
    let rr: Vec<usize> = row_range.collect();
    format!(
        "({}, {}, {}, {}, {})",
        g_list(rr.iter().map(|i| g_pv(&rows[*i]))),
        g_list(cols.iter().map(g_pv)),
        g_list(rr.iter().map(|i| g_list(feeds[*i].iter().map(g_tok)))),
        g_list(rr.iter().map(|i| {
            g_list((0..cols.len()).map(|j| format!("({}, {}, {})", g_ord(m.cmp[*i][j]), g_bool(m.eq[*i][j]), g_ord(m.cy[*i][j]))))
        })),
        g_list(convs.iter().map(|i| format!("({}, {})", g_z(*i as i128), g_z((*i as f64).to_bits() as i128))))
    )
}

fn main() {
    let args = parse_args();
    quiet_panics();
    let mut out = Out::new(&args, "From Verif Require Import Value.", "Value.case", "Value.check_case", 120);
    out.rule = "boundary pool (every variant; signed zeros, NaNs of both signs and several payloads, infinities, \
                subnormals, integers around 2^53 and at the i64 limits and their float images, empty/nested arrays and \
                maps, vectors with NaN/-0.0, durations, null): every ordered pair (one case per pool row) and every \
                triple; random groups of 6 related nested values (a value, two successive mutations, a rebuilt copy, an \
                unrelated value, a pool value): all pairs and triples within the group; i64->f64 conversions compared \
                bit for bit. Laws evaluated on the implementation: reflexive, antisymmetric, transitive, cmp==Equal \
                iff ==, == implies identical Hasher calls, cypher_order total preorder, sort and PropertyIndex::get \
                independent of insertion order. Non-trivial = every case; distinct by case text."
        .to_string();

    // ---- boundary pool: all pairs, all triples ----
    let p = pool();
    let feeds: Vec<Vec<Tok>> = p.iter().map(feed).collect();
    let m = observe(&p, &p);
    let mut triples = 0u64;
    let bad = laws(&p, &m, &feeds, &mut triples);
    let pool_base = out.next_index();
    let ints = int_specials();
    for i in 0..p.len() {
        let idx = out.next_index();
        if !out.wants(idx) {
            out.skip();
            continue;
        }
        let convs: &[i64] = if i == 0 { &ints } else { &[] };
        let g = g_case(&p, &p, &feeds, &m, i..i + 1, convs);
        out.case(g, format!("pool row {}: {} against the {} pool values", i, h_pv(&p[i]), p.len()), true);
        out.count_n("conv_checks", convs.len() as u64);
    }
    count_pairs(&mut out, &p, &p, &m);
    out.count_n("pool_values", p.len() as u64);
    for (i, msg) in bad {
        let idx = pool_base + i as u64;
        if out.wants(idx) {
            out.fail(idx, &format!("pool row {}: {}", i, h_pv(&p[i])), &msg, None);
        }
    }
    {
        let mut r = Rng::for_case(args.seed, 0xC10);
        for round in 0..(if args.thorough { 40 } else { 6 }) {
            if let Some(msg) = order_free(&p, &mut r) {
                if out.wants(pool_base) {
                    out.fail(pool_base, &format!("boundary pool, permutation round {}", round), &msg, None);
                }
                break;
            }
            out.count("order_free_rounds");
        }
    }

    // ---- random groups ----
    let n = if args.thorough { 60000 } else { 2500 };
    for c in 0..n {
        let mut r = Rng::for_case(args.seed, c + 1);
        let depth = r.range(0, 3) as u32;
        let v0 = rand_value(&mut r, depth);
        let v1 = mutate(&mut r, &v0);
        let v2 = mutate(&mut r, &v1);
        let v3 = rebuild(&v0);
        let v4 = rand_value(&mut r, depth);
        let v5 = match &v0 {
            PV::Integer(_) | PV::Float(_) => {
                if r.chance(1, 2) {
                    PV::Float(rand_float(&mut r))
                } else {
                    PV::Integer(rand_int(&mut r))
                }
            }
            _ => r.pick(&p).clone(),
        };
        let vals = vec![v0, v1, v2, v3, v4, v5];
        let idx = out.next_index();
        if !out.wants(idx) {
            out.skip();
            continue;
        }
        let feeds: Vec<Vec<Tok>> = vals.iter().map(feed).collect();
        let m = observe(&vals, &vals);
        let mut bad = laws(&vals, &m, &feeds, &mut triples);
        if let Some(msg) = order_free(&vals, &mut r) {
            bad.push((0, msg));
        }
        out.count("order_free_rounds");
        let convs: Vec<i64> = (0..6).map(|_| rand_int(&mut r)).collect();
        out.count_n("conv_checks", convs.len() as u64);
        out.count_n("conv_beyond_2p53", convs.iter().filter(|i| i.unsigned_abs() > (1u64 << 53)).count() as u64);
        count_pairs(&mut out, &vals, &vals, &m);
        let human = format!("group [{}]", vals.iter().map(h_pv).collect::<Vec<_>>().join(" | "));
        let g = g_case(&vals, &vals, &feeds, &m, 0..vals.len(), &convs);
        let i = out.case(g, human.clone(), true);
        for (_, msg) in bad.into_iter().take(3) {
            out.fail(i, &human, &msg, None);
        }
    }
    out.count_n("triples", triples);
    out.finish();
}
