//! C32 — replicated requests have their persistence effect on every replica.
//!
//! The same request sequence is applied to 2–3 state machines on fresh directories (the last
//! replica through `RaftNode::write`, the others through `GraphStateMachine::apply`); every
//! replica is then recovered through a NEW PersistenceManager on its directory.  Checked here:
//! all replicas answered alike and recovered identical graphs, equal to the BTreeMap oracle's
//! fold of the effects of the requests not answered with Error.  The case goes to the Coq model
//! (`RaftSm.check_case`), which must predict every response and every recovered tenant view.
#[path = "persist_common/mod.rs"]
mod persist_common;
use persist_common::*;
use samyama::persistence::PersistenceManager;
use samyama::raft::node::RaftNode;
use samyama::raft::state_machine::{GraphStateMachine, Request, Response};
use std::sync::Arc;
use vh::*;

#[derive(Clone, Debug)]
enum Req {
    P(Op, Vec<usize>, u64), // persistence-backed request, raw (unsorted, possibly repeated) labels, version
    Query(usize),
}

fn to_request(r: &Req) -> Request {
    match r {
        Req::Query(t) => Request::ExecuteQuery { tenant: TENANTS[*t].to_string(), query: "MATCH (n) RETURN n".to_string() },
        Req::P(op, raw, version) => match op {
            Op::CreateNode { t, id, props, .. } => Request::CreateNode {
                tenant: TENANTS[*t].to_string(),
                node_id: *id,
                labels: raw.iter().map(|l| LABELS[*l].to_string()).collect(),
                properties: prop_map(props),
            },
            Op::CreateEdge { t, id, src, tgt, ty, props } => Request::CreateEdge {
                tenant: TENANTS[*t].to_string(),
                edge_id: *id,
                source: *src,
                target: *tgt,
                edge_type: TYPES[*ty].to_string(),
                properties: prop_map(props),
            },
            Op::DeleteNode { t, id } => Request::DeleteNode { tenant: TENANTS[*t].to_string(), node_id: *id },
            Op::DeleteEdge { t, id } => Request::DeleteEdge { tenant: TENANTS[*t].to_string(), edge_id: *id },
            Op::UpdateNode { t, id, props } => Request::UpdateNodeProperties { tenant: TENANTS[*t].to_string(), node_id: *id, properties: prop_map(props), version: *version },
            Op::UpdateEdge { t, id, props } => Request::UpdateEdgeProperties { tenant: TENANTS[*t].to_string(), edge_id: *id, properties: prop_map(props), version: *version },
            Op::Reopen { .. } => unreachable!(),
        },
    }
}

/// the operation the oracle applies for an acknowledged request (labels: [] => {""})
fn oracle_op(r: &Req) -> Option<Op> {
    match r {
        Req::Query(_) => None,
        Req::P(Op::CreateNode { t, id, props, .. }, raw, _) => {
            let labels = if raw.is_empty() { vec![0] } else { raw.clone() };
            Some(Op::CreateNode { t: *t, id: *id, labels, props: props.clone() })
        }
        Req::P(op, _, _) => Some(op.clone()),
    }
}

fn g_req(r: &Req) -> String {
    match r {
        Req::Query(t) => format!("RExecuteQuery {}", t),
        Req::P(op, raw, v) => match op {
            Op::CreateNode { t, id, props, .. } => format!("RCreateNode {} {} {} {}", t, id, g_list(raw.iter().map(|x| x.to_string())), g_props(props)),
            Op::CreateEdge { t, id, src, tgt, ty, props } => format!("RCreateEdge {} {} {} {} {} {}", t, id, src, tgt, ty, g_props(props)),
            Op::DeleteNode { t, id } => format!("RDeleteNode {} {}", t, id),
            Op::DeleteEdge { t, id } => format!("RDeleteEdge {} {}", t, id),
            Op::UpdateNode { t, id, props } => format!("RUpdateNode {} {} {} {}", t, id, g_props(props), v),
            Op::UpdateEdge { t, id, props } => format!("RUpdateEdge {} {} {} {}", t, id, g_props(props), v),
            Op::Reopen { .. } => unreachable!(),
        },
    }
}

#[derive(Clone, Debug, PartialEq)]
enum Resp {
    Ok,
    Node(u64),
    Edge(u64),
    Query(usize),
    Error,
}
fn resp_of(r: &Response) -> Resp {
    match r {
        Response::Ok => Resp::Ok,
        Response::NodeCreated { node_id } => Resp::Node(*node_id),
        Response::EdgeCreated { edge_id } => Resp::Edge(*edge_id),
        Response::QueryResult { rows } => Resp::Query(*rows),
        Response::Error { .. } => Resp::Error,
    }
}
fn g_resp(r: &Resp) -> String {
    match r {
        Resp::Ok => "ROk".into(),
        Resp::Node(i) => format!("(RNodeCreated {})", i),
        Resp::Edge(i) => format!("(REdgeCreated {})", i),
        Resp::Query(n) => format!("(RQueryResult {})", n),
        Resp::Error => "RError".into(),
    }
}

fn gen_reqs(r: &mut Rng) -> Vec<Req> {
    let n = r.range(2, 10);
    (0..n)
        .map(|_| {
            if r.chance(1, 12) {
                return Req::Query(r.below(TENANTS.len() as u64) as usize);
            }
            let op = gen_op(r, false);
            let raw = match &op {
                Op::CreateNode { .. } => {
                    let k = r.below(4);
                    (0..k).map(|_| r.below(LABELS.len() as u64) as usize).collect()
                }
                _ => vec![],
            };
            Req::P(op, raw, r.below(4))
        })
        .collect()
}

fn main() {
    let args = parse_args();
    quiet_panics();
    let rt = tokio::runtime::Builder::new_current_thread().enable_all().build().unwrap();
    let mut out = Out::new(&args, "From Verif Require Import Persist RaftSm.", "RaftSm.case", "RaftSm.check_case", if args.thorough { 36 } else { 30 });
    out.rule = "request sequences of 2..10 requests (create/delete/update of nodes and relationships, queries; 3 tenants of \
                which some are not registered or have quotas 1..3, so that requests fail; ids 1..4; label lists empty, \
                repeated and unsorted) applied to 2 or 3 state machines on fresh directories, the last one through \
                RaftNode::write; each replica recovered by a new PersistenceManager. Non-trivial = at least one request was \
                acknowledged; distinct by case text."
        .to_string();
    let n = if args.thorough { 600 } else { 60 };
    let base = args.out.join(".c32-run");
    for c in 0..n {
        let idx = out.next_index();
        if !out.wants(idx) {
            out.skip();
            continue;
        }
        let mut r = Rng::for_case(args.seed, c);
        let (regs, reqs) = if c == 0 {
            // stored witness: an acknowledged update request must be in every recovered replica
            (
                vec![],
                vec![
                    Req::P(Op::CreateNode { t: 0, id: 1, labels: vec![], props: vec![(0, 0)] }, vec![], 0),
                    Req::P(Op::UpdateNode { t: 0, id: 1, props: vec![(0, 5)] }, vec![], 2),
                ],
            )
        } else {
            (gen_regs(&mut r), gen_reqs(&mut r))
        };
        let replicas = if c % 3 == 0 { 3 } else { 2 };
        let human = format!("regs={:?} reqs={:?} replicas={}", regs, reqs, replicas);
        let mut bad: Vec<String> = Vec::new();
        let mut obs: Vec<(Vec<Resp>, Vec<(usize, Result<View, String>)>)> = Vec::new();
        for k in 0..replicas {
            let dir = base.join(format!("r{}", k));
            let _ = std::fs::remove_dir_all(&dir);
            std::fs::create_dir_all(&dir).expect("mkdir");
            let pm = Arc::new(PersistenceManager::new(&dir).expect("open"));
            register(&pm, &regs);
            let sm = GraphStateMachine::new(pm.clone());
            let mut resps = Vec::new();
            if k == replicas - 1 {
                let mut node = RaftNode::new(k as u64 + 1, sm);
                rt.block_on(async {
                    node.initialize(vec![]).await.expect("initialize");
                    for q in &reqs {
                        match node.write(to_request(q)).await {
                            Ok(x) => resps.push(resp_of(&x)),
                            Err(e) => {
                                bad.push(format!("RaftNode::write failed: {}", e));
                                resps.push(Resp::Error);
                            }
                        }
                    }
                });
                drop(node);
            } else {
                rt.block_on(async {
                    for q in &reqs {
                        resps.push(resp_of(&sm.apply(to_request(q)).await));
                    }
                });
                drop(sm);
            }
            drop(pm);
            let pm2 = PersistenceManager::new(&dir).expect("reopen");
            let rec = recover_all(&pm2);
            drop(pm2);
            obs.push((resps, rec));
        }
        // ---- the property on the implementation
        for k in 1..replicas {
            if obs[k].0 != obs[0].0 {
                bad.push(format!("replica {} answered {:?}, replica 0 answered {:?}", k, obs[k].0, obs[0].0));
            }
            if obs[k].1 != obs[0].1 {
                bad.push(format!("replica {} recovered {:?}, replica 0 recovered {:?}", k, obs[k].1, obs[0].1));
            }
        }
        let mut g = Graph::default();
        for (q, x) in reqs.iter().zip(obs[0].0.iter()) {
            if *x != Resp::Error {
                if let Some(op) = oracle_op(q) {
                    g.apply(&op);
                }
            }
        }
        for (t, v) in &obs[0].1 {
            match v {
                Ok(v) if *v == g.view(*t) => {}
                Ok(v) => bad.push(format!("tenant {:?}: recovered {:?}, effect of the acknowledged requests {:?}", TENANTS[*t], v, g.view(*t))),
                Err(e) => bad.push(format!("recover({:?}) failed: {}", TENANTS[*t], e)),
            }
        }
        let acked = obs[0].0.iter().filter(|x| **x != Resp::Error).count();
        if obs[0].0.iter().any(|x| *x == Resp::Error) {
            out.count("with_failed_request");
        }
        if reqs.iter().zip(obs[0].0.iter()).any(|(q, x)| *x != Resp::Error && matches!(q, Req::P(Op::UpdateNode { .. } | Op::UpdateEdge { .. }, _, _))) {
            out.count("with_acknowledged_update");
        }
        if reqs.iter().any(|q| matches!(q, Req::P(Op::CreateNode { .. }, raw, _) if raw.is_empty())) {
            out.count("create_node_without_labels");
        }
        if replicas == 3 {
            out.count("three_replicas");
        }
        out.count_n("requests", reqs.len() as u64);
        let term = format!(
            "({}, {}, {})",
            g_regs(&regs),
            g_list(reqs.iter().map(g_req)),
            g_list(obs.iter().map(|(xs, rec)| format!(
                "({}, {})",
                g_list(xs.iter().map(g_resp)),
                g_list(rec.iter().map(|(t, v)| format!("({}, {})", t, g_opt(v.as_ref().ok().map(g_view)))))
            )))
        );
        let i = out.case(term, human.clone(), acked > 0);
        if !bad.is_empty() {
            out.fail(i, &human, &bad.join(" | "), None);
        }
    }
    let _ = std::fs::remove_dir_all(&base);
    out.finish();
}
