//! C26 — graph algorithms vs. their reference definitions.
//!
//! Every case is a directed multigraph fed to the algorithms crate through the public
//! `GraphView::from_adjacency_list`.  The implementation's answers are (a) checked here against
//! plain brute-force references (Floyd–Warshall, reachability classes, cut enumeration /
//! matrix Ford–Fulkerson, Kruskal, triple loops) and (b) printed for the Coq model
//! (`Algos.check_case`), which evaluates the executable specifications and the models of
//! bfs / dijkstra / prim_mst on the same graph.
use samyama_graph_algorithms::{
    bfs, count_triangles, dijkstra, edmonds_karp, local_clustering_coefficient,
    local_clustering_coefficient_directed, prim_mst, strongly_connected_components,
    weakly_connected_components, GraphView,
};
use std::collections::{BTreeMap, BTreeSet, HashMap};
use vh::*;

const INF: u64 = u64::MAX / 4;

#[derive(Clone, Debug)]
struct G {
    n: usize,
    out: Vec<Vec<(usize, u64)>>, // (target, weight) in adjacency order
    weighted: bool,              // false: weights = None (every weight is 1)
}

thread_local! {
    /// node ids of the graph under test when they are not the default 100 + 7*i
    /// (graphs built in a GraphStore get the store's ids)
    static IDS: std::cell::RefCell<Option<Vec<u64>>> = std::cell::RefCell::new(None);
}
fn node_id(i: usize) -> u64 {
    IDS.with(|t| match &*t.borrow() {
        Some(v) => v[i],
        None => 100 + 7 * i as u64,
    })
}

impl G {
    fn edges(&self) -> Vec<(usize, usize, u64)> {
        let mut v = Vec::new();
        for u in 0..self.n {
            for &(t, w) in &self.out[u] {
                v.push((u, t, w));
            }
        }
        v
    }
    fn view(&self) -> GraphView {
        let index_to_node: Vec<u64> = (0..self.n).map(node_id).collect();
        let node_to_index: HashMap<u64, usize> = index_to_node.iter().enumerate().map(|(i, &x)| (x, i)).collect();
        let outgoing: Vec<Vec<usize>> = self.out.iter().map(|l| l.iter().map(|x| x.0).collect()).collect();
        // as src/algo/mod.rs build_view does: sources ascending, one entry per edge
        let mut incoming: Vec<Vec<usize>> = vec![Vec::new(); self.n];
        for u in 0..self.n {
            for &(t, _) in &self.out[u] {
                incoming[t].push(u);
            }
        }
        let weights = if self.weighted {
            Some(self.out.iter().map(|l| l.iter().map(|x| x.1 as f64).collect()).collect())
        } else {
            None
        };
        GraphView::from_adjacency_list(self.n, index_to_node, node_to_index, outgoing, incoming, weights)
    }
    fn human(&self) -> String {
        format!("n={} weighted={} out={:?}", self.n, self.weighted, self.out)
    }
}

// ---------------- brute-force references ----------------
struct Ref {
    dist: Vec<Vec<u64>>, // weighted, INF = unreachable
    hop: Vec<Vec<u64>>,
    wcc: Vec<Vec<usize>>,
    scc: Vec<Vec<usize>>,
    adj: Vec<Vec<bool>>, // undirected adjacency (self-loops kept on the diagonal)
    arc: Vec<Vec<bool>>, // directed adjacency
}

/// single-source cheapest walk costs by Bellman–Ford rounds until nothing changes
fn sssp(n: usize, es: &[(usize, usize, u64)], s: usize, unit: bool) -> Vec<u64> {
    let mut d = vec![INF; n];
    d[s] = 0;
    for _ in 0..=n {
        let mut changed = false;
        for &(u, v, w) in es {
            let w = if unit { 1 } else { w };
            if d[u] < INF && d[u] + w < d[v] {
                d[v] = d[u] + w;
                changed = true;
            }
        }
        if !changed {
            break;
        }
    }
    d
}
fn floyd(n: usize, es: &[(usize, usize, u64)], unit: bool) -> Vec<Vec<u64>> {
    (0..n).map(|s| sssp(n, es, s, unit)).collect()
}

fn classes(n: usize, same: impl Fn(usize, usize) -> bool) -> Vec<Vec<usize>> {
    let mut seen = vec![false; n];
    let mut out = Vec::new();
    for u in 0..n {
        if seen[u] {
            continue;
        }
        let c: Vec<usize> = (0..n).filter(|&v| same(u, v)).collect();
        for &v in &c {
            seen[v] = true;
        }
        out.push(c);
    }
    out
}

fn reference(g: &G) -> Ref {
    let n = g.n;
    let es = g.edges();
    let dist = floyd(n, &es, false);
    let hop = floyd(n, &es, true);
    let mut und: Vec<(usize, usize, u64)> = es.clone();
    und.extend(es.iter().map(|&(u, v, w)| (v, u, w)));
    let uh = floyd(n, &und, true);
    let wcc = classes(n, |a, b| uh[a][b] < INF);
    let scc = classes(n, |a, b| hop[a][b] < INF && hop[b][a] < INF);
    let mut adj = vec![vec![false; n]; n];
    let mut arc = vec![vec![false; n]; n];
    for &(u, v, _) in &es {
        adj[u][v] = true;
        adj[v][u] = true;
        arc[u][v] = true;
    }
    Ref { dist, hop, wcc, scc, adj, arc }
}

/// minimum cut by enumeration of source-side sets (n <= 16)
fn mincut_enum(n: usize, es: &[(usize, usize, u64)], s: usize, t: usize) -> Option<u64> {
    if s == t {
        return None;
    }
    let mut best: Option<u64> = None;
    for m in 0u32..(1u32 << n) {
        if m & (1 << s) == 0 || m & (1 << t) != 0 {
            continue;
        }
        let mut c = 0u64;
        for &(u, v, w) in es {
            if m & (1 << u) != 0 && m & (1 << v) == 0 {
                c += w;
            }
        }
        best = Some(best.map_or(c, |b| b.min(c)));
    }
    best
}

/// integer Ford–Fulkerson on a capacity matrix (reference for larger graphs)
fn maxflow_matrix(n: usize, es: &[(usize, usize, u64)], s: usize, t: usize) -> Option<u64> {
    if s == t {
        return None;
    }
    let mut cap = vec![vec![0u64; n]; n];
    for &(u, v, w) in es {
        cap[u][v] += w;
    }
    let mut flow = 0u64;
    loop {
        // DFS for any augmenting path
        let mut parent = vec![usize::MAX; n];
        let mut stack = vec![s];
        parent[s] = s;
        while let Some(u) = stack.pop() {
            for v in 0..n {
                if parent[v] == usize::MAX && cap[u][v] > 0 {
                    parent[v] = u;
                    stack.push(v);
                }
            }
        }
        if parent[t] == usize::MAX {
            return Some(flow);
        }
        let mut b = u64::MAX;
        let mut c = t;
        while c != s {
            b = b.min(cap[parent[c]][c]);
            c = parent[c];
        }
        c = t;
        while c != s {
            cap[parent[c]][c] -= b;
            cap[c][parent[c]] += b;
            c = parent[c];
        }
        flow += b;
    }
}

/// Kruskal on the undirected multigraph restricted to node 0's component
fn kruskal(g: &G, r: &Ref) -> (u64, usize) {
    if g.n == 0 {
        return (0, 0);
    }
    let comp: &Vec<usize> = r.wcc.iter().find(|c| c.contains(&0)).unwrap();
    let mut es: Vec<(usize, usize, u64)> = g.edges().into_iter().filter(|e| comp.contains(&e.0) && e.0 != e.1).collect();
    es.sort_by_key(|e| e.2);
    let mut p: Vec<usize> = (0..g.n).collect();
    fn find(p: &mut Vec<usize>, x: usize) -> usize {
        let mut x = x;
        while p[x] != x {
            p[x] = p[p[x]];
            x = p[x];
        }
        x
    }
    let mut total = 0;
    for (u, v, w) in es {
        let (a, b) = (find(&mut p, u), find(&mut p, v));
        if a != b {
            p[a] = b;
            total += w;
        }
    }
    (total, comp.len())
}

fn triangles_ref(n: usize, adj: &[Vec<bool>]) -> u64 {
    let nb: Vec<Vec<usize>> = (0..n).map(|u| (0..n).filter(|&v| adj[u][v]).collect()).collect();
    let mut c = 0;
    for u in 0..n {
        for &v in &nb[u] {
            if v <= u {
                continue;
            }
            for &w in &nb[v] {
                if w > v && adj[u][w] {
                    c += 1;
                }
            }
        }
    }
    c
}

/// undirected LCC by definition: (edges among distinct neighbours, deg*(deg-1)/2)
fn lcc_u_ref(n: usize, adj: &[Vec<bool>], v: usize) -> (u64, u64) {
    let nb: Vec<usize> = (0..n).filter(|&u| u != v && adj[u][v]).collect();
    let d = nb.len() as u64;
    if d < 2 {
        return (0, 1);
    }
    let mut e = 0;
    for i in 0..nb.len() {
        for j in i + 1..nb.len() {
            if adj[nb[i]][nb[j]] {
                e += 1;
            }
        }
    }
    (e, d * (d - 1) / 2)
}

/// Fagiolo's directed coefficient: T / (2 (d_tot (d_tot-1) - 2 d_bi))
fn lcc_d_ref(n: usize, arc: &[Vec<bool>], adj: &[Vec<bool>], i: usize) -> (u64, u64) {
    let a = |u: usize, v: usize| -> u64 { (u != v && arc[u][v]) as u64 };
    let b = |u: usize, v: usize| -> u64 { a(u, v) + a(v, u) };
    let deg = (0..n).filter(|&u| u != i && adj[u][i]).count();
    if deg < 2 {
        return (0, 1);
    }
    let js: Vec<usize> = (0..n).filter(|&j| b(i, j) > 0).collect();
    let mut t = 0u64;
    for &j in &js {
        for &k in &js {
            t += b(i, j) * b(i, k) * b(j, k);
        }
    }
    let dtot: u64 = js.iter().map(|&j| b(i, j)).sum();
    let dbi: u64 = js.iter().map(|&j| a(i, j) * a(j, i)).sum();
    let den = 2 * (dtot * dtot.saturating_sub(1)).saturating_sub(2 * dbi);
    if t == 0 || den == 0 {
        (0, 1)
    } else {
        (t, den)
    }
}

/// the fraction num/den (smallest den) whose f64 quotient is exactly `x`
fn to_fraction(x: f64, max_den: u64) -> Option<(u64, u64)> {
    if !(x.is_finite()) || x < 0.0 {
        return None;
    }
    for den in 1..=max_den {
        let num = (x * den as f64).round();
        if num / den as f64 == x {
            return Some((num as u64, den));
        }
    }
    None
}

fn as_int(x: f64) -> Option<u64> {
    if x.is_finite() && x >= 0.0 && x.fract() == 0.0 && x < 1e15 {
        Some(x as u64)
    } else {
        None
    }
}

fn canon(n: usize, node_component: &HashMap<u64, usize>, components: &HashMap<usize, Vec<u64>>) -> Result<Vec<Vec<usize>>, String> {
    // both maps must describe the same partition of all n nodes
    let mut by: BTreeMap<usize, Vec<usize>> = BTreeMap::new();
    for i in 0..n {
        match node_component.get(&node_id(i)) {
            Some(c) => by.entry(*c).or_default().push(i),
            None => return Err(format!("node {} has no component", i)),
        }
    }
    if node_component.len() != n {
        return Err("node_component has extra entries".into());
    }
    let mut a: Vec<Vec<usize>> = by.into_values().collect();
    for c in a.iter_mut() {
        c.sort();
    }
    a.sort();
    let mut b: Vec<Vec<usize>> = components
        .values()
        .map(|l| {
            let mut v: Vec<usize> = l.iter().map(|id| idx_of(*id)).collect();
            v.sort();
            v
        })
        .collect();
    b.sort();
    if a != b {
        return Err(format!("components {:?} and node_component {:?} disagree", b, a));
    }
    Ok(a)
}

fn idx_of(id: u64) -> usize {
    IDS.with(|t| match &*t.borrow() {
        Some(v) => v.iter().position(|x| *x == id).unwrap_or(usize::MAX),
        None => ((id - 100) / 7) as usize,
    })
}

/// is `p` a path of the graph from s to t whose cost can be `cost` (some choice of parallel edges)?
fn path_is_real(g: &G, p: &[usize], s: usize, t: usize, cost: u64, unit: bool) -> bool {
    if p.is_empty() || p[0] != s || *p.last().unwrap() != t {
        return false;
    }
    let mut sums: BTreeSet<u64> = BTreeSet::new();
    sums.insert(0);
    for k in 0..p.len() - 1 {
        let ws: Vec<u64> = g.out[p[k]].iter().filter(|x| x.0 == p[k + 1]).map(|x| if unit { 1 } else { x.1 }).collect();
        let mut next = BTreeSet::new();
        for s0 in &sums {
            for w in &ws {
                next.insert(s0 + w);
            }
        }
        sums = next;
    }
    sums.contains(&cost)
}

struct PairObs {
    s: usize,
    t: usize,
    bfs: Option<(Vec<usize>, u64)>,
    dij: Option<(Vec<usize>, u64)>,
    flow: Option<u64>,
}

fn g_path(o: &Option<(Vec<usize>, u64)>) -> String {
    g_opt(o.as_ref().map(|(p, c)| format!("({}, {})", g_list(p.iter().map(|x| x.to_string())), c)))
}

/// Run everything on one graph. `pairs`: the (source, target) pairs to query.
/// `to_coq`: also emit a case for the model.
fn run_graph(out: &mut Out, g: &G, pairs: &[(usize, usize)], to_coq: bool, tag: &str) {
    run_graph_on(out, g, pairs, to_coq, tag, None)
}

/// `eng`: the graph lives in a GraphStore; the view is what `build_view` projects for the given
/// label / relationship type / weight property, and the CALL algo.* procedures are run as well
fn run_graph_on(out: &mut Out, g: &G, pairs: &[(usize, usize)], to_coq: bool, tag: &str, eng: Option<&Engine>) {
    let idx = out.next_index();
    if to_coq && !out.wants(idx) {
        out.skip();
        return;
    }
    let human = format!("{} {} pairs={}", tag, g.human(), pairs.len());
    let view = match eng {
        Some(e) => samyama::algo::build_view(e.store, e.label, e.etype, e.prop),
        None => g.view(),
    };
    let r = reference(g);
    let es = g.edges();
    let n = g.n;
    let mut bad: Vec<String> = Vec::new();

    // ---- components
    let w = weakly_connected_components(&view);
    let wcc = canon(n, &w.node_component, &w.components).unwrap_or_else(|e| {
        bad.push(format!("wcc malformed: {}", e));
        vec![]
    });
    if wcc != r.wcc {
        bad.push(format!("wcc {:?} != reachability classes {:?}", wcc, r.wcc));
    }
    let sres = catch(std::panic::AssertUnwindSafe(|| strongly_connected_components(&view)));
    let scc = match sres {
        Ok(s) => canon(n, &s.node_component, &s.components).unwrap_or_else(|e| {
            bad.push(format!("scc malformed: {}", e));
            vec![]
        }),
        Err(e) => {
            bad.push(format!("scc panicked: {}", e));
            vec![]
        }
    };
    if scc != r.scc {
        bad.push(format!("scc {:?} != mutual-reachability classes {:?}", scc, r.scc));
    }
    if r.scc.iter().any(|c| c.len() > 1) {
        out.count("scc_nontrivial");
    }
    if r.wcc.len() > 1 {
        out.count("disconnected");
    }

    // ---- triangles / lcc
    let tri = count_triangles(&view) as u64;
    let tri_ref = triangles_ref(n, &r.adj);
    if tri != tri_ref {
        bad.push(format!("triangles {} != {}", tri, tri_ref));
    }
    if tri_ref > 0 {
        out.count("with_triangle");
    }
    let lu = local_clustering_coefficient(&view);
    let ld = local_clustering_coefficient_directed(&view, true);
    let mut lu_obs = Vec::new();
    let mut ld_obs = Vec::new();
    let mut sum_u = 0.0;
    for i in 0..n {
        let (a, b) = lcc_u_ref(n, &r.adj, i);
        match lu.coefficients.get(&node_id(i)) {
            Some(&x) if x == a as f64 / b as f64 => {}
            other => bad.push(format!("lcc(undirected) of node {} = {:?}, definition gives {}/{}", i, other, a, b)),
        }
        let (c, d) = lcc_d_ref(n, &r.arc, &r.adj, i);
        match ld.coefficients.get(&node_id(i)) {
            Some(&x) if x == c as f64 / d as f64 => {}
            other => bad.push(format!("lcc(directed) of node {} = {:?}, definition gives {}/{}", i, other, c, d)),
        }
        if c > 0 {
            out.count("lcc_directed_nonzero");
        }
        if to_coq {
            let x = *lu.coefficients.get(&node_id(i)).unwrap_or(&-1.0);
            let y = *ld.coefficients.get(&node_id(i)).unwrap_or(&-1.0);
            sum_u += x;
            lu_obs.push(to_fraction(x, 4096).unwrap_or((1, 0)));
            ld_obs.push(to_fraction(y, 8192).unwrap_or((1, 0)));
        }
    }
    if to_coq && n > 0 && lu.average != sum_u / n as f64 {
        bad.push(format!("lcc average {} != mean of coefficients {}", lu.average, sum_u / n as f64));
    }

    // ---- MST
    let m = prim_mst(&view);
    let (kw, csize) = kruskal(g, &r);
    let mst_total = as_int(m.total_weight);
    let mut mst_edges: Vec<(usize, usize, u64)> = Vec::new();
    let mut edges_ok = true;
    for (a, b, w) in &m.edges {
        match as_int(*w) {
            Some(wi) => mst_edges.push((idx_of(*a), idx_of(*b), wi)),
            None => edges_ok = false,
        }
    }
    if mst_total != Some(kw) {
        bad.push(format!("prim total_weight {} != minimum spanning tree weight {} of node 0's component", m.total_weight, kw));
    }
    if !edges_ok || (n > 0 && mst_edges.len() != csize - 1) {
        bad.push(format!("prim returned {} edges for a component of {} nodes", m.edges.len(), csize));
    }
    if mst_edges.iter().map(|e| e.2).sum::<u64>() != mst_total.unwrap_or(u64::MAX) {
        bad.push("prim edge weights do not sum to total_weight".into());
    }
    for &(a, b, w) in &mst_edges {
        let exists = es.iter().any(|&(u, v, x)| x == w && ((u == a && v == b) || (u == b && v == a)));
        if !exists {
            bad.push(format!("prim edge ({},{},{}) is not an edge of the graph", a, b, w));
        }
    }
    // the Prim shape: an incoming neighbour reached over parallel edges whose first is not the lightest
    let mut shape = false;
    for v in 0..n {
        for u in 0..n {
            let ws: Vec<u64> = g.out[v].iter().filter(|x| x.0 == u).map(|x| x.1).collect();
            if u != v && ws.len() > 1 && ws[0] > *ws.iter().min().unwrap() {
                shape = true;
            }
        }
    }
    if shape {
        out.count("parallel_heavier_first");
    }

    // ---- per pair
    let mut pobs: Vec<PairObs> = Vec::new();
    for &(s, t) in pairs {
        let (sid, tid) = (node_id(s), node_id(t));
        let b = bfs(&view, sid, tid);
        let bo = match &b {
            Some(p) => {
                let path: Vec<usize> = p.path.iter().map(|x| idx_of(*x)).collect();
                match as_int(p.cost) {
                    Some(c) => Some((path, c)),
                    None => {
                        bad.push(format!("bfs cost {} not an integer", p.cost));
                        None
                    }
                }
            }
            None => None,
        };
        match (&bo, r.hop[s][t] < INF) {
            (None, false) => {}
            (Some((p, c)), true) => {
                if *c != r.hop[s][t] || p.len() as u64 != c + 1 || !path_is_real(g, p, s, t, *c, true) {
                    bad.push(format!("bfs {}->{}: path {:?} cost {} ; optimal hop count {}", s, t, p, c, r.hop[s][t]));
                }
                if *c >= 2 {
                    out.count("bfs_path_len_ge2");
                }
            }
            (x, reach) => bad.push(format!("bfs {}->{}: {:?} but reachable={}", s, t, x, reach)),
        }
        let d = dijkstra(&view, sid, tid);
        let dobs = match &d {
            Some(p) => {
                let path: Vec<usize> = p.path.iter().map(|x| idx_of(*x)).collect();
                match as_int(p.cost) {
                    Some(c) => Some((path, c)),
                    None => {
                        bad.push(format!("dijkstra cost {} not an integer", p.cost));
                        None
                    }
                }
            }
            None => None,
        };
        match (&dobs, r.dist[s][t] < INF) {
            (None, false) => {}
            (Some((p, c)), true) => {
                if *c != r.dist[s][t] || !path_is_real(g, p, s, t, *c, false) {
                    bad.push(format!("dijkstra {}->{}: path {:?} cost {} ; optimal cost {}", s, t, p, c, r.dist[s][t]));
                }
                if r.dist[s][t] != r.hop[s][t] && p.len() >= 3 {
                    out.count("dijkstra_weighted_multi_hop");
                }
            }
            (x, reach) => bad.push(format!("dijkstra {}->{}: {:?} but reachable={}", s, t, x, reach)),
        }
        let f = edmonds_karp(&view, sid, tid);
        let fo = match &f {
            Some(fr) => match as_int(fr.max_flow) {
                Some(c) => Some(c),
                None => {
                    bad.push(format!("max_flow {} not an integer", fr.max_flow));
                    None
                }
            },
            None => None,
        };
        let cut = if n <= 12 { mincut_enum(n, &es, s, t) } else { maxflow_matrix(n, &es, s, t) };
        if fo != cut {
            bad.push(format!("max flow {}->{} = {:?}, minimum cut = {:?}", s, t, fo, cut));
        }
        if cut.map_or(false, |c| c > 0) {
            out.count("flow_positive");
        }
        pobs.push(PairObs { s, t, bfs: bo, dij: dobs, flow: fo });
    }
    out.count_n("pairs", pairs.len() as u64);
    if let Some(e) = eng {
        engine_checks(out, e, g, &wcc, &scc, tri, &lu.coefficients, mst_total, &pobs, &mut bad);
    }

    if !to_coq {
        out.count("rust_only_graphs");
        if !bad.is_empty() {
            // still recorded as a (trivial for Coq) case so that the failure has an index
            let i = out.case("(0, [], [], [], 0, [], [], 0, [], [])".to_string(), human.clone(), false);
            out.fail(i, &human, &bad.join(" | "), None);
        }
        return;
    }
    let g_edges = |l: &[(usize, usize, u64)]| g_list(l.iter().map(|(u, v, w)| format!("({}, {}, {})", u, v, w)));
    let g_parts = |p: &Vec<Vec<usize>>| g_list(p.iter().map(|c| g_list(c.iter().map(|x| x.to_string()))));
    let g_fr = |l: &Vec<(u64, u64)>| g_list(l.iter().map(|(a, b)| format!("({}, {})", a, b)));
    let term = format!(
        "({}, {}, {}, {}, {}, {}, {}, {}, {}, {})",
        n,
        g_edges(&es),
        g_parts(&wcc),
        g_parts(&scc),
        tri,
        g_fr(&lu_obs),
        g_fr(&ld_obs),
        mst_total.unwrap_or(999_999_999),
        g_edges(&mst_edges),
        g_list(pobs.iter().map(|p| format!(
            "({}, {}, {}, {}, {})",
            p.s,
            p.t,
            g_path(&p.bfs),
            g_path(&p.dij),
            g_opt(p.flow.map(|x| x.to_string()))
        )))
    );
    let i = out.case(term, human.clone(), !es.is_empty());
    if !bad.is_empty() {
        out.fail(i, &human, &bad.join(" | "), None);
    }
}

// ---------------- CALL algo.* through the query engine ----------------
struct Engine<'a> {
    store: &'a samyama::graph::GraphStore,
    label: Option<&'a str>,
    etype: Option<&'a str>,
    prop: Option<&'a str>,
}

fn call(store: &samyama::graph::GraphStore, q: &str) -> Result<samyama::query::RecordBatch, String> {
    samyama::query::QueryEngine::new().execute(q, store).map_err(|e| format!("{} failed: {}", q, e))
}

fn rec_float(r: &samyama::query::Record, k: &str) -> Option<f64> {
    r.get(k).and_then(|v| v.as_property()).and_then(|p| p.as_float().or_else(|| p.as_integer().map(|i| i as f64)))
}
fn rec_node(r: &samyama::query::Record, k: &str) -> Option<u64> {
    r.get(k).and_then(|v| v.as_node()).map(|(id, _)| id.as_u64())
}

/// (node id -> component id) from `CALL algo.wcc/scc ... YIELD node, componentId`
fn call_components(store: &samyama::graph::GraphStore, q: &str, n: usize) -> Result<Vec<Vec<usize>>, String> {
    let b = call(store, q)?;
    let mut nc: HashMap<u64, usize> = HashMap::new();
    let mut comps: HashMap<usize, Vec<u64>> = HashMap::new();
    for r in &b.records {
        let id = rec_node(r, "node").ok_or_else(|| format!("{}: row without node", q))?;
        let c = rec_float(r, "componentId").ok_or_else(|| format!("{}: row without componentId", q))? as usize;
        nc.insert(id, c);
        comps.entry(c).or_default().push(id);
    }
    canon(n, &nc, &comps).map_err(|e| format!("{}: {}", q, e))
}

/// the CALL algo.* procedures must return what the crate functions return on the projected view
#[allow(clippy::too_many_arguments)]
fn engine_checks(
    out: &mut Out,
    e: &Engine,
    g: &G,
    wcc: &Vec<Vec<usize>>,
    scc: &Vec<Vec<usize>>,
    tri: u64,
    lcc: &HashMap<u64, f64>,
    mst_total: Option<u64>,
    pobs: &[PairObs],
    bad: &mut Vec<String>,
) {
    let args = match (e.label, e.etype) {
        (Some(l), Some(t)) => format!("'{}', '{}'", l, t),
        (Some(l), None) => format!("'{}'", l),
        _ => String::new(),
    };
    // wcc and lcc honour the label / type projection
    match call_components(e.store, &format!("CALL algo.wcc({}) YIELD node, componentId", args), g.n) {
        Ok(p) if &p == wcc => out.count("engine_wcc"),
        Ok(p) => bad.push(format!("CALL algo.wcc({}) gave {:?}, the projected graph has {:?}", args, p, wcc)),
        Err(x) => bad.push(x),
    }
    match call(e.store, &format!("CALL algo.lcc({}) YIELD node, coefficient", args)) {
        Ok(b) => {
            let mut seen = 0;
            for r in &b.records {
                match (rec_node(r, "node"), rec_float(r, "coefficient")) {
                    (Some(id), Some(c)) if lcc.get(&id).map(|x| x.to_bits()) == Some(c.to_bits()) => seen += 1,
                    (id, c) => bad.push(format!("CALL algo.lcc({}) row {:?} {:?} does not match the projected view", args, id, c)),
                }
            }
            if seen != g.n {
                bad.push(format!("CALL algo.lcc({}) returned {} matching rows for {} nodes", args, seen, g.n));
            }
            out.count("engine_lcc");
        }
        Err(x) => bad.push(x),
    }
    if e.label.is_some() || e.etype.is_some() {
        return;
    }
    // procedures that always work on the whole graph
    match call_components(e.store, "CALL algo.scc() YIELD node, componentId", g.n) {
        Ok(p) if &p == scc => out.count("engine_scc"),
        Ok(p) => bad.push(format!("CALL algo.scc() gave {:?}, expected {:?}", p, scc)),
        Err(x) => bad.push(x),
    }
    match call(e.store, "CALL algo.triangleCount() YIELD triangles") {
        Ok(b) => match b.records.first().and_then(|r| rec_float(r, "triangles")) {
            Some(t) if t as u64 == tri => out.count("engine_triangles"),
            t => bad.push(format!("CALL algo.triangleCount() gave {:?}, expected {}", t, tri)),
        },
        Err(x) => bad.push(x),
    }
    if let Some(prop) = e.prop {
        match call(e.store, &format!("CALL algo.mst('{}') YIELD total_weight", prop)) {
            Ok(b) => match b.records.first().and_then(|r| rec_float(r, "total_weight")) {
                Some(t) if Some(t as u64) == mst_total && t.fract() == 0.0 => out.count("engine_mst"),
                t => bad.push(format!("CALL algo.mst('{}') gave {:?}, expected {:?}", prop, t, mst_total)),
            },
            Err(x) => bad.push(x),
        }
        for p in pobs {
            let (sid, tid) = (node_id(p.s), node_id(p.t));
            // max flow: "no flow" (same node) is reported as 0
            match call(e.store, &format!("CALL algo.maxFlow({}, {}, '{}') YIELD max_flow", sid, tid, prop)) {
                Ok(b) => match b.records.first().and_then(|r| rec_float(r, "max_flow")) {
                    Some(f) if f as u64 == p.flow.unwrap_or(0) && f.fract() == 0.0 => out.count("engine_maxflow"),
                    f => bad.push(format!("CALL algo.maxFlow({},{}) gave {:?}, expected {:?}", p.s, p.t, f, p.flow)),
                },
                Err(x) => bad.push(x),
            }
            for (q, want, name) in [
                (format!("CALL algo.weightedPath({}, {}, '{}') YIELD path, cost", sid, tid, prop), &p.dij, "weightedPath"),
                (format!("CALL algo.shortestPath({}, {}) YIELD path, cost", sid, tid), &p.bfs, "shortestPath"),
            ] {
                match call(e.store, &q) {
                    Ok(b) => {
                        let got: Option<(Vec<usize>, u64)> = b.records.first().and_then(|r| {
                            let cost = rec_float(r, "cost")?;
                            let path = match r.get("path").and_then(|v| v.as_property()) {
                                Some(samyama::graph::PropertyValue::Array(a)) => {
                                    a.iter().map(|x| x.as_integer().map(|i| idx_of(i as u64)).unwrap_or(usize::MAX)).collect()
                                }
                                _ => return None,
                            };
                            Some((path, cost as u64))
                        });
                        if &got == want {
                            out.count(&format!("engine_{}", name));
                        } else {
                            bad.push(format!("CALL algo.{}({},{}) gave {:?}, the crate function gave {:?}", name, p.s, p.t, got, want));
                        }
                    }
                    Err(x) => bad.push(x),
                }
            }
        }
    }
}

const ELABELS: [&str; 2] = ["A", "B"];
const ETYPES: [&str; 2] = ["R", "S"];

/// one graph in a GraphStore with labels, relationship types and a weight property (Integer,
/// Float or absent = 1), checked under three projections
fn engine_case(out: &mut Out, r: &mut Rng) {
    let n = r.range(2, 6) as usize;
    let m = r.range(1, 10) as usize;
    let labels: Vec<usize> = (0..n).map(|_| r.below(2) as usize).collect();
    // (source, target, weight, type, how the weight is stored: 0 Integer, 1 Float, 2 absent)
    let mut edges: Vec<(usize, usize, u64, usize, u8)> = Vec::new();
    for _ in 0..m {
        let u = r.below(n as u64) as usize;
        let v = r.below(n as u64) as usize;
        let kind = r.below(5);
        let (w, k) = if kind == 0 { (1, 2u8) } else { (*r.pick(&[1u64, 2, 3, 5, 7]), (kind % 2) as u8) };
        edges.push((u, v, w, r.below(2) as usize, k));
    }
    edges.sort_by_key(|e| e.0); // stable: creation order grouped by source, as G.out is
    let mut store = samyama::graph::GraphStore::new();
    let ids: Vec<u64> = (0..n).map(|i| store.create_node(ELABELS[labels[i]]).as_u64()).collect();
    for &(u, v, w, ty, k) in &edges {
        let e = match store.create_edge(samyama::graph::NodeId::new(ids[u]), samyama::graph::NodeId::new(ids[v]), ETYPES[ty]) {
            Ok(e) => e,
            Err(_) => return,
        };
        match k {
            0 => store.set_edge_property_sparse(e, "w", samyama::graph::PropertyValue::Integer(w as i64)),
            1 => store.set_edge_property_sparse(e, "w", samyama::graph::PropertyValue::Float(w as f64)),
            _ => {}
        }
    }
    let l0 = r.below(2) as usize;
    let t0 = r.below(2) as usize;
    for (label, etype, prop) in [(None, None, Some("w")), (Some(l0), None, None), (Some(l0), Some(t0), None)] {
        let eng = Engine { store: &store, label: label.map(|l| ELABELS[l]), etype: etype.map(|t| ETYPES[t]), prop };
        // the node order of the projection is the view's; the node SET and the edges are ours
        let view = samyama::algo::build_view(&store, eng.label, eng.etype, eng.prop);
        let mut want: Vec<u64> = (0..n).filter(|&i| label.map_or(true, |l| labels[i] == l)).map(|i| ids[i]).collect();
        want.sort();
        let mut got = view.index_to_node.clone();
        got.sort();
        let tag = format!("engine label={:?} type={:?} weight={:?}", eng.label, eng.etype, eng.prop);
        if got != want {
            let human = format!("{} nodes={:?} edges={:?}", tag, labels, edges);
            let i = out.case("(0, [], [], [], 0, [], [], 0, [], [])".to_string(), human.clone(), false);
            out.fail(i, &human, &format!("build_view selected nodes {:?}, nodes with the label are {:?}", got, want), None);
            continue;
        }
        let order: Vec<u64> = view.index_to_node.clone();
        let pos = |id: u64| order.iter().position(|x| *x == id);
        let mut outl: Vec<Vec<(usize, u64)>> = vec![Vec::new(); order.len()];
        for &(u, v, w, ty, _) in &edges {
            if etype.map_or(true, |t| t == ty) {
                if let (Some(a), Some(b)) = (pos(ids[u]), pos(ids[v])) {
                    outl[a].push((b, if prop.is_some() { w } else { 1 }));
                }
            }
        }
        // the ORDER inside an adjacency list is the store's business (it is not creation order);
        // take it from the view, but only after checking that the view holds exactly our edges
        let mut view_out: Vec<Vec<(usize, u64)>> = Vec::new();
        let mut same = true;
        for u in 0..order.len() {
            let ws = view.weights(u);
            let l: Vec<(usize, u64)> = view
                .successors(u)
                .iter()
                .enumerate()
                .map(|(k, &v)| (v, ws.map_or(1.0, |w| w[k])))
                .map(|(v, w)| (v, if w.fract() == 0.0 && w >= 0.0 { w as u64 } else { u64::MAX }))
                .collect();
            let (mut a, mut b) = (l.clone(), outl[u].clone());
            a.sort();
            b.sort();
            if a != b {
                same = false;
            }
            view_out.push(l);
        }
        if !same {
            let human = format!("{} nodes={:?} edges={:?}", tag, labels, edges);
            let i = out.case("(0, [], [], [], 0, [], [], 0, [], [])".to_string(), human.clone(), false);
            out.fail(i, &human, &format!("build_view projected edges {:?}, the generated data projects to {:?}", view_out, outl), None);
            continue;
        }
        if view_out != outl {
            out.count("engine_adjacency_reordered_by_store");
        }
        let g = G { n: order.len(), out: view_out, weighted: prop.is_some() };
        IDS.with(|t| *t.borrow_mut() = Some(order.clone()));
        let pairs = if label.is_none() { all_pairs(g.n) } else { vec![] };
        run_graph_on(out, &g, &pairs, true, &tag, Some(&eng));
        IDS.with(|t| *t.borrow_mut() = None);
        out.count("engine_projections");
        if g.n < n || g.edges().len() < edges.len() {
            out.count("engine_projection_drops_something");
        }
    }
}

fn all_pairs(n: usize) -> Vec<(usize, usize)> {
    (0..n).flat_map(|s| (0..n).map(move |t| (s, t))).collect()
}

/// multiplicity structure -> graph: `mult[u][v]` parallel edges u->v with weights drawn from `ws`
fn from_mult(n: usize, mult: &[Vec<usize>], r: &mut Rng, ws: &[u64], weighted: bool) -> G {
    let mut out = vec![Vec::new(); n];
    for u in 0..n {
        // targets in a random order, parallel edges adjacent or interleaved
        let mut l: Vec<(usize, u64)> = Vec::new();
        for v in 0..n {
            for _ in 0..mult[u][v] {
                l.push((v, if weighted { *r.pick(ws) } else { 1 }));
            }
        }
        if r.chance(1, 2) {
            for i in (1..l.len()).rev() {
                let j = r.below(i as u64 + 1) as usize;
                l.swap(i, j);
            }
        }
        out[u] = l;
    }
    G { n, out, weighted }
}

fn random_graph(r: &mut Rng, n: usize, m: usize, ws: &[u64], weighted: bool, self_loops: bool) -> G {
    let mut out = vec![Vec::new(); n];
    for _ in 0..m {
        let u = r.below(n as u64) as usize;
        let mut v = r.below(n as u64) as usize;
        if !self_loops && v == u {
            v = (u + 1) % n;
        }
        if n == 1 && !self_loops {
            continue;
        }
        out[u].push((v, if weighted { *r.pick(ws) } else { 1 }));
        // a parallel edge now and then
        if r.chance(1, 5) {
            out[u].push((v, if weighted { *r.pick(ws) } else { 1 }));
        }
    }
    G { n, out, weighted }
}

fn probe() {
    // C26_PROBE=ek_self : edmonds_karp(x, x) on a one-edge graph (used once to confirm a hang)
    let g = G { n: 2, out: vec![vec![(1, 1)], vec![]], weighted: true };
    let v = g.view();
    let r = edmonds_karp(&v, node_id(0), node_id(0));
    println!("edmonds_karp(x,x) returned {:?}", r.map(|f| f.max_flow));
}

fn main() {
    if std::env::var("C26_PROBE").is_ok() {
        probe();
        return;
    }
    let args = parse_args();
    quiet_panics();
    let mut out = Out::new(&args, "From Verif Require Import Algos Flow.", "Algos.ncase", "Flow.check_ncase", if args.thorough { 60 } else { 40 });
    out.rule = "directed multigraphs fed through GraphView::from_adjacency_list. Exhaustive: every multiplicity \
                structure (0/1/2 parallel edges per ordered pair, self-loops included for n<=2, excluded for n=3) on \
                1..3 nodes, all weight assignments from {1,2,5} for n<=2 without self-loops and sampled weights otherwise \
                (both orders of a parallel pair occur); thorough adds sampled 3-node graphs with self-loops, sampled \
                4-node structures and random graphs of 5..8 nodes to the Coq-evaluated set, every (source,target) for \
                n<=4 and 8 sampled pairs above; plus graphs of 2..6 nodes built in a GraphStore with two labels, two \
                relationship types and a weight property (Integer / Float / absent), each checked under the projections \
                (all, all, weight), (label), (label, type): build_view's view against our own projection, and every CALL \
                algo.* procedure against the crate function on that view. Rust-only (brute-force references, no Coq case): random graphs of \
                20..300 nodes and one of 1200 nodes (parallel paths of count_triangles/lcc). Non-trivial = has an edge; \
                distinct by case text."
        .to_string();
    let ws = [1u64, 2, 5];
    let mut r = Rng::new(args.seed);

    // ---- n = 0 and n = 1
    run_graph(&mut out, &G { n: 0, out: vec![], weighted: true }, &[], true, "empty");
    for k in 0..3usize {
        for w1 in ws {
            for w2 in ws {
                let l: Vec<(usize, u64)> = [(0, w1), (0, w2)][..k].to_vec();
                run_graph(&mut out, &G { n: 1, out: vec![l], weighted: true }, &all_pairs(1), true, "n1");
            }
        }
    }
    // ---- n = 2 without self-loops: every multiplicity and every weight assignment (ordered)
    let opts: Vec<Vec<u64>> = {
        let mut o = vec![vec![]];
        for a in ws {
            o.push(vec![a]);
        }
        for a in ws {
            for b in ws {
                o.push(vec![a, b]);
            }
        }
        o
    };
    for a in &opts {
        for b in &opts {
            let g = G {
                n: 2,
                out: vec![a.iter().map(|w| (1usize, *w)).collect(), b.iter().map(|w| (0usize, *w)).collect()],
                weighted: true,
            };
            run_graph(&mut out, &g, &all_pairs(2), true, "n2");
        }
    }
    // ---- n = 2 with self-loops: every multiplicity structure, sampled weights
    for code in 0..81usize {
        let m = vec![vec![code % 3, (code / 3) % 3], vec![(code / 9) % 3, (code / 27) % 3]];
        let g = from_mult(2, &m, &mut r, &ws, true);
        run_graph(&mut out, &g, &all_pairs(2), true, "n2loops");
    }
    // ---- n = 3 without self-loops: every multiplicity structure (3^6), sampled weights;
    //      quick takes every structure once, thorough three weightings + an unweighted run
    let reps = if args.thorough { 3 } else { 1 };
    for code in 0..729usize {
        let mut m = vec![vec![0usize; 3]; 3];
        let mut c = code;
        for u in 0..3 {
            for v in 0..3 {
                if u != v {
                    m[u][v] = c % 3;
                    c /= 3;
                }
            }
        }
        for _ in 0..reps {
            let g = from_mult(3, &m, &mut r, &ws, true);
            run_graph(&mut out, &g, &all_pairs(3), true, "n3");
        }
        if args.thorough || code % 9 == 0 {
            let g = from_mult(3, &m, &mut r, &ws, false);
            run_graph(&mut out, &g, &all_pairs(3), true, "n3unweighted");
        }
    }
    // ---- the stored witness for the Prim defect (heavier parallel edge listed first, reached as
    //      an incoming neighbour of the start node)
    run_graph(&mut out, &G { n: 2, out: vec![vec![], vec![(0, 5), (0, 1)]], weighted: true }, &all_pairs(2), true, "prim-witness");

    // ---- sampled: 3 nodes with self-loops, 4 nodes
    let n3l = if args.thorough { 1500 } else { 60 };
    for _ in 0..n3l {
        let m: Vec<Vec<usize>> = (0..3).map(|_| (0..3).map(|_| r.below(3) as usize).collect()).collect();
        let g = from_mult(3, &m, &mut r, &ws, true);
        run_graph(&mut out, &g, &all_pairs(3), true, "n3loops");
    }
    let n4 = if args.thorough { 2500 } else { 60 };
    for _ in 0..n4 {
        // sparse-ish so that the MST enumeration stays small: each ordered pair 0/1/2 with weights 5:2:1
        let m: Vec<Vec<usize>> = (0..4)
            .map(|u| (0..4).map(|v| if u == v { (r.below(8) == 0) as usize } else { [0, 0, 0, 0, 0, 1, 1, 2][r.below(8) as usize] }).collect())
            .collect();
        let wt = r.chance(5, 6);
        let g = from_mult(4, &m, &mut r, &ws, wt);
        run_graph(&mut out, &g, &all_pairs(4), true, "n4");
    }
    // ---- random 5..8 nodes, Coq-evaluated (MST enumeration bounded by |E| <= 14)
    let nr = if args.thorough { 1200 } else { 40 };
    let wide = [1u64, 2, 3, 5, 7, 9];
    for _ in 0..nr {
        let n = r.range(5, 8) as usize;
        let m = r.range(n as u64 - 2, 11) as usize;
        let (wt, sl) = (r.chance(5, 6), r.chance(1, 4));
        let g = random_graph(&mut r, n, m, &wide, wt, sl);
        let mut pairs = Vec::new();
        for _ in 0..8 {
            pairs.push((r.below(n as u64) as usize, r.below(n as u64) as usize));
        }
        run_graph(&mut out, &g, &pairs, true, "rand");
    }
    // ---- CALL algo.* through the query engine on stores with labels / types / weights
    let ne = if args.thorough { 500 } else { 40 };
    for _ in 0..ne {
        engine_case(&mut out, &mut r);
    }
    // ---- Rust-only larger graphs
    let nl = if args.thorough { 120 } else { 12 };
    for k in 0..nl {
        let n = if k % 4 == 3 { r.range(150, 300) } else { r.range(20, 80) } as usize;
        let m = (n as u64 * r.range(1, 4) / 2) as usize;
        let (wt, sl) = (r.chance(5, 6), r.chance(1, 3));
        let g = random_graph(&mut r, n, m, &wide, wt, sl);
        let mut pairs = Vec::new();
        for _ in 0..40 {
            pairs.push((r.below(n as u64) as usize, r.below(n as u64) as usize));
        }
        run_graph(&mut out, &g, &pairs, false, "large");
    }
    {
        let n = 1200;
        let g = random_graph(&mut r, n, 2600, &wide, true, true);
        let pairs: Vec<(usize, usize)> = (0..6).map(|_| (r.below(n as u64) as usize, r.below(n as u64) as usize)).collect();
        run_graph(&mut out, &g, &pairs, false, "large-parallel");
    }
    out.finish();
}
