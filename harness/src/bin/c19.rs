//! C19 — writes acknowledged by the server survive a restart.
//!
//! Histories of write statements are sent through `CommandHandler` (GRAPH.QUERY, with a
//! `PersistenceManager` on a temporary directory, store built as in main.rs) and through the shipped
//! HTTP stack (`HttpServer::start` on a loopback port with `data_path`, sharing the same store).
//! Then everything is dropped, the directory is reopened and the store is rebuilt with main.rs's
//! recovery sequence (list_persisted_tenants -> recover -> insert_recovered_node / _edge) IN
//! PROCESS (a replica of that sequence, not the server binary). Property: the recovered graph
//! equals the graph served before the shutdown. Every statement carries the class derived from its
//! shape (0 survives, 1 resp-write-not-returned, 2 resp-delete, 3 http-any-write); a history
//! contains lossy statements of at most one class, and a loss is attributed to that class only if
//! the recovered graph is exactly what "only returned entities are persisted" predicts.
//! coq/model/ServerPersist.v replays each history from the observed effects.
use samyama::graph::{GraphStore, PropertyValue};
use samyama::http::HttpServer;
use samyama::persistence::PersistenceManager;
use samyama::protocol::command::CommandHandler;
use samyama::protocol::resp::RespValue;
use std::collections::BTreeMap;
use std::sync::Arc;
use tokio::io::{AsyncReadExt, AsyncWriteExt};
use tokio::sync::RwLock;
use vh::*;

const LABELS: [&str; 4] = ["", "L", "M", "X"];
const KEYS: [&str; 5] = ["", "k", "p", "q", "w"];

type Props = Vec<(u64, i64)>;
#[derive(Clone, Debug, PartialEq)]
struct NC {
    labels: Vec<u64>,
    props: Props,
}
#[derive(Clone, Debug, PartialEq)]
struct EC {
    src: u64,
    dst: u64,
    ty: u64,
    props: Props,
}
#[derive(Clone, Debug, PartialEq, Default)]
struct Dump {
    nodes: BTreeMap<u64, NC>,
    edges: BTreeMap<u64, EC>,
    unsupported: bool,
}

fn props_of<'a>(it: impl Iterator<Item = (&'a String, &'a PropertyValue)>, unsupported: &mut bool) -> Props {
    let mut out = Vec::new();
    for (k, v) in it {
        if v.is_null() {
            continue;
        }
        match (KEYS.iter().position(|x| *x == k.as_str()), v) {
            (Some(kc), PropertyValue::Integer(i)) => out.push((kc as u64, *i)),
            _ => *unsupported = true,
        }
    }
    out.sort();
    out
}

fn dump(g: &GraphStore) -> Dump {
    let mut d = Dump::default();
    for n in g.all_nodes() {
        let mut labels: Vec<u64> = n.labels.iter().map(|l| LABELS.iter().position(|x| *x == l.as_str()).unwrap_or(99) as u64).collect();
        labels.sort();
        let full = g.node_properties_full(n.id);
        let props = props_of(full.iter(), &mut d.unsupported);
        d.nodes.insert(n.id.as_u64(), NC { labels, props });
    }
    for e in g.all_edges() {
        let props = props_of(e.properties.iter(), &mut d.unsupported);
        d.edges.insert(
            e.id.as_u64(),
            EC { src: e.source.as_u64(), dst: e.target.as_u64(), ty: if e.edge_type.as_str() == "R" { 1 } else { 99 }, props },
        );
    }
    d
}

#[derive(Clone, Debug, PartialEq)]
enum Change {
    PutNode(u64, NC),
    PutEdge(u64, EC),
    DelNode(u64),
    DelEdge(u64),
}

fn diff(a: &Dump, b: &Dump) -> Vec<Change> {
    let mut out = Vec::new();
    for (id, c) in &b.nodes {
        if a.nodes.get(id) != Some(c) {
            out.push(Change::PutNode(*id, c.clone()));
        }
    }
    for (id, c) in &b.edges {
        if a.edges.get(id) != Some(c) {
            out.push(Change::PutEdge(*id, c.clone()));
        }
    }
    for id in a.edges.keys() {
        if !b.edges.contains_key(id) {
            out.push(Change::DelEdge(*id));
        }
    }
    for id in a.nodes.keys() {
        if !b.nodes.contains_key(id) {
            out.push(Change::DelNode(*id));
        }
    }
    out
}

#[derive(Clone, Copy, Debug, PartialEq)]
enum Ref {
    Node(u64),
    Edge(u64),
}

fn collect_refs(v: &RespValue, out: &mut Vec<Ref>) {
    match v {
        RespValue::Array(items) => {
            for i in items {
                collect_refs(i, out);
            }
        }
        RespValue::BulkString(Some(b)) => {
            let s = String::from_utf8_lossy(b);
            let num = |p: &str| -> Option<u64> {
                s.strip_prefix(p).and_then(|r| r.chars().take_while(|c| c.is_ascii_digit()).collect::<String>().parse().ok())
            };
            if let Some(i) = num("Node(NodeId(") {
                out.push(Ref::Node(i));
            } else if let Some(i) = num("Edge(EdgeId(") {
                out.push(Ref::Edge(i));
            }
        }
        _ => {}
    }
}

// ---------- Gallina ----------
fn g_props(p: &Props) -> String {
    g_list(p.iter().map(|(k, v)| format!("({}, {})", k, g_z(*v as i128))))
}
fn g_nc(c: &NC) -> String {
    format!("{{| c_labels := {}; c_props := {} |}}", g_list(c.labels.iter().map(|l| l.to_string())), g_props(&c.props))
}
fn g_ec(c: &EC) -> String {
    format!("{{| c_src := {}; c_dst := {}; c_type := {}; c_eprops := {} |}}", c.src, c.dst, c.ty, g_props(&c.props))
}
fn g_change(c: &Change) -> String {
    match c {
        Change::PutNode(i, x) => format!("PutNode {} {}", i, g_nc(x)),
        Change::PutEdge(i, x) => format!("PutEdge {} {}", i, g_ec(x)),
        Change::DelNode(i) => format!("DelNode {}", i),
        Change::DelEdge(i) => format!("DelEdge {}", i),
    }
}
fn g_dump(d: &Dump) -> String {
    format!(
        "{{| g_nodes := {}; g_edges := {} |}}",
        g_list(d.nodes.iter().map(|(i, c)| format!("({}, {})", i, g_nc(c)))),
        g_list(d.edges.iter().map(|(i, c)| format!("({}, {})", i, g_ec(c))))
    )
}

// ---------- session ----------
fn cmd(q: &str) -> RespValue {
    RespValue::Array(vec![
        RespValue::BulkString(Some(b"GRAPH.QUERY".to_vec())),
        RespValue::BulkString(Some(b"default".to_vec())),
        RespValue::BulkString(Some(q.as_bytes().to_vec())),
    ])
}

async fn http_post(port: u16, query: &str) -> (u16, String) {
    let body = serde_json::json!({ "query": query }).to_string();
    let req = format!(
        "POST /api/query HTTP/1.1\r\nHost: 127.0.0.1\r\nContent-Type: application/json\r\nContent-Length: {}\r\nConnection: close\r\n\r\n{}",
        body.len(),
        body
    );
    let mut s = tokio::net::TcpStream::connect(("127.0.0.1", port)).await.expect("connect");
    s.write_all(req.as_bytes()).await.expect("write");
    let mut buf = Vec::new();
    s.read_to_end(&mut buf).await.expect("read");
    let text = String::from_utf8_lossy(&buf).to_string();
    let status: u16 = text.split_whitespace().nth(1).and_then(|c| c.parse().ok()).unwrap_or(0);
    (status, text)
}

/// main.rs: PersistenceManager::new -> list_persisted_tenants -> recover -> insert_recovered_*
fn recover(dir: &std::path::Path) -> Result<GraphStore, String> {
    let pm = PersistenceManager::new(dir).map_err(|e| format!("reopen: {}", e))?;
    let (mut graph, _rx) = GraphStore::with_async_indexing();
    let tenants = pm.list_persisted_tenants().map_err(|e| format!("list tenants: {}", e))?;
    for t in &tenants {
        match pm.recover(t) {
            Ok((nodes, edges)) => {
                for n in nodes {
                    graph.insert_recovered_node(n);
                }
                for e in edges {
                    let _ = graph.insert_recovered_edge(e); // main.rs prints a warning and goes on
                }
            }
            Err(e) => return Err(format!("recover {}: {}", t, e)),
        }
    }
    Ok(graph)
}

#[derive(Clone, Debug)]
struct Stmt {
    http: bool,
    q: String,
    cls: u64,
}

struct Obs {
    http: bool,
    /// routed to execute_mut (everything the generator produces except the plain read)
    write: bool,
    q: String,
    delta: Vec<Change>,
    returned: Vec<Ref>,
    cls: u64,
}

struct Outcome {
    obs: Vec<Obs>,
    served: Dump,
    recovered: Result<Dump, String>,
    errors: Vec<String>,
}

/// Plays a history. `next` produces the next statement from what the store currently holds.
fn play(rt: &tokio::runtime::Runtime, use_http: bool, mut next: impl FnMut(&Dump, usize) -> Option<Stmt>) -> Outcome {
    let dir = tempfile::tempdir().expect("tempdir");
    let path = dir.path().to_string_lossy().to_string();
    let (obs, served, errors) = rt.block_on(async {
        let pm = Arc::new(PersistenceManager::new(dir.path()).expect("PersistenceManager"));
        let (graph, rx) = GraphStore::with_async_indexing();
        let store = Arc::new(RwLock::new(graph));
        pm.start_indexer(&*store.read().await, rx);
        let handler = CommandHandler::new(Some(pm.clone()));
        let mut port = 0u16;
        let mut server = None;
        if use_http {
            let l = tokio::net::TcpListener::bind("127.0.0.1:0").await.unwrap();
            port = l.local_addr().unwrap().port();
            drop(l);
            let st = store.clone();
            let p2 = path.clone();
            server = Some(tokio::spawn(async move {
                let s = HttpServer::new(st, port).with_data_path(Some(p2));
                let _ = s.start().await;
            }));
            for _ in 0..400 {
                if tokio::net::TcpStream::connect(("127.0.0.1", port)).await.is_ok() {
                    break;
                }
                tokio::time::sleep(std::time::Duration::from_millis(10)).await;
            }
        }
        let mut obs = Vec::new();
        let mut errors = Vec::new();
        let mut i = 0;
        loop {
            let before = dump(&*store.read().await);
            let Some(st) = next(&before, i) else { break };
            i += 1;
            let mut returned = Vec::new();
            let ok = if st.http {
                let (status, text) = http_post(port, &st.q).await;
                if status != 200 {
                    errors.push(format!("HTTP {} -> {} {}", st.q, status, text.chars().rev().take(200).collect::<String>().chars().rev().collect::<String>()));
                }
                status == 200
            } else {
                let r = handler.handle_command(&cmd(&st.q), &store).await;
                if let RespValue::Error(e) = &r {
                    errors.push(format!("RESP {} -> {}", st.q, e));
                    false
                } else {
                    collect_refs(&r, &mut returned);
                    true
                }
            };
            let after = dump(&*store.read().await);
            let delta = diff(&before, &after);
            if ok {
                let cls = if delta.is_empty() { 0 } else { st.cls };
                let write = !st.q.starts_with("MATCH (n) RETURN");
                obs.push(Obs { http: st.http, write, q: st.q, delta, returned, cls });
            } else if !delta.is_empty() {
                errors.push(format!("refused statement changed the store: {}", st.q));
            }
        }
        tokio::time::sleep(std::time::Duration::from_millis(5)).await;
        let served = dump(&*store.read().await);
        if let Some(s) = server {
            s.abort();
            let _ = s.await;
        }
        drop(handler);
        drop(pm);
        (obs, served, errors)
    });
    let recovered = recover(dir.path()).map(|g| dump(&g));
    Outcome { obs, served, recovered, errors }
}

/// what "only the entities returned over RESP are persisted" predicts
fn reference(obs: &[Obs]) -> Dump {
    let mut served = Dump::default();
    let mut st = Dump::default();
    for o in obs {
        for c in &o.delta {
            match c {
                Change::PutNode(i, x) => {
                    served.nodes.insert(*i, x.clone());
                }
                Change::PutEdge(i, x) => {
                    served.edges.insert(*i, x.clone());
                }
                Change::DelNode(i) => {
                    served.nodes.remove(i);
                }
                Change::DelEdge(i) => {
                    served.edges.remove(i);
                }
            }
        }
        if !o.http && o.write {
            for r in &o.returned {
                match r {
                    Ref::Node(i) => {
                        if let Some(c) = served.nodes.get(i) {
                            st.nodes.insert(*i, c.clone());
                        }
                    }
                    Ref::Edge(i) => {
                        if let Some(c) = served.edges.get(i) {
                            st.edges.insert(*i, c.clone());
                        }
                    }
                }
            }
        }
    }
    let nodes = st.nodes.clone();
    st.edges.retain(|_, e| nodes.contains_key(&e.src) && nodes.contains_key(&e.dst));
    st
}

// ---------- generator ----------
struct Gen {
    r: Rng,
    next_k: i64,
    next_v: i64,
    mode: u64,          // 0 clean, 1..3 the class of the lossy statements
    lossy_at: Vec<usize>,
    len: usize,
}

impl Gen {
    fn k(&mut self) -> i64 {
        self.next_k += 1;
        self.next_k
    }
    fn v(&mut self) -> i64 {
        self.next_v += 1;
        self.next_v
    }
    fn pick_node(&mut self, d: &Dump) -> Option<i64> {
        let ks: Vec<i64> = d.nodes.values().filter_map(|c| c.props.iter().find(|p| p.0 == 1).map(|p| p.1)).collect();
        if ks.is_empty() {
            None
        } else {
            Some(ks[self.r.below(ks.len() as u64) as usize])
        }
    }
    /// a statement whose every created / changed entity is in its rows
    fn survivable(&mut self, d: &Dump) -> String {
        for _ in 0..10 {
            match self.r.below(13) {
                0 | 1 => return format!("CREATE (n:{} {{k: {}}}) RETURN n", if self.r.chance(1, 3) { "M" } else { "L" }, self.k()),
                2 => return format!("CREATE (a:L {{k: {}}})-[r:R {{w: {}}}]->(b:M {{k: {}, p: {}}}) RETURN a, r, b", self.k(), self.v(), self.k(), self.v()),
                3 => return format!("CREATE (a:L {{k: {}}}), (b:M {{k: {}}}) RETURN a, b", self.k(), self.k()),
                4 => return format!("UNWIND [{}, {}] AS x CREATE (n:L {{k: x}}) RETURN n", self.k(), self.k()),
                5 | 6 => {
                    if let Some(k) = self.pick_node(d) {
                        return format!("MATCH (n {{k: {}}}) SET n.q = {} RETURN n", k, self.v());
                    }
                }
                7 => {
                    if let Some(k) = self.pick_node(d) {
                        return format!("MATCH (n {{k: {}}}) REMOVE n.q RETURN n", k);
                    }
                }
                8 => {
                    if let Some(k) = self.pick_node(d) {
                        return format!("MATCH (n {{k: {}}}) {} RETURN n", k, if self.r.chance(2, 3) { "SET n:X" } else { "REMOVE n:X" });
                    }
                }
                9 => {
                    if let (Some(a), Some(b)) = (self.pick_node(d), self.pick_node(d)) {
                        return format!("MATCH (a {{k: {}}}), (b {{k: {}}}) CREATE (a)-[r:R {{w: {}}}]->(b) RETURN r", a, b, self.v());
                    }
                }
                10 => {
                    let k = if self.r.chance(1, 2) { self.pick_node(d).unwrap_or(0) } else { 0 };
                    let k = if k == 0 { self.k() } else { k };
                    return match self.r.below(3) {
                        0 => format!("MERGE (n:L {{k: {}}}) RETURN n", k),
                        1 => format!("MERGE (n:L {{k: {}}}) ON CREATE SET n.q = {} RETURN n", k, self.v()),
                        _ => format!("MERGE (n:L {{k: {}}}) ON MATCH SET n.q = {} RETURN n", k, self.v()),
                    };
                }
                11 => return "MATCH (n) RETURN n".to_string(),
                _ => {
                    if let Some(k) = self.pick_node(d) {
                        return format!("MATCH (n {{k: {}}}) SET n.q = {}, n.p = {} RETURN n", k, self.v(), self.v());
                    }
                }
            }
        }
        format!("CREATE (n:L {{k: {}}}) RETURN n", self.k())
    }
    /// class 1: something created or changed is not returned as an entity
    fn not_returned(&mut self, d: &Dump) -> String {
        for _ in 0..10 {
            match self.r.below(11) {
                0 => return format!("CREATE (n:L {{k: {}}})", self.k()),
                1 => return format!("CREATE (n:L {{k: {}}}) RETURN n.k", self.k()),
                2 => return format!("CREATE (a:L {{k: {}}})-[r:R {{w: {}}}]->(b:M {{k: {}}}) RETURN a, b", self.k(), self.v(), self.k()),
                3 => return format!("CREATE (a:L {{k: {}}}), (b:M {{k: {}}}) RETURN a", self.k(), self.k()),
                4 => return format!("MERGE (n:L {{k: {}}})", self.k()),
                5 => {
                    if let Some(k) = self.pick_node(d) {
                        return format!("MATCH (n {{k: {}}}) SET n.q = {}", k, self.v());
                    }
                }
                6 => {
                    if let Some(k) = self.pick_node(d) {
                        return format!("MATCH (n {{k: {}}}) SET n.q = {} RETURN n.q", k, self.v());
                    }
                }
                7 => {
                    if let Some(k) = self.pick_node(d) {
                        return format!("MATCH (n {{k: {}}}) SET n:X", k);
                    }
                }
                8 => {
                    if let Some(k) = self.pick_node(d) {
                        return format!("MATCH (n {{k: {}}}) SET n.p = {} REMOVE n.q", k, self.v());
                    }
                }
                9 => {
                    if let (Some(a), Some(b)) = (self.pick_node(d), self.pick_node(d)) {
                        return format!("MATCH (a {{k: {}}}), (b {{k: {}}}) CREATE (a)-[r:R {{w: {}}}]->(b)", a, b, self.v());
                    }
                }
                _ => return format!("UNWIND [{}, {}] AS x CREATE (n:L {{k: x}})", self.k(), self.k()),
            }
        }
        format!("CREATE (n:L {{k: {}}})", self.k())
    }
    /// class 2: deletions
    fn deletion(&mut self, d: &Dump) -> Option<String> {
        let k = self.pick_node(d)?;
        Some(match self.r.below(3) {
            0 | 1 => format!("MATCH (n {{k: {}}}) DETACH DELETE n", k),
            _ => {
                // a relationship, if there is one
                match d.edges.values().next() {
                    Some(e) => {
                        let ka = d.nodes.get(&e.src).and_then(|c| c.props.iter().find(|p| p.0 == 1).map(|p| p.1)).unwrap_or(k);
                        format!("MATCH (a {{k: {}}})-[r:R]->(b) DELETE r", ka)
                    }
                    None => format!("MATCH (n {{k: {}}}) DETACH DELETE n", k),
                }
            }
        })
    }
    fn next(&mut self, d: &Dump, i: usize) -> Option<Stmt> {
        if i >= self.len {
            return None;
        }
        if self.lossy_at.contains(&i) {
            match self.mode {
                1 => return Some(Stmt { http: false, q: self.not_returned(d), cls: 1 }),
                2 => {
                    if let Some(q) = self.deletion(d) {
                        return Some(Stmt { http: false, q, cls: 2 });
                    }
                }
                3 => {
                    let q = if self.r.chance(2, 3) { self.survivable(d) } else { self.not_returned(d) };
                    return Some(Stmt { http: true, q, cls: 3 });
                }
                _ => {}
            }
        }
        Some(Stmt { http: false, q: self.survivable(d), cls: 0 })
    }
}

const CLASS_NAMES: [&str; 4] = ["", "resp-write-not-returned", "resp-delete", "http-any-write"];

fn run_case(out: &mut Out, rt: &tokio::runtime::Runtime, seed: u64, case_no: u64) {
    let idx = out.next_index();
    if !out.wants(idx) {
        out.skip();
        return;
    }
    let mut r = Rng::for_case(seed, case_no);
    let mode = match r.below(10) {
        0..=2 => 0,
        3..=5 => 1,
        6 | 7 => 2,
        _ => 3,
    };
    let len = r.range(2, 8) as usize;
    let mut lossy_at = Vec::new();
    if mode > 0 {
        let first = if mode == 2 { 1 } else { 0 };
        lossy_at.push(r.range(first, (len - 1) as u64) as usize);
        if r.chance(1, 3) {
            lossy_at.push(r.range(first, (len - 1) as u64) as usize);
        }
    }
    let mut g = Gen { r, next_k: 0, next_v: 100, mode, lossy_at, len };
    let o = play(rt, mode == 3, |d, i| g.next(d, i));
    let human = format!(
        "mode {} : {}",
        if mode == 0 { "clean" } else { CLASS_NAMES[mode as usize] },
        o.obs.iter().map(|s| format!("{}{} [{}]", if s.http { "HTTP " } else { "" }, s.q, s.cls)).collect::<Vec<_>>().join(" ; ")
    );
    out.count(&format!("mode_{}", if mode == 0 { "clean" } else { CLASS_NAMES[mode as usize] }));
    out.count_n("acknowledged_statements", o.obs.len() as u64);
    for s in &o.obs {
        out.count(&format!("stmt_class_{}", s.cls));
        if s.http {
            out.count("http_statements");
        }
    }
    if !o.errors.is_empty() {
        out.count("case_with_refused_statement");
    }
    let mut bad: Vec<(String, Option<&str>)> = Vec::new();
    for e in &o.errors {
        if e.starts_with("refused statement changed") {
            bad.push((e.clone(), None));
        }
    }
    let lossy_classes: Vec<u64> = {
        let mut v: Vec<u64> = o.obs.iter().map(|s| s.cls).filter(|c| *c > 0).collect();
        v.sort();
        v.dedup();
        v
    };
    let recovered = match &o.recovered {
        Ok(d) => d.clone(),
        Err(e) => {
            bad.push((format!("recovery failed: {}", e), None));
            Dump::default()
        }
    };
    if o.served.unsupported || recovered.unsupported {
        out.count("unsupported_value_in_dump");
    }
    if o.served == recovered {
        out.count("survived");
        if lossy_classes.is_empty() {
            out.count("survived_clean_history");
        }
    } else {
        out.count("lost");
        let predicted = reference(&o.obs);
        let explained = predicted == recovered && lossy_classes.len() == 1;
        let detail = format!(
            "served before shutdown: nodes {:?} edges {:?}; served after restart: nodes {:?} edges {:?}{}",
            o.served.nodes,
            o.served.edges,
            recovered.nodes,
            recovered.edges,
            if explained { String::new() } else { format!("; NOT what persisting only the returned entities predicts ({:?} / {:?}), lossy classes in the history: {:?}", predicted.nodes, predicted.edges, lossy_classes) }
        );
        let kc = if explained { Some(CLASS_NAMES[lossy_classes[0] as usize]) } else { None };
        if let Some(k) = kc {
            out.count(&format!("lost_{}", k));
        }
        bad.push((detail, kc));
    }
    let g_case = format!(
        "({}, {}, {})",
        g_list(o.obs.iter().map(|s| format!(
            "({{| s_chan := {}; s_write := {}; s_delta := {}; s_returned := {} |}}, {})",
            if s.http { "Http" } else { "Resp" },
            g_bool(s.write),
            g_list(s.delta.iter().map(g_change)),
            g_list(s.returned.iter().map(|r| match r {
                Ref::Node(i) => format!("RNode {}", i),
                Ref::Edge(i) => format!("REdge {}", i),
            })),
            s.cls
        ))),
        g_dump(&o.served),
        g_dump(&recovered)
    );
    let i = out.case(g_case, human.clone(), !o.obs.is_empty());
    for (d, k) in bad {
        out.fail(i, &human, &d, k);
    }
}

fn replay_witnesses(out: &mut Out, rt: &tokio::runtime::Runtime) {
    let ws: [(&str, Vec<(bool, &str)>); 3] = [
        ("resp-write-not-returned", vec![(false, "CREATE (n:L {k: 1})")]),
        ("resp-delete", vec![(false, "CREATE (n:L {k: 1}) RETURN n"), (false, "MATCH (n:L {k: 1}) DELETE n")]),
        ("http-any-write", vec![(true, "CREATE (n:L {k: 1}) RETURN n")]),
    ];
    for (class, h) in ws {
        let hh = h.clone();
        let o = play(rt, h.iter().any(|s| s.0), move |_d, i| hh.get(i).map(|(http, q)| Stmt { http: *http, q: q.to_string(), cls: 0 }));
        let rec = o.recovered.clone().unwrap_or_default();
        out.known.push(KnownReplay {
            class: class.to_string(),
            still_fails: o.errors.is_empty() && o.obs.len() == h.len() && o.served != rec,
            detail: format!(
                "{} -> served before shutdown {:?}, after restart {:?}",
                h.iter().map(|(http, q)| format!("{}{}", if *http { "HTTP " } else { "RESP " }, q)).collect::<Vec<_>>().join(" ; "),
                o.served.nodes,
                rec.nodes
            ),
        });
    }
}

fn main() {
    let args = parse_args();
    let rt = tokio::runtime::Builder::new_multi_thread().worker_threads(2).enable_all().build().unwrap();
    let mut out = Out::new(&args, "From Verif Require Import ServerPersist.", "ServerPersist.case", "ServerPersist.check_case", if args.thorough { 75 } else { 20 });
    out.rule = "histories of 2-8 acknowledged statements on an empty server with persistence: CREATE (node, path, several nodes, \
                UNWIND), MATCH..SET / REMOVE (properties, labels), MATCH..CREATE relationship, MERGE [ON CREATE / ON MATCH SET], \
                each RETURNing every entity it created or changed, plus reads; 30% of the histories stay like that, the others \
                contain one or two statements of exactly one losing kind (something created/changed not returned as an entity; \
                DELETE / DETACH DELETE; any write over HTTP). GRAPH.QUERY through CommandHandler with a PersistenceManager on a \
                temporary directory, HTTP through HttpServer::start on a loopback port sharing the store; then drop everything, \
                reopen the directory and rebuild the store with main.rs's recovery sequence (in process). Non-trivial = at least \
                one acknowledged statement; distinct by case text."
        .to_string();
    out.notes.push(
        "restart = in-process replica of main.rs (PersistenceManager::new, list_persisted_tenants, recover, insert_recovered_node/edge \
         on a GraphStore::with_async_indexing store), not the server binary: /repo/target/debug/samyama predates the current sources"
            .to_string(),
    );
    replay_witnesses(&mut out, &rt);
    let n = if args.thorough { 1200 } else { 160 };
    for c in 0..n {
        run_case(&mut out, &rt, args.seed, c);
    }
    out.finish();
}
