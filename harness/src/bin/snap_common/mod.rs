//! Shared by c12 / c13 / c14: store dumps, Gallina printers for the SnapshotJson model,
//! a mirror of the importer's line reader, value pools, and the property predicates.
#![allow(dead_code)]
use samyama::graph::{EdgeType, GraphStore, Label, NodeId, PropertyValue};
use samyama::index::hierarchy::{HierarchySpec, RollupOp};
use samyama::snapshot::format::{SnapshotEdge, SnapshotHeader, SnapshotHierarchyIndex, SnapshotNode};
use std::collections::{BTreeMap, BTreeSet, HashMap};
use std::io::{BufRead, BufReader, Read, Write};
use vh::*;

pub type PMap = BTreeMap<String, PropertyValue>;

#[derive(Clone, Debug)]
pub struct DNode {
    pub id: u64,
    pub labels: Vec<String>,
    pub row: PMap,
    pub col: PMap,
    pub merged: PMap,
}
#[derive(Clone, Debug)]
pub struct DEdge {
    pub id: u64,
    pub src: u64,
    pub tgt: u64,
    pub ty: String,
    pub props: PMap,
}
#[derive(Clone, Debug, PartialEq)]
pub struct DHier {
    pub name: String,
    pub etypes: Vec<String>,
    pub rev: bool,
    pub measure: Option<(Option<String>, String)>,
    pub ops: Vec<&'static str>,
}
#[derive(Clone, Debug)]
pub struct Dump {
    pub nodes: Vec<DNode>,
    pub edges: Vec<DEdge>,
    pub hier: Vec<DHier>,
    /// label -> ids found through the label index
    pub by_label: BTreeMap<String, Vec<u64>>,
    /// node versions seen by all_nodes()
    pub versions: usize,
    /// edges reached by walking outgoing adjacency of every node (id-sorted)
    pub adj_edges: Vec<u64>,
}

pub fn dump(store: &GraphStore) -> Dump {
    let all = store.all_nodes();
    let versions = all.len();
    let mut latest: BTreeMap<u64, &samyama::graph::Node> = BTreeMap::new();
    for n in all {
        latest.insert(n.id.as_u64(), n);
    }
    let mut nodes = Vec::new();
    let mut labels_seen: BTreeSet<String> = BTreeSet::new();
    labels_seen.insert(String::new());
    for (id, n) in &latest {
        let mut labels: Vec<String> = n.labels.iter().map(|l| l.as_str().to_string()).collect();
        labels.sort();
        for l in &labels {
            labels_seen.insert(l.clone());
        }
        let row: PMap = n.properties.iter().map(|(k, v)| (k.clone(), v.clone())).collect();
        let idx = *id as usize;
        let mut col = PMap::new();
        for k in store.node_columns.get_property_keys(idx) {
            let v = store.node_columns.get_property(idx, &k);
            col.insert(k, v);
        }
        let merged: PMap = store.node_properties_merged(NodeId::new(*id)).into_iter().collect();
        nodes.push(DNode { id: *id, labels, row, col, merged });
    }
    for l in store.all_labels() {
        labels_seen.insert(l.as_str().to_string());
    }
    let mut by_label = BTreeMap::new();
    for l in &labels_seen {
        let mut ids: Vec<u64> = store.get_nodes_by_label(&Label::new(l.as_str())).iter().map(|n| n.id.as_u64()).collect();
        ids.sort();
        ids.dedup();
        if !ids.is_empty() {
            by_label.insert(l.clone(), ids);
        }
    }
    let mut edges: Vec<DEdge> = store
        .all_edges()
        .into_iter()
        .map(|e| DEdge {
            id: e.id.as_u64(),
            src: e.source.as_u64(),
            tgt: e.target.as_u64(),
            ty: e.edge_type.as_str().to_string(),
            props: e.properties.iter().map(|(k, v)| (k.clone(), v.clone())).collect(),
        })
        .collect();
    edges.sort_by_key(|e| e.id);
    let mut adj_edges = Vec::new();
    for id in latest.keys() {
        for (eid, _s, _t, _ty) in store.get_outgoing_edge_targets(NodeId::new(*id)) {
            adj_edges.push(eid.as_u64());
        }
    }
    adj_edges.sort();
    let mut hier = Vec::new();
    for info in store.hierarchy_index.list() {
        if let Some(e) = store.hierarchy_index.get(&info.name) {
            let spec: HierarchySpec = e.read().unwrap().spec.clone();
            hier.push(DHier {
                name: spec.name.clone(),
                etypes: spec.edge_types.iter().map(|t| t.as_str().to_string()).collect(),
                rev: spec.reverse,
                measure: spec.measure.as_ref().map(|m| (m.label.as_ref().map(|l| l.as_str().to_string()), m.property.clone())),
                ops: spec.ops.iter().map(|o| o.name()).collect(),
            });
        }
    }
    Dump { nodes, edges, hier, by_label, versions, adj_edges }
}

// ---------- value equality by bit pattern ----------
pub fn pv_same(a: &PropertyValue, b: &PropertyValue) -> bool {
    use PropertyValue::*;
    match (a, b) {
        (String(x), String(y)) => x == y,
        (Integer(x), Integer(y)) => x == y,
        (Float(x), Float(y)) => x.to_bits() == y.to_bits(),
        (Boolean(x), Boolean(y)) => x == y,
        (DateTime(x), DateTime(y)) => x == y,
        (Null, Null) => true,
        (Array(x), Array(y)) => x.len() == y.len() && x.iter().zip(y).all(|(p, q)| pv_same(p, q)),
        (Map(x), Map(y)) => x.len() == y.len() && x.iter().all(|(k, p)| y.get(k).map_or(false, |q| pv_same(p, q))),
        (Vector(x), Vector(y)) => x.len() == y.len() && x.iter().zip(y).all(|(p, q)| p.to_bits() == q.to_bits()),
        (
            Duration { months: a1, days: a2, seconds: a3, nanos: a4 },
            Duration { months: b1, days: b2, seconds: b3, nanos: b4 },
        ) => a1 == b1 && a2 == b2 && a3 == b3 && a4 == b4,
        _ => false,
    }
}
pub fn pmap_same(a: &PMap, b: &PMap) -> bool {
    a.len() == b.len() && a.iter().all(|(k, p)| b.get(k).map_or(false, |q| pv_same(p, q)))
}

// ---------- the recorded classes, evaluated on the implementation's values ----------
pub fn nonfinite(v: &PropertyValue) -> bool {
    match v {
        PropertyValue::Float(f) => !f.is_finite(),
        PropertyValue::Vector(l) => l.iter().any(|x| !x.is_finite()),
        PropertyValue::Array(l) => l.iter().any(nonfinite),
        PropertyValue::Map(m) => m.values().any(nonfinite),
        _ => false,
    }
}
pub fn type_tag_map(v: &PropertyValue) -> bool {
    match v {
        PropertyValue::Array(l) => l.iter().any(type_tag_map),
        PropertyValue::Map(m) => {
            let here = match m.get("__type") {
                Some(PropertyValue::String(t)) => {
                    t == "Duration"
                        || (t == "DateTime" && matches!(m.get("value"), Some(PropertyValue::Integer(_))))
                        || (t == "Vector" && matches!(m.get("value"), Some(PropertyValue::Array(_))))
                }
                _ => false,
            };
            here || m.values().any(type_tag_map)
        }
        _ => false,
    }
}
pub fn hier_ops_default(h: &DHier) -> bool {
    match &h.measure {
        Some(_) => h.ops.is_empty(),
        None => h.ops != vec!["count"],
    }
}
pub fn dump_values(d: &Dump) -> Vec<&PropertyValue> {
    let mut v = Vec::new();
    for n in &d.nodes {
        v.extend(n.merged.values());
    }
    for e in &d.edges {
        v.extend(e.props.values());
    }
    v
}

// ---------- Gallina printers ----------
pub fn g_str(s: &str) -> String {
    g_bytes(s.as_bytes())
}
pub fn g_pv(v: &PropertyValue) -> String {
    use PropertyValue::*;
    match v {
        String(s) => format!("PStr {}", g_str(s)),
        Integer(i) => format!("PInt {}", g_z(*i as i128)),
        Float(f) => format!("PFloat {}", f.to_bits()),
        Boolean(b) => format!("PBool {}", g_bool(*b)),
        Null => "PNull".to_string(),
        DateTime(i) => format!("PDateTime {}", g_z(*i as i128)),
        Array(l) => format!("PArr {}", g_list(l.iter().map(|x| format!("({})", g_pv(x))))),
        Map(m) => {
            let b: BTreeMap<&std::string::String, &PropertyValue> = m.iter().collect();
            format!("PMap {}", g_list(b.iter().map(|(k, x)| format!("({}, {})", g_str(k), g_pv(x)))))
        }
        Vector(l) => format!("PVec {}", g_list(l.iter().map(|x| format!("{}", x.to_bits())))),
        Duration { months, days, seconds, nanos } => format!(
            "PDur {} {} {} {}",
            g_z(*months as i128),
            g_z(*days as i128),
            g_z(*seconds as i128),
            g_z(*nanos as i128)
        ),
    }
}
pub fn g_pmap(m: &PMap) -> String {
    g_list(m.iter().map(|(k, v)| format!("({}, {})", g_str(k), g_pv(v))))
}
pub fn g_json(v: &serde_json::Value) -> String {
    use serde_json::Value::*;
    match v {
        Null => "JNull".into(),
        Bool(b) => format!("JBool {}", g_bool(*b)),
        Number(n) => {
            if let Some(i) = n.as_i64() {
                format!("JInt {}", g_z(i as i128))
            } else if n.is_u64() {
                format!("JBig {}", n.as_f64().unwrap().to_bits())
            } else {
                format!("JFloat {}", n.as_f64().unwrap().to_bits())
            }
        }
        String(s) => format!("JStr {}", g_str(s)),
        Array(l) => format!("JArr {}", g_list(l.iter().map(|x| format!("({})", g_json(x))))),
        Object(m) => {
            let is_vec = m.get("__type").and_then(|t| t.as_str()) == Some("Vector");
            format!(
                "JObj {}",
                g_list(m.iter().map(|(k, x)| {
                    if is_vec && k == "value" && x.is_array() {
                        let l = x.as_array().unwrap();
                        let items = g_list(l.iter().map(|e| match e.as_f64() {
                            Some(f) => format!("Some {}", (f as f32).to_bits()),
                            None => "None".to_string(),
                        }));
                        format!("({}, JVec {})", g_str(k), items)
                    } else {
                        format!("({}, {})", g_str(k), g_json(x))
                    }
                }))
            )
        }
    }
}
pub fn g_jprops(m: &HashMap<String, serde_json::Value>) -> String {
    let b: BTreeMap<&String, &serde_json::Value> = m.iter().collect();
    g_list(b.iter().map(|(k, v)| format!("({}, {})", g_str(k), g_json(v))))
}
pub fn g_strs<'a, I: IntoIterator<Item = &'a String>>(l: I) -> String {
    g_list(l.into_iter().map(|s| g_str(s)))
}
pub fn g_ostr(o: &Option<String>) -> String {
    g_opt(o.as_ref().map(|s| g_str(s)))
}
pub fn g_rop(o: &str) -> &'static str {
    match o {
        "sum" => "RSum",
        "count" => "RCount",
        "min" => "RMin",
        _ => "RMax",
    }
}
pub fn g_dump(d: &Dump, free: &[u64], next: u64) -> String {
    let nodes = g_list(d.nodes.iter().map(|n| {
        format!(
            "{{| n_id := {}; n_labels := {}; n_row := {}; n_col := {} |}}",
            n.id,
            g_strs(&n.labels),
            g_pmap(&n.row),
            g_pmap(&n.col)
        )
    }));
    let edges = g_list(d.edges.iter().map(|e| {
        format!(
            "{{| e_src := {}; e_tgt := {}; e_ty := {}; e_props := {} |}}",
            e.src,
            e.tgt,
            g_str(&e.ty),
            g_pmap(&e.props)
        )
    }));
    let hier = g_list(d.hier.iter().map(|h| {
        format!(
            "{{| h_name := {}; h_etypes := {}; h_rev := {}; h_measure := {}; h_ops := {} |}}",
            g_str(&h.name),
            g_strs(&h.etypes),
            g_bool(h.rev),
            match &h.measure {
                None => "None".to_string(),
                Some((l, p)) => format!("Some ({}, {})", g_ostr(l), g_str(p)),
            },
            g_list(h.ops.iter().map(|o| g_rop(o).to_string()))
        )
    }));
    format!(
        "{{| nodes := {}; edges := {}; hier := {}; free_n := {}; next_n := {} |}}",
        nodes,
        edges,
        hier,
        g_list(free.iter().map(|x| x.to_string())),
        next
    )
}

// ---------- mirror of the importer's reader ----------
#[derive(Clone, Debug)]
pub enum Line {
    Node(u64, Vec<String>, HashMap<String, serde_json::Value>),
    Edge(u64, u64, String, HashMap<String, serde_json::Value>),
    Hier(SnapHier),
    Skip,
    Fail,
}
#[derive(Clone, Debug)]
pub struct SnapHier {
    pub name: String,
    pub etypes: Vec<String>,
    pub rev: bool,
    pub mlabel: Option<String>,
    pub mprop: Option<String>,
    pub ops: Vec<String>,
}
#[derive(Clone, Debug)]
pub enum Header {
    Ok(bool, Vec<String>),
    Bad,
}

fn line_kind(line: &str) -> Option<char> {
    for k in ['n', 'h', 'e'] {
        if line.starts_with(&format!("{{\"t\":\"{}\"", k)) {
            return Some(k);
        }
    }
    for k in ['n', 'h', 'e'] {
        if line.contains(&format!("\"t\":\"{}\"", k)) {
            return Some(k);
        }
    }
    None
}

/// Read a .sgsnap byte stream the way `import_tenant_inner` does (same gzip and line
/// reader, same serde types), up to and including the first failure.
pub fn read_stream(bytes: &[u8]) -> (Header, Vec<Line>) {
    let mut lines = BufReader::new(flate2::read::GzDecoder::new(bytes)).lines();
    let header = match lines.next() {
        Some(Ok(l)) => match serde_json::from_str::<SnapshotHeader>(&l) {
            Ok(h) if h.format == "sgsnap" && (h.version == 1 || h.version == 2) => Header::Ok(h.version >= 2, h.labels),
            _ => Header::Bad,
        },
        _ => Header::Bad,
    };
    let mut out = Vec::new();
    if matches!(header, Header::Bad) {
        return (header, out);
    }
    for l in lines {
        let l = match l {
            Ok(l) => l,
            Err(_) => {
                out.push(Line::Fail);
                break;
            }
        };
        if l.is_empty() {
            out.push(Line::Skip);
            continue;
        }
        let item = match line_kind(&l) {
            Some('n') => match serde_json::from_str::<SnapshotNode>(&l) {
                Ok(n) => Line::Node(n.id, n.labels, n.props),
                Err(_) => Line::Fail,
            },
            Some('h') => match serde_json::from_str::<SnapshotHierarchyIndex>(&l) {
                Ok(h) => Line::Hier(SnapHier {
                    name: h.name,
                    etypes: h.edge_types,
                    rev: h.reverse,
                    mlabel: h.measure_label,
                    mprop: h.measure_property,
                    ops: h.ops,
                }),
                Err(_) => Line::Fail,
            },
            Some('e') => match serde_json::from_str::<SnapshotEdge>(&l) {
                Ok(e) => Line::Edge(e.src, e.tgt, e.edge_type, e.props),
                Err(_) => Line::Fail,
            },
            _ => Line::Skip,
        };
        let fail = matches!(item, Line::Fail);
        out.push(item);
        if fail {
            break;
        }
    }
    (header, out)
}

pub fn g_line(l: &Line) -> String {
    match l {
        Line::Node(id, labels, props) => format!(
            "LNode {{| nr_id := {}; nr_labels := {}; nr_props := {} |}}",
            id,
            g_strs(labels),
            g_jprops(props)
        ),
        Line::Edge(s, t, ty, props) => format!(
            "LEdge {{| er_src := {}; er_tgt := {}; er_ty := {}; er_props := {} |}}",
            s,
            t,
            g_str(ty),
            g_jprops(props)
        ),
        Line::Hier(h) => format!(
            "LHier {{| hr_name := {}; hr_etypes := {}; hr_rev := {}; hr_mlabel := {}; hr_mprop := {}; hr_ops := {} |}}",
            g_str(&h.name),
            g_strs(&h.etypes),
            g_bool(h.rev),
            g_ostr(&h.mlabel),
            g_ostr(&h.mprop),
            g_strs(&h.ops)
        ),
        Line::Skip => "LSkip".into(),
        Line::Fail => "LFail".into(),
    }
}
pub fn g_header(h: &Header) -> String {
    match h {
        Header::Ok(v2, labels) => format!("HOk {} {}", g_bool(*v2), g_strs(labels)),
        Header::Bad => "HBad".into(),
    }
}

pub fn norm_dedup(s: &str) -> String {
    s.trim().to_lowercase()
}

/// Oracle tables for one import: normalised strings and printed non-integer numbers found
/// under the dedup keys, in the store before the import and in the stream.
pub fn oracle_tables(before: &Dump, lines: &[Line], keys: &[String]) -> (String, String) {
    let mut norm: BTreeMap<String, String> = BTreeMap::new();
    let mut nums: BTreeMap<u64, String> = BTreeMap::new();
    for n in &before.nodes {
        for k in keys {
            for m in [&n.row, &n.col] {
                if let Some(PropertyValue::String(s)) = m.get(k) {
                    norm.insert(s.clone(), norm_dedup(s));
                }
            }
        }
    }
    for l in lines {
        if let Line::Node(_, _, props) = l {
            for k in keys {
                match props.get(k) {
                    Some(serde_json::Value::String(s)) => {
                        norm.insert(s.clone(), norm_dedup(s));
                    }
                    Some(serde_json::Value::Number(n)) if n.as_i64().is_none() => {
                        nums.insert(n.as_f64().unwrap().to_bits(), n.to_string());
                    }
                    _ => {}
                }
            }
        }
    }
    (
        g_list(norm.iter().map(|(a, b)| format!("({}, {})", g_str(a), g_str(b)))),
        g_list(nums.iter().map(|(a, b)| format!("({}, {})", a, g_str(b)))),
    )
}

/// The Gallina `import_obs` of one import call.
pub fn g_import_obs(
    keys: &[String],
    header: &Header,
    lines: &[Line],
    before: &Dump,
    result: Option<(u64, u64)>,
    after: &Dump,
) -> String {
    let (norm, nums) = oracle_tables(before, lines, keys);
    format!(
        "{{| io_keys := {}; io_header := {}; io_lines := {}; io_norm := {}; io_num := {}; io_result := {}; io_after := {} |}}",
        g_strs(keys),
        g_header(header),
        g_list(lines.iter().map(g_line)),
        norm,
        nums,
        match result {
            Some((c, m)) => format!("ROk {} {}", c, m),
            None => "RErr".to_string(),
        },
        g_dump(after, &[], 0)
    )
}

pub fn gzip(data: &[u8], level: u32) -> Vec<u8> {
    let mut gz = flate2::write::GzEncoder::new(Vec::new(), flate2::Compression::new(level));
    gz.write_all(data).unwrap();
    gz.finish().unwrap()
}
pub fn gunzip(b: &[u8]) -> Option<Vec<u8>> {
    let mut out = Vec::new();
    flate2::read::GzDecoder::new(b).read_to_end(&mut out).ok()?;
    Some(out)
}

// ---------- predicates on the implementation ----------
/// Both ways of reading labels agree: membership through the label index equals the
/// node's own label set.
pub fn label_reads_agree(d: &Dump) -> Result<(), String> {
    let mut own: BTreeMap<String, Vec<u64>> = BTreeMap::new();
    for n in &d.nodes {
        for l in &n.labels {
            own.entry(l.clone()).or_default().push(n.id);
        }
    }
    if own != d.by_label {
        return Err(format!("label lookup {:?} differs from the nodes' own labels {:?}", d.by_label, own));
    }
    Ok(())
}

/// `b` is `a` up to the node-id bijection that pairs the i-th node of each (ascending id):
/// label sets, merged property values by bit pattern, relationships as a bag with
/// direction, type and properties, hierarchy declarations.
pub fn isomorphic(a: &Dump, b: &Dump) -> Result<(), String> {
    if a.nodes.len() != b.nodes.len() {
        return Err(format!("{} nodes became {}", a.nodes.len(), b.nodes.len()));
    }
    let mut map: BTreeMap<u64, u64> = BTreeMap::new();
    for (x, y) in a.nodes.iter().zip(&b.nodes) {
        map.insert(x.id, y.id);
        if x.labels != y.labels {
            return Err(format!("node {}: labels {:?} became {:?}", x.id, x.labels, y.labels));
        }
        if !pmap_same(&x.merged, &y.merged) {
            return Err(format!("node {}: properties {:?} became {:?}", x.id, x.merged, y.merged));
        }
    }
    if a.edges.len() != b.edges.len() {
        return Err(format!("{} relationships became {}", a.edges.len(), b.edges.len()));
    }
    let mut rest: Vec<&DEdge> = b.edges.iter().collect();
    for e in &a.edges {
        let (s, t) = (map.get(&e.src).copied(), map.get(&e.tgt).copied());
        match rest.iter().position(|f| Some(f.src) == s && Some(f.tgt) == t && f.ty == e.ty && pmap_same(&f.props, &e.props)) {
            Some(i) => {
                rest.remove(i);
            }
            None => return Err(format!("relationship {:?} has no counterpart", e)),
        }
    }
    if a.hier != b.hier {
        return Err(format!("hierarchy declarations {:?} became {:?}", a.hier, b.hier));
    }
    Ok(())
}

/// Observable equality with identical node ids (used for "the store is unchanged"):
/// labels, merged properties, relationships as a bag, hierarchy declarations, label lookup.
pub fn same_graph(a: &Dump, b: &Dump) -> Result<(), String> {
    if a.nodes.len() != b.nodes.len() {
        return Err(format!("{} nodes became {}", a.nodes.len(), b.nodes.len()));
    }
    for (x, y) in a.nodes.iter().zip(&b.nodes) {
        if x.id != y.id {
            return Err(format!("node ids differ: {} vs {}", x.id, y.id));
        }
        if x.labels != y.labels {
            return Err(format!("node {}: labels {:?} became {:?}", x.id, x.labels, y.labels));
        }
        if !pmap_same(&x.merged, &y.merged) {
            return Err(format!("node {}: properties {:?} became {:?}", x.id, x.merged, y.merged));
        }
    }
    if a.edges.len() != b.edges.len() {
        return Err(format!("{} relationships became {}", a.edges.len(), b.edges.len()));
    }
    let mut rest: Vec<&DEdge> = b.edges.iter().collect();
    for e in &a.edges {
        match rest.iter().position(|f| f.src == e.src && f.tgt == e.tgt && f.ty == e.ty && pmap_same(&f.props, &e.props)) {
            Some(i) => {
                rest.remove(i);
            }
            None => return Err(format!("relationship {:?} has no counterpart", e)),
        }
    }
    if a.hier != b.hier {
        return Err(format!("hierarchy declarations {:?} became {:?}", a.hier, b.hier));
    }
    if a.by_label != b.by_label {
        return Err(format!("label lookup {:?} became {:?}", a.by_label, b.by_label));
    }
    Ok(())
}

// ---------- generators ----------
pub const LABELS: [&str; 5] = ["A", "B", "Person", "Ünï", ""];
pub const KEYS: [&str; 6] = ["name", "k", "x", "t", "__type", "é"];
pub const ETYPES: [&str; 4] = ["R", "IS_A", "KNOWS", ""];

pub fn gen_string(r: &mut Rng) -> String {
    const POOL: [&str; 22] = [
        "", " ", "  a ", "a b", "\ta\n", "a\r\nb", "é", "日本", "😀", "\u{0}", "\"q\"", "back\\slash", "null", "{\"t\":\"n\"}",
        "\"t\":\"e\"", "Alice", "alice ", "ALICE", "\u{a0}x\u{2003}", "İ", "ß", "1",
    ];
    if r.chance(1, 6) {
        let n = r.below(6);
        (0..n).map(|_| char::from_u32(32 + r.below(95) as u32).unwrap()).collect()
    } else {
        r.pick(&POOL).to_string()
    }
}
pub fn gen_f64(r: &mut Rng, allow_nonfinite: bool) -> f64 {
    const POOL: [f64; 10] = [0.0, -0.0, 1.0, 0.1, -2.5, 1e300, 5e-324, f64::MAX, f64::MIN_POSITIVE, 9007199254740993.0];
    match r.below(10) {
        0..=4 => *r.pick(&POOL),
        5..=8 => loop {
            let f = f64::from_bits(r.next());
            if f.is_finite() {
                break f;
            }
        },
        _ => {
            if allow_nonfinite {
                *r.pick(&[f64::NAN, f64::INFINITY, f64::NEG_INFINITY, f64::from_bits(0xfff8_0000_0000_0001)])
            } else {
                3.5
            }
        }
    }
}
pub fn gen_f32(r: &mut Rng, allow_nonfinite: bool) -> f32 {
    match r.below(8) {
        0 => 0.0,
        1 => -0.0,
        2 => 1.5,
        3 => f32::from_bits(1), // subnormal
        4 => f32::MAX,
        5 | 6 => loop {
            let f = f32::from_bits(r.next() as u32);
            if f.is_finite() {
                break f;
            }
        },
        _ => {
            if allow_nonfinite {
                *r.pick(&[f32::NAN, f32::INFINITY])
            } else {
                0.25
            }
        }
    }
}
pub fn gen_i64(r: &mut Rng) -> i64 {
    const POOL: [i64; 9] = [0, 1, -1, 42, i64::MIN, i64::MAX, 9007199254740993, -9007199254740993, 1710000000000];
    if r.chance(1, 4) {
        r.next() as i64
    } else {
        *r.pick(&POOL)
    }
}
/// `special`: allow the values of the recorded classes (non-finite floats, `__type` maps)
pub fn gen_value(r: &mut Rng, depth: u32, special: bool) -> PropertyValue {
    let top = if depth >= 2 { 7 } else { 11 };
    match r.below(top) {
        0 | 1 => PropertyValue::String(gen_string(r)),
        2 => PropertyValue::Integer(gen_i64(r)),
        3 => {
            let nf = special && r.chance(1, 3);
            PropertyValue::Float(gen_f64(r, nf))
        }
        4 => PropertyValue::Boolean(r.chance(1, 2)),
        5 => PropertyValue::Null,
        6 => {
            if r.chance(1, 2) {
                PropertyValue::DateTime(gen_i64(r))
            } else {
                PropertyValue::Duration { months: gen_i64(r), days: gen_i64(r), seconds: gen_i64(r), nanos: r.next() as i32 }
            }
        }
        7 => {
            let n = r.below(4);
            PropertyValue::Vector((0..n).map(|_| { let nf = special && r.chance(1, 4); gen_f32(r, nf) }).collect())
        }
        8 => {
            let n = r.below(4);
            PropertyValue::Array((0..n).map(|_| gen_value(r, depth + 1, special)).collect())
        }
        _ => {
            let mut m = HashMap::new();
            if special && r.chance(1, 3) {
                match r.below(3) {
                    0 => {
                        m.insert("__type".to_string(), PropertyValue::String("Duration".into()));
                    }
                    1 => {
                        m.insert("__type".to_string(), PropertyValue::String("DateTime".into()));
                        m.insert("value".to_string(), PropertyValue::Integer(gen_i64(r)));
                    }
                    _ => {
                        m.insert("__type".to_string(), PropertyValue::String("Duration".into()));
                        m.insert("days".to_string(), PropertyValue::Integer(3));
                    }
                }
            } else {
                let n = r.below(4);
                for _ in 0..n {
                    let k = match r.below(6) {
                        0 => "t".to_string(),
                        1 => "__type".to_string(),
                        2 => "value".to_string(),
                        _ => gen_string(r),
                    };
                    let v = if k == "t" && r.chance(1, 2) {
                        PropertyValue::String(r.pick(&["n", "e", "h"]).to_string())
                    } else if k == "__type" {
                        // harmless tags: not one of the three the importer interprets, or
                        // DateTime / Vector without a matching "value"
                        match r.below(3) {
                            0 => PropertyValue::String("Point".into()),
                            1 => PropertyValue::Integer(1),
                            _ => PropertyValue::String("DateTime".into()),
                        }
                    } else if k == "value" {
                        PropertyValue::String("v".into())
                    } else {
                        gen_value(r, depth + 1, special)
                    };
                    m.insert(k, v);
                }
            }
            PropertyValue::Map(m)
        }
    }
}

pub fn rop_of(i: u64) -> RollupOp {
    match i % 4 {
        0 => RollupOp::Sum,
        1 => RollupOp::Count,
        2 => RollupOp::Min,
        _ => RollupOp::Max,
    }
}
pub fn etype(s: &str) -> EdgeType {
    EdgeType::new(s)
}
pub fn read_all<R: Read>(mut r: R) -> Vec<u8> {
    let mut v = Vec::new();
    let _ = r.read_to_end(&mut v);
    v
}
