//! Minimal gzip container with *stored* deflate blocks (the harness crate has no flate2
//! dependency). `export_tenant_with_compression(.., 0)` writes stored blocks only, which
//! `gunzip_stored` reads; `gzip_stored` writes a stream the real GzDecoder accepts.

pub fn crc32(data: &[u8]) -> u32 {
    let mut table = [0u32; 256];
    for i in 0..256u32 {
        let mut c = i;
        for _ in 0..8 {
            c = if c & 1 != 0 { 0xEDB8_8320 ^ (c >> 1) } else { c >> 1 };
        }
        table[i as usize] = c;
    }
    let mut c = 0xFFFF_FFFFu32;
    for b in data {
        c = table[((c ^ *b as u32) & 0xFF) as usize] ^ (c >> 8);
    }
    c ^ 0xFFFF_FFFF
}

pub fn gzip_stored(data: &[u8]) -> Vec<u8> {
    let mut out = vec![0x1f, 0x8b, 8, 0, 0, 0, 0, 0, 0, 0xff];
    let mut chunks: Vec<&[u8]> = data.chunks(65535).collect();
    if chunks.is_empty() {
        chunks.push(&[]);
    }
    let n = chunks.len();
    for (i, c) in chunks.into_iter().enumerate() {
        out.push(if i + 1 == n { 1 } else { 0 });
        let l = c.len() as u16;
        out.extend_from_slice(&l.to_le_bytes());
        out.extend_from_slice(&(!l).to_le_bytes());
        out.extend_from_slice(c);
    }
    out.extend_from_slice(&crc32(data).to_le_bytes());
    out.extend_from_slice(&(data.len() as u32).to_le_bytes());
    out
}

/// Decode a gzip stream that uses only stored blocks; `Err` otherwise.
pub fn gunzip_stored(b: &[u8]) -> Result<Vec<u8>, String> {
    if b.len() < 18 || b[0] != 0x1f || b[1] != 0x8b || b[2] != 8 {
        return Err("not gzip".into());
    }
    let flg = b[3];
    let mut p = 10usize;
    if flg & 4 != 0 {
        let xlen = u16::from_le_bytes([b[p], b[p + 1]]) as usize;
        p += 2 + xlen;
    }
    if flg & 8 != 0 {
        while b[p] != 0 {
            p += 1;
        }
        p += 1;
    }
    if flg & 16 != 0 {
        while b[p] != 0 {
            p += 1;
        }
        p += 1;
    }
    if flg & 2 != 0 {
        p += 2;
    }
    let mut out = Vec::new();
    loop {
        if p >= b.len() {
            return Err("eof in deflate".into());
        }
        let hdr = b[p];
        p += 1;
        if (hdr >> 1) & 3 != 0 {
            return Err(format!("non-stored block type {}", (hdr >> 1) & 3));
        }
        if p + 4 > b.len() {
            return Err("eof in block header".into());
        }
        let l = u16::from_le_bytes([b[p], b[p + 1]]) as usize;
        let nl = u16::from_le_bytes([b[p + 2], b[p + 3]]);
        if nl != !(l as u16) {
            return Err("bad stored length".into());
        }
        p += 4;
        if p + l > b.len() {
            return Err("eof in block".into());
        }
        out.extend_from_slice(&b[p..p + l]);
        p += l;
        if hdr & 1 == 1 {
            break;
        }
    }
    if p + 8 > b.len() {
        return Err("eof in trailer".into());
    }
    let crc = u32::from_le_bytes([b[p], b[p + 1], b[p + 2], b[p + 3]]);
    if crc != crc32(&out) {
        return Err("crc".into());
    }
    Ok(out)
}
