//! C17 — persistent storage never mixes tenants.
//!
//! Real RocksDB in a temp dir per case. A case is a history of puts/deletes of nodes and
//! relationships under 2–3 tenant names (prefixes of one another, adjacent in byte order,
//! containing the key separator ':', empty, non-ASCII), with reads in between and at the end:
//! scan_nodes / scan_edges / get_node / get_edge / list_persisted_tenants and, after
//! reopening the directory, PersistenceManager::recover per tenant. The observations go to
//! the Coq model (Storage.check_case); the property's own predicate is evaluated here
//! against a plain BTreeMap oracle keyed by (tenant, id).
use samyama::graph::{Edge, EdgeId, EdgeType, Label, Node, NodeId};
use samyama::persistence::{PersistenceManager, ResourceQuotas};
use std::collections::{BTreeMap, BTreeSet};
use vh::*;

#[derive(Clone, Debug)]
enum Ev {
    PutNode(usize, u64),
    DelNode(usize, u64),
    PutEdge(usize, u64),
    DelEdge(usize, u64),
    ScanNodes(usize),
    ScanEdges(usize),
    GetNode(usize, u64),
    GetEdge(usize, u64),
    List,
    /// drop the manager (and its RocksDB handle) and open the directory again
    Reopen,
    /// PersistenceManager::recover for this tenant
    Recover(usize),
}

const SPECIAL: &[&str] = &[
    "a", "ab", "a:", "a:n", "a:e", "a:n:0000000000000001", "a!", "a9", "a;", "", ":", "::", ":n", "b", "a:b",
    "é", "a:é", "aé", "日本", "a\u{80}", "\u{10FFFF}", "default", "a:n:", "n", "a\u{0}",
];
const IDS: &[u64] = &[0, 1, 2, 3, 15, 16, 255, 1 << 63, u64::MAX];

fn rand_name(r: &mut Rng) -> String {
    let alpha = ["a", "b", ":", "!", ";", "0", "n", "e", "9", "é", "\u{0}"];
    let n = r.range(0, 5);
    (0..n).map(|_| *r.pick(&alpha)).collect()
}

fn g_val(v: &(u64, u64)) -> String {
    format!("({}, {})", v.0, v.1)
}
fn g_vals(v: &[(u64, u64)]) -> String {
    g_list(v.iter().map(g_val))
}

struct Oracle {
    nodes: BTreeMap<(String, u64), u64>,
    edges: BTreeMap<(String, u64), u64>,
}
impl Oracle {
    fn of(m: &BTreeMap<(String, u64), u64>, t: &str) -> Vec<(u64, u64)> {
        m.iter().filter(|((tt, _), _)| tt == t).map(|((_, id), p)| (*id, *p)).collect()
    }
}

fn node_obs(n: &Node) -> (u64, u64) {
    (n.id.as_u64(), n.get_property("p").and_then(|v| v.as_integer()).map(|x| x as u64).unwrap_or(u64::MAX))
}
fn edge_obs(e: &Edge) -> (u64, u64) {
    (e.id.as_u64(), e.get_property("p").and_then(|v| v.as_integer()).map(|x| x as u64).unwrap_or(u64::MAX))
}

fn sorted(mut v: Vec<(u64, u64)>) -> Vec<(u64, u64)> {
    v.sort();
    v
}

fn open(dir: &std::path::Path, names: &[String]) -> PersistenceManager {
    let pm = PersistenceManager::new(dir).expect("open persistence manager");
    for n in names {
        // "default" exists already; every other name is accepted as it comes
        let _ = pm.tenants().create_tenant(n.clone(), n.clone(), Some(ResourceQuotas::unlimited()));
    }
    pm
}

/// `via_pm`: writes go through PersistenceManager::persist_* (WAL + storage + usage) instead of
/// PersistentStorage directly. Reads always go to PersistentStorage / recover.
struct Counts(Vec<(String, u64)>);
impl Counts {
    fn count(&mut self, k: &str) {
        self.0.push((k.to_string(), 1));
    }
    fn count_n(&mut self, k: &str, n: u64) {
        self.0.push((k.to_string(), n));
    }
}
struct CaseResult {
    gallina: String,
    human: String,
    bad: Option<String>,
    counts: Counts,
}
struct Spec {
    names: Vec<String>,
    evs: Vec<Ev>,
    via_pm: bool,
}

fn run_case(names: &[String], evs: &[Ev], via_pm: bool) -> CaseResult {
    let mut counts = Counts(Vec::new());
    let out = &mut counts;
    let human = format!("names={:?} via_pm={} events={:?}", names, via_pm, evs);
    // a memory-backed directory when there is one (RocksDB's fsyncs dominate the run otherwise)
    let base = if std::path::Path::new("/dev/shm").is_dir() { std::path::PathBuf::from("/dev/shm") } else { std::env::temp_dir() };
    let tmp = tempfile::Builder::new().prefix("c17-").tempdir_in(base).expect("tempdir");
    let mut pm = Some(open(tmp.path(), names));
    let mut or = Oracle { nodes: BTreeMap::new(), edges: BTreeMap::new() };
    let mut stamp: u64 = 100;
    let mut g: Vec<String> = Vec::new();
    let mut bad: Option<String> = None;
    let flag = |bad: &mut Option<String>, s: String| {
        if bad.is_none() {
            *bad = Some(s);
        }
    };
    let tn = |i: usize| g_bytes(names[i].as_bytes());
    for ev in evs {
        let m = pm.as_ref().unwrap();
        let st = m.storage();
        match ev {
            Ev::PutNode(t, id) => {
                stamp += 1;
                let mut n = Node::new(NodeId::new(*id), Label::new("L"));
                n.set_property("p", stamp as i64);
                let r = if via_pm {
                    m.persist_create_node(&names[*t], &n).map_err(|e| e.to_string())
                } else {
                    st.put_node(&names[*t], &n).map_err(|e| e.to_string())
                };
                match r {
                    Ok(()) => {
                        or.nodes.insert((names[*t].clone(), *id), stamp);
                        g.push(format!("EOp (PutNode {} {} {})", tn(*t), id, stamp));
                    }
                    Err(e) => {
                        out.count("write_refused");
                        flag(&mut bad, format!("put_node refused for tenant {:?}: {}", names[*t], e));
                    }
                }
            }
            Ev::DelNode(t, id) => {
                let r = if via_pm {
                    m.persist_delete_node(&names[*t], *id).map_err(|e| e.to_string())
                } else {
                    st.delete_node(&names[*t], *id).map_err(|e| e.to_string())
                };
                match r {
                    Ok(()) => {
                        or.nodes.remove(&(names[*t].clone(), *id));
                        g.push(format!("EOp (DelNode {} {})", tn(*t), id));
                    }
                    Err(e) => flag(&mut bad, format!("delete_node failed for tenant {:?}: {}", names[*t], e)),
                }
            }
            Ev::PutEdge(t, id) => {
                stamp += 1;
                let mut e = Edge::new(EdgeId::new(*id), NodeId::new(1), NodeId::new(2), EdgeType::new("R"));
                e.set_property("p", stamp as i64);
                let r = if via_pm {
                    m.persist_create_edge(&names[*t], &e).map_err(|e| e.to_string())
                } else {
                    st.put_edge(&names[*t], &e).map_err(|e| e.to_string())
                };
                match r {
                    Ok(()) => {
                        or.edges.insert((names[*t].clone(), *id), stamp);
                        g.push(format!("EOp (PutEdge {} {} {})", tn(*t), id, stamp));
                    }
                    Err(e) => {
                        out.count("write_refused");
                        flag(&mut bad, format!("put_edge refused for tenant {:?}: {}", names[*t], e));
                    }
                }
            }
            Ev::DelEdge(t, id) => {
                let r = if via_pm {
                    m.persist_delete_edge(&names[*t], *id).map_err(|e| e.to_string())
                } else {
                    st.delete_edge(&names[*t], *id).map_err(|e| e.to_string())
                };
                match r {
                    Ok(()) => {
                        or.edges.remove(&(names[*t].clone(), *id));
                        g.push(format!("EOp (DelEdge {} {})", tn(*t), id));
                    }
                    Err(e) => flag(&mut bad, format!("delete_edge failed for tenant {:?}: {}", names[*t], e)),
                }
            }
            Ev::ScanNodes(t) => match st.scan_nodes(&names[*t]) {
                Ok(v) => {
                    let o: Vec<_> = v.iter().map(node_obs).collect();
                    let want = Oracle::of(&or.nodes, &names[*t]);
                    if sorted(o.clone()) != want {
                        out.count("scan_mismatch");
                        flag(
                            &mut bad,
                            format!("scan_nodes({:?}) returned (id,stamp) {:?}; stored under that tenant: {:?}", names[*t], o, want),
                        );
                    }
                    if !want.is_empty() {
                        out.count("scan_nonempty");
                    }
                    g.push(format!("EScanNodes {} {}", tn(*t), g_vals(&o)));
                }
                Err(e) => flag(&mut bad, format!("scan_nodes({:?}) failed: {}", names[*t], e)),
            },
            Ev::ScanEdges(t) => match st.scan_edges(&names[*t]) {
                Ok(v) => {
                    let o: Vec<_> = v.iter().map(edge_obs).collect();
                    let want = Oracle::of(&or.edges, &names[*t]);
                    if sorted(o.clone()) != want {
                        out.count("scan_mismatch");
                        flag(
                            &mut bad,
                            format!("scan_edges({:?}) returned (id,stamp) {:?}; stored under that tenant: {:?}", names[*t], o, want),
                        );
                    }
                    g.push(format!("EScanEdges {} {}", tn(*t), g_vals(&o)));
                }
                Err(e) => flag(&mut bad, format!("scan_edges({:?}) failed: {}", names[*t], e)),
            },
            Ev::GetNode(t, id) => match st.get_node(&names[*t], *id) {
                Ok(v) => {
                    let o = v.as_ref().map(node_obs);
                    let want = or.nodes.get(&(names[*t].clone(), *id)).map(|p| (*id, *p));
                    if o != want {
                        flag(&mut bad, format!("get_node({:?},{}) = {:?}, stored: {:?}", names[*t], id, o, want));
                    }
                    g.push(format!("EGetNode {} {} {}", tn(*t), id, g_opt(o.as_ref().map(g_val))));
                }
                Err(e) => flag(&mut bad, format!("get_node({:?}) failed: {}", names[*t], e)),
            },
            Ev::GetEdge(t, id) => match st.get_edge(&names[*t], *id) {
                Ok(v) => {
                    let o = v.as_ref().map(edge_obs);
                    let want = or.edges.get(&(names[*t].clone(), *id)).map(|p| (*id, *p));
                    if o != want {
                        flag(&mut bad, format!("get_edge({:?},{}) = {:?}, stored: {:?}", names[*t], id, o, want));
                    }
                    g.push(format!("EGetEdge {} {} {}", tn(*t), id, g_opt(o.as_ref().map(g_val))));
                }
                Err(e) => flag(&mut bad, format!("get_edge({:?}) failed: {}", names[*t], e)),
            },
            Ev::List => match m.list_persisted_tenants() {
                Ok(v) => {
                    let got: BTreeSet<String> = v.iter().cloned().collect();
                    let want: BTreeSet<String> = or.nodes.keys().map(|(t, _)| t.clone()).collect();
                    if got != want || got.len() != v.len() {
                        out.count("list_mismatch");
                        flag(&mut bad, format!("list_persisted_tenants = {:?}; tenants with stored nodes: {:?}", v, want));
                    }
                    if want.len() >= 2 {
                        out.count("list_two_or_more");
                    }
                    g.push(format!("EList {}", g_list(v.iter().map(|s| g_bytes(s.as_bytes())))));
                }
                Err(e) => flag(&mut bad, format!("list_persisted_tenants failed: {}", e)),
            },
            Ev::Reopen => {
                // a real reopen: the old manager (and its RocksDB handle) must be gone first
                drop(pm.take());
                pm = Some(open(tmp.path(), names));
                out.count("reopened");
            }
            Ev::Recover(t) => {
                match m.recover(&names[*t]) {
                    Ok((ns, es)) => {
                        let on: Vec<_> = ns.iter().map(node_obs).collect();
                        let oe: Vec<_> = es.iter().map(edge_obs).collect();
                        let wn = Oracle::of(&or.nodes, &names[*t]);
                        let we = Oracle::of(&or.edges, &names[*t]);
                        if sorted(on.clone()) != wn || sorted(oe.clone()) != we {
                            out.count("recover_mismatch");
                            flag(
                                &mut bad,
                                format!(
                                    "recover({:?}) returned nodes {:?} edges {:?}; stored under that tenant: nodes {:?} edges {:?}",
                                    names[*t], on, oe, wn, we
                                ),
                            );
                        }
                        out.count("recovered");
                        g.push(format!("ERecover {} {} {}", tn(*t), g_vals(&on), g_vals(&oe)));
                    }
                    Err(e) => flag(&mut bad, format!("recover({:?}) failed: {}", names[*t], e)),
                }
            }
        }
    }
    drop(pm);
    // generator health
    let tenants_with_data: BTreeSet<&String> =
        or.nodes.keys().map(|(t, _)| t).chain(or.edges.keys().map(|(t, _)| t)).collect();
    if tenants_with_data.len() >= 2 {
        out.count("two_tenants_with_data");
    }
    if names.iter().any(|n| n.contains(':')) {
        out.count("name_with_separator");
    }
    if names.iter().any(|a| names.iter().any(|b| a != b && b.starts_with(a.as_str()))) {
        out.count("name_prefix_of_other");
    }
    if names.iter().any(|a| names.iter().any(|b| a != b && b.starts_with(&format!("{}:", a)))) {
        out.count("name_plus_separator_prefix_of_other");
    }
    if names.iter().any(|n| !n.is_ascii()) {
        out.count("non_ascii_name");
    }
    if names.iter().any(|n| n.is_empty()) {
        out.count("empty_name");
    }
    out.count_n("events", evs.len() as u64);
    CaseResult { gallina: g_list(g), human, bad, counts }
}

/// reads of everything for every tenant, listing, then reopen + recover for every tenant
fn final_reads(n: usize, ids: &[u64]) -> Vec<Ev> {
    let mut v = Vec::new();
    for t in 0..n {
        v.push(Ev::ScanNodes(t));
        v.push(Ev::ScanEdges(t));
        for id in ids {
            v.push(Ev::GetNode(t, *id));
            v.push(Ev::GetEdge(t, *id));
        }
    }
    v.push(Ev::List);
    v.push(Ev::Reopen);
    for t in 0..n {
        v.push(Ev::Recover(t));
    }
    v.push(Ev::List);
    for t in 0..n {
        v.push(Ev::ScanNodes(t));
    }
    v
}

fn main() {
    let args = parse_args();
    let mut out = Out::new(&args, "From Verif Require Import Storage.", "Storage.case", "Storage.check_case", 40);
    out.rule = "fixed scope: every ordered pair of a list of special tenant names (prefixes of one another, \
                byte-adjacent to ':', containing ':', empty, non-ASCII) with a fixed put/delete history (quick: a \
                seed-rotated third of the pairs; thorough: all); random: 2-3 names (special or random over a \
                separator-heavy alphabet), 4-24 interleaved puts/deletes of nodes and relationships over 9 ids \
                including 0 and u64::MAX, reads in between, then scans/gets for every tenant, listing, reopen and \
                recover per tenant. Writes go through PersistenceManager::persist_* in half of the cases and \
                through PersistentStorage directly in the other half. Distinct by case text."
        .to_string();

    let mut specs: Vec<Spec> = Vec::new();
    // ---- fixed scope: pairs of special names, fixed history ----
    let mut k = 0u64;
    for a in SPECIAL {
        for b in SPECIAL {
            if a == b {
                continue;
            }
            k += 1;
            if !args.thorough && (k + args.seed) % 3 != 0 {
                continue;
            }
            let names = vec![a.to_string(), b.to_string()];
            let mut evs = vec![
                Ev::PutNode(0, 1),
                Ev::PutNode(1, 1),
                Ev::PutEdge(0, 1),
                Ev::PutEdge(1, 2),
                Ev::PutNode(1, 2),
                Ev::ScanNodes(0),
                Ev::ScanNodes(1),
                Ev::PutNode(0, 1),
                Ev::DelNode(1, 1),
                Ev::List,
            ];
            evs.extend(final_reads(2, &[1, 2]));
            evs.push(Ev::DelNode(0, 1));
            evs.push(Ev::List);
            evs.push(Ev::ScanNodes(0));
            evs.push(Ev::ScanNodes(1));
            specs.push(Spec { names, evs, via_pm: k % 2 == 0 });
        }
    }

    // ---- random histories ----
    let n = if args.thorough { 4000 } else { 160 };
    for c in 0..n {
        let mut r = Rng::for_case(args.seed, c);
        let nn = r.range(2, 3) as usize;
        let mut names: Vec<String> = Vec::new();
        while names.len() < nn {
            let s = match r.below(10) {
                0..=5 => r.pick(SPECIAL).to_string(),
                6 | 7 if !names.is_empty() => {
                    // derived from an earlier name: extend it past a separator or by one byte
                    let base = r.pick(&names).clone();
                    let tail = *r.pick(&[":", ":n", ":e", ":n:", "!", ";", "a", ":n:0000000000000000"]);
                    format!("{}{}", base, tail)
                }
                _ => rand_name(&mut r),
            };
            if !names.contains(&s) {
                names.push(s);
            }
        }
        // one extra name with nothing stored (a reader only)
        let reader_only = r.chance(1, 3);
        let writers = if reader_only { nn - 1 } else { nn };
        let ids: Vec<u64> = (0..3).map(|_| *r.pick(IDS)).collect();
        let nops = r.range(4, 24);
        let mut evs = Vec::new();
        for _ in 0..nops {
            let t = r.below(writers as u64) as usize;
            let id = *r.pick(&ids);
            evs.push(match r.below(20) {
                0..=7 => Ev::PutNode(t, id),
                8..=10 => Ev::DelNode(t, id),
                11..=14 => Ev::PutEdge(t, id),
                15 | 16 => Ev::DelEdge(t, id),
                17 => Ev::ScanNodes(r.below(nn as u64) as usize),
                18 => Ev::ScanEdges(r.below(nn as u64) as usize),
                _ => Ev::List,
            });
        }
        evs.extend(final_reads(nn, &ids));
        let via_pm = r.chance(1, 2);
        specs.push(Spec { names, evs, via_pm });
    }

    // ---- run (cases are independent: temp dir each), in parallel, then record in order ----
    let wanted: Vec<bool> = (0..specs.len()).map(|i| out.wants(i as u64)).collect();
    let workers = std::thread::available_parallelism().map(|n| n.get()).unwrap_or(4).min(12);
    let next = std::sync::atomic::AtomicUsize::new(0);
    let results: Vec<std::sync::Mutex<Option<CaseResult>>> = (0..specs.len()).map(|_| std::sync::Mutex::new(None)).collect();
    std::thread::scope(|sc| {
        for _ in 0..workers {
            sc.spawn(|| loop {
                let i = next.fetch_add(1, std::sync::atomic::Ordering::SeqCst);
                if i >= specs.len() {
                    break;
                }
                if wanted[i] {
                    let sp = &specs[i];
                    *results[i].lock().unwrap() = Some(run_case(&sp.names, &sp.evs, sp.via_pm));
                }
            });
        }
    });
    for r in results {
        match r.into_inner().unwrap() {
            None => {
                out.skip();
            }
            Some(c) => {
                for (k, n) in &c.counts.0 {
                    out.count_n(k, *n);
                }
                let i = out.case(c.gallina, c.human.clone(), true);
                if let Some(b) = c.bad {
                    out.fail(i, &c.human, &b, None);
                }
            }
        }
    }
    out.finish();
}
