//! C31 — Raft log storage: one entry per index, append replaces the suffix, snapshot keeps the
//! tail, last index/term. Drives samyama::raft::storage::RaftStorage through its public API.
use samyama::raft::storage::{LogEntry, RaftStorage};
use std::collections::BTreeMap;
use std::panic::AssertUnwindSafe;
use std::path::PathBuf;
use vh::*;

type Ent = (u64, u64, Vec<u8>);

#[derive(Clone, Debug)]
enum Op {
    Append(Vec<Ent>),
    Del(u64),
    Snap(u64, u64),
}

fn g_ent(e: &Ent) -> String {
    format!("(E {} {} {})", e.0, e.1, g_bytes(&e.2))
}
fn g_op(o: &Op) -> String {
    match o {
        Op::Append(es) => format!("Append {}", g_list(es.iter().map(g_ent))),
        Op::Del(i) => format!("DeleteFrom {}", i),
        Op::Snap(i, t) => format!("Snapshot {} {}", i, t),
    }
}

/// What is read after an operation (same shape as RaftLog.obs).
#[derive(Clone, Debug, PartialEq)]
struct Obs {
    probes: Vec<Option<Ent>>, // get_entry 0..=6
    r07: Vec<Ent>,            // get_entries(0,7)
    r25: Vec<Ent>,            // get_entries(2,5)
    all: Vec<Ent>,            // get_entries(0,u64::MAX)
    last: (u64, u64),
    snap: Option<(u64, u64)>,
}

fn ent(e: LogEntry) -> Ent {
    (e.index, e.term, e.data)
}

async fn observe(st: &RaftStorage) -> Obs {
    let mut probes = Vec::new();
    for i in 0..=6u64 {
        probes.push(st.get_entry(i).await.map(ent));
    }
    Obs {
        probes,
        r07: st.get_entries(0, 7).await.into_iter().map(ent).collect(),
        r25: st.get_entries(2, 5).await.into_iter().map(ent).collect(),
        all: st.get_entries(0, u64::MAX).await.into_iter().map(ent).collect(),
        last: st.get_last_log_index_term().await,
        snap: st.get_snapshot_metadata().await,
    }
}

fn g_obs(o: &Obs) -> String {
    format!(
        "({}, {}, {}, {}, ({}, {}), {})",
        g_list(o.probes.iter().map(|p| g_opt(p.as_ref().map(g_ent)))),
        g_list(o.r07.iter().map(g_ent)),
        g_list(o.r25.iter().map(g_ent)),
        g_list(o.all.iter().map(g_ent)),
        o.last.0,
        o.last.1,
        g_opt(o.snap.map(|(i, t)| format!("({}, {})", i, t)))
    )
}

async fn apply(st: &RaftStorage, op: &Op) {
    match op {
        Op::Append(es) => st
            .append_entries(es.iter().map(|e| LogEntry { index: e.0, term: e.1, data: e.2.clone() }).collect())
            .await
            .unwrap(),
        Op::Del(i) => st.delete_entries_from(*i).await.unwrap(),
        Op::Snap(i, t) => st.create_snapshot(*i, *t, vec![0xAB]).await.unwrap(),
    }
}

/// Independent reference: Raft's log as an ordered map, plus the snapshot metadata.
#[derive(Default, Clone)]
struct Oracle {
    m: BTreeMap<u64, (u64, Vec<u8>)>,
    snap: Option<(u64, u64)>,
}

impl Oracle {
    fn apply(&mut self, op: &Op) {
        match op {
            Op::Append(es) => {
                for e in es {
                    self.m.retain(|k, _| *k < e.0);
                    self.m.insert(e.0, (e.1, e.2.clone()));
                }
            }
            Op::Del(i) => self.m.retain(|k, _| *k < *i),
            Op::Snap(i, t) => {
                self.m.retain(|k, _| *k > *i);
                self.snap = Some((*i, *t));
            }
        }
    }
    fn get(&self, i: u64) -> Option<Ent> {
        self.m.get(&i).map(|(t, d)| (i, *t, d.clone()))
    }
    fn range(&self, a: u64, b: u64) -> Vec<Ent> {
        self.m.iter().filter(|(k, _)| **k >= a && **k < b).map(|(k, (t, d))| (*k, *t, d.clone())).collect()
    }
    fn last(&self) -> (u64, u64) {
        match self.m.iter().next_back() {
            Some((k, (t, _))) => (*k, *t),
            None => self.snap.unwrap_or((0, 0)),
        }
    }
    /// The property's predicate on what the implementation answered.
    fn judge(&self, o: &Obs) -> Option<String> {
        let mut idx: Vec<u64> = o.all.iter().map(|e| e.0).collect();
        idx.sort();
        if idx.windows(2).any(|w| w[0] == w[1]) {
            return Some(format!("two entries for one index: get_entries(0,max) = {:?}", o.all));
        }
        for (i, p) in o.probes.iter().enumerate() {
            if *p != self.get(i as u64) {
                return Some(format!("get_entry({}) = {:?}, reference log has {:?}", i, p, self.get(i as u64)));
            }
        }
        for (name, got, a, b) in [("0,7", &o.r07, 0, 7), ("2,5", &o.r25, 2, 5), ("0,max", &o.all, 0, u64::MAX)] {
            let mut g = got.clone();
            g.sort();
            if g != self.range(a, b) {
                return Some(format!("get_entries({}) = {:?}, reference log has {:?}", name, got, self.range(a, b)));
            }
        }
        if o.last != self.last() {
            return Some(format!("last index/term = {:?}, reference {:?}", o.last, self.last()));
        }
        if o.snap != self.snap {
            return Some(format!("snapshot metadata = {:?}, reference {:?}", o.snap, self.snap));
        }
        None
    }
}

// ---- block hash (must mirror RaftLog.mix / enc_obs exactly) ----
fn mix(h: u64, x: u64) -> u64 {
    (h << 5).wrapping_add(h).wrapping_add(x).wrapping_add(1) & 0x7FFF_FFFF_FFFF_FFFF
}
fn enc_entry(h: u64, e: &Ent) -> u64 {
    let mut h = mix(mix(mix(h, 7), e.0), e.1);
    for b in &e.2 {
        h = mix(h, *b as u64);
    }
    h
}
fn enc_list(h: u64, l: &[Ent]) -> u64 {
    let mut h = mix(h, 11);
    for e in l {
        h = enc_entry(h, e);
    }
    mix(h, 13)
}
fn enc_obs(mut h: u64, o: &Obs) -> u64 {
    for p in &o.probes {
        h = match p {
            None => mix(h, 3),
            Some(e) => enc_entry(h, e),
        };
    }
    h = enc_list(enc_list(enc_list(h, &o.r07), &o.r25), &o.all);
    h = mix(mix(h, o.last.0), o.last.1);
    match o.snap {
        None => mix(h, 5),
        Some((i, t)) => mix(mix(mix(h, 9), i), t),
    }
}

/// RaftLog.alphabet imax tmax pos, same order.
fn alphabet(imax: u64, tmax: u64, pos: u64) -> Vec<Op> {
    let mut v = Vec::new();
    for i in 1..=imax {
        for t in 1..=tmax {
            v.push(Op::Append(vec![(i, t, vec![pos as u8])]));
        }
    }
    for i in 1..=imax {
        v.push(Op::Del(i));
    }
    for i in 1..=imax {
        for t in 1..=tmax {
            v.push(Op::Snap(i, t));
        }
    }
    v
}

enum Job {
    Seq(Vec<Op>),
    Block { prefix: Vec<Op>, imax: u64, tmax: u64, depth: usize },
}

struct Ctx {
    rt: tokio::runtime::Runtime,
    dir: PathBuf,
}

/// Run one sequence on a fresh storage; observations after every operation (first = initial state).
fn run_seq(cx: &Ctx, ops: &[Op], every: bool) -> Result<Vec<Obs>, String> {
    catch(AssertUnwindSafe(|| {
        cx.rt.block_on(async {
            let st = RaftStorage::new(&cx.dir).expect("storage");
            let mut v = Vec::new();
            if every {
                v.push(observe(&st).await);
            }
            for (k, op) in ops.iter().enumerate() {
                apply(&st, op).await;
                if every || k + 1 == ops.len() {
                    v.push(observe(&st).await);
                }
            }
            if !every && ops.is_empty() {
                v.push(observe(&st).await);
            }
            v
        })
    }))
}

fn do_seq(cx: &Ctx, out: &mut Out, ops: &[Op]) {
    let idx = out.next_index();
    if !out.wants(idx) {
        out.skip();
        return;
    }
    let human = format!("seq {:?}", ops);
    let res = run_seq(cx, ops, true);
    let mut bad: Option<String> = None;
    let obs = match res {
        Ok(v) => v,
        Err(p) => {
            bad = Some(format!("panic: {}", p));
            Vec::new()
        }
    };
    // predicate + generator health
    let mut or = Oracle::default();
    for (k, o) in obs.iter().enumerate() {
        if k > 0 {
            let op = &ops[k - 1];
            let before = or.clone();
            or.apply(op);
            match op {
                Op::Append(es) => {
                    if es.len() > 1 {
                        out.count("multi_entry_append");
                    }
                    if es.iter().any(|e| before.m.range(e.0..).next().is_some()) {
                        out.count("append_replaces_suffix");
                    }
                }
                Op::Del(i) => {
                    if before.m.range(*i..).next().is_some() {
                        out.count("delete_truncates");
                    }
                }
                Op::Snap(i, _) => {
                    if !or.m.is_empty() {
                        out.count("snapshot_with_tail");
                    }
                    if before.m.range(..=*i).next().is_some() {
                        out.count("snapshot_compacts");
                    }
                }
            }
            if or.m.is_empty() && or.snap.is_some() {
                out.count("last_from_snapshot");
            }
        }
        if bad.is_none() {
            if let Some(b) = or.judge(o) {
                bad = Some(if k == 0 { format!("initially: {}", b) } else { format!("after op #{} {:?}: {}", k, ops[k - 1], b) });
            }
        }
    }
    out.count_n("ops", ops.len() as u64);
    let g = format!("Seq {} {}", g_list(ops.iter().map(g_op)), g_list(obs.iter().map(g_obs)));
    let i = out.case(g, human.clone(), !ops.is_empty());
    if let Some(b) = bad {
        out.fail(i, &human, &b, None);
    }
}

fn do_block(cx: &Ctx, out: &mut Out, prefix: &[Op], imax: u64, tmax: u64, depth: usize) {
    let idx = out.next_index();
    if !out.wants(idx) {
        out.skip();
        return;
    }
    let human = format!("block prefix={:?} alphabet i<={} t<={} depth={}", prefix, imax, tmax, depth);
    let mut h: u64 = 0;
    let mut bad: Option<String> = None;
    let mut leaves: u64 = 0;
    let alpha: Vec<Vec<Op>> = (0..depth).map(|d| alphabet(imax, tmax, (prefix.len() + d) as u64)).collect();
    let n = alpha.first().map_or(0, |a| a.len());
    let mut sel = vec![0usize; depth];
    let mut seq: Vec<Op> = prefix.to_vec();
    'outer: loop {
        seq.truncate(prefix.len());
        for d in 0..depth {
            seq.push(alpha[d][sel[d]].clone());
        }
        leaves += 1;
        match run_seq(cx, &seq, false) {
            Ok(v) => {
                let o = &v[0];
                h = enc_obs(h, o);
                if bad.is_none() {
                    let mut or = Oracle::default();
                    for op in &seq {
                        or.apply(op);
                    }
                    if let Some(b) = or.judge(o) {
                        bad = Some(format!("after {:?}: {}", seq, b));
                    }
                }
            }
            Err(p) => {
                h = mix(h, 0xDEAD);
                if bad.is_none() {
                    bad = Some(format!("panic on {:?}: {}", seq, p));
                }
            }
        }
        // next selection, last position fastest (= nested fold_left order of RaftLog.block_hash)
        let mut d = depth;
        loop {
            if d == 0 {
                break 'outer;
            }
            d -= 1;
            sel[d] += 1;
            if sel[d] < n {
                break;
            }
            sel[d] = 0;
        }
    }
    out.count_n("block_sequences", leaves);
    out.count("blocks");
    let g = format!("Block {} {} {} {} {}", g_list(prefix.iter().map(g_op)), imax, tmax, depth, h);
    let i = out.case(g, human.clone(), true);
    if let Some(b) = bad {
        out.fail(i, &human, &b, None);
    }
}

/// every sequence of exactly `len` operations over alphabet(imax,tmax)
fn all_seqs(imax: u64, tmax: u64, len: usize) -> Vec<Vec<Op>> {
    let mut cur: Vec<Vec<Op>> = vec![vec![]];
    for pos in 0..len {
        let a = alphabet(imax, tmax, pos as u64);
        let mut next = Vec::with_capacity(cur.len() * a.len());
        for s in &cur {
            for o in &a {
                let mut t = s.clone();
                t.push(o.clone());
                next.push(t);
            }
        }
        cur = next;
    }
    cur
}

fn random_seq(r: &mut Rng) -> Vec<Op> {
    let n = r.range(1, 8);
    let extreme = r.chance(1, 12);
    let idx = |r: &mut Rng| -> u64 {
        if extreme && r.chance(1, 3) {
            *r.pick(&[0u64, u64::MAX, u64::MAX - 1, 1 << 63, 7, 1000])
        } else {
            r.range(1, 6)
        }
    };
    (0..n)
        .map(|k| match r.below(10) {
            0..=5 => {
                let cnt = if r.chance(1, 3) { r.range(2, 4) } else { 1 };
                let start = idx(r);
                let term = r.range(1, 3);
                let consecutive = r.chance(3, 4);
                let es = (0..cnt)
                    .map(|j| {
                        let i = if consecutive { start.saturating_add(j) } else { idx(r) };
                        let dl = r.below(3);
                        let mut d = vec![k as u8];
                        for _ in 0..dl {
                            d.push(r.below(256) as u8);
                        }
                        if r.chance(1, 10) {
                            d.clear();
                        }
                        (i, if r.chance(1, 5) { r.range(1, 3) } else { term }, d)
                    })
                    .collect();
                Op::Append(es)
            }
            6 | 7 => Op::Del(idx(r)),
            _ => Op::Snap(idx(r), r.range(1, 3)),
        })
        .collect()
}

fn main() {
    let args = parse_args();
    quiet_panics();
    let dir = args.out.join("raftdir");
    let cx = Ctx { rt: tokio::runtime::Builder::new_current_thread().enable_all().build().unwrap(), dir };
    let mut out = Out::new(&args, "From Verif Require Import RaftLog.", "RaftLog.case", "RaftLog.check_case", 300);
    out.rule = "alphabet A(i<=5,t<=3) = 35 operations (append [(i,t)], delete_from i, snapshot (i,t)); reduced alphabet \
                A(3,2) = 15. Seq cases carry get_entry 0..6, get_entries (0,7) (2,5) (0,max), last index/term and \
                snapshot metadata after EVERY operation; Block cases enumerate every extension of a prefix by `depth` \
                operations on both sides and compare a 64-bit fold of the final observations. quick: Seq exhaustive \
                length<=2 over A(5,3) + a seeded 1/16 sample of length 3 + 1500 random (length<=8, multi-entry appends, \
                extreme indices); Block: all of length 3 over A(5,3), all of length 4 and 5 over A(3,2). thorough: Seq \
                exhaustive length<=3 + 20000 random; Block: all of length 4 over A(5,3), all of length 4,5,6 over A(3,2). \
                Non-trivial = at least one operation; distinct by case text."
        .to_string();

    let mut light: Vec<Job> = Vec::new();
    let mut heavy: Vec<Job> = Vec::new();
    for len in 0..=2 {
        light.extend(all_seqs(5, 3, len).into_iter().map(Job::Seq));
    }
    let mut sel = Rng::new(args.seed ^ 0x31);
    for s in all_seqs(5, 3, 3) {
        if args.thorough || sel.chance(1, 16) {
            light.push(Job::Seq(s));
        }
    }
    let nrand = if args.thorough { 20000 } else { 1500 };
    for c in 0..nrand {
        let mut r = Rng::for_case(args.seed, c);
        light.push(Job::Seq(random_seq(&mut r)));
    }
    let blocks = |v: &mut Vec<Job>, imax: u64, tmax: u64, plen: usize, depth: usize| {
        for p in all_seqs(imax, tmax, plen) {
            v.push(Job::Block { prefix: p, imax, tmax, depth });
        }
    };
    if args.thorough {
        blocks(&mut heavy, 5, 3, 2, 2); // length 4, full alphabet: 1225 blocks x 1225
        blocks(&mut heavy, 3, 2, 2, 2); // length 4, reduced
        blocks(&mut heavy, 3, 2, 2, 3); // length 5, reduced
        blocks(&mut heavy, 3, 2, 3, 3); // length 6, reduced: 3375 blocks x 3375
    } else {
        blocks(&mut heavy, 5, 3, 1, 2); // length 3, full alphabet: 35 blocks x 1225
        blocks(&mut heavy, 3, 2, 2, 2); // length 4, reduced: 225 x 225
        blocks(&mut heavy, 3, 2, 2, 3); // length 5, reduced: 225 x 3375
    }
    // spread the blocks evenly among the light cases so that every shard costs about the same
    let total = light.len() + heavy.len();
    let (mut li, mut hi) = (light.into_iter(), heavy.into_iter().peekable());
    let hn = hi.len().max(1);
    let mut placed = 0usize;
    for k in 0..total {
        let due = ((k + 1) * hn) / total; // heavy jobs that should have been placed after slot k
        let job = if placed < due && hi.peek().is_some() {
            placed += 1;
            hi.next()
        } else {
            li.next().or_else(|| hi.next())
        };
        match job {
            Some(Job::Seq(ops)) => do_seq(&cx, &mut out, &ops),
            Some(Job::Block { prefix, imax, tmax, depth }) => do_block(&cx, &mut out, &prefix, imax, tmax, depth),
            None => {}
        }
    }
    out.finish();
}
