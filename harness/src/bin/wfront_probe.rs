//! temporary probe (w-front): confirm C03/C23/C24 witnesses on the real code
use samyama::graph::GraphStore;
use samyama::protocol::command::CommandHandler;
use samyama::protocol::resp::RespValue;
use samyama::query::{parse_query, QueryEngine, QueryExecutor, RecordBatch};
use std::sync::Arc;
use tokio::sync::RwLock;

fn show(b: &Result<RecordBatch, Box<dyn std::error::Error>>) -> String {
    match b {
        Ok(b) => {
            let mut rows = Vec::new();
            for r in &b.records {
                let mut row = Vec::new();
                for c in &b.columns {
                    row.push(format!("{:?}", r.get(c)));
                }
                rows.push(row.join(","));
            }
            format!("cols={:?} rows=[{}]", b.columns, rows.join(" | "))
        }
        Err(e) => format!("ERR {}", e),
    }
}

fn fresh(q: &str, store: &GraphStore) -> Result<RecordBatch, Box<dyn std::error::Error>> {
    let ast = parse_query(q)?;
    Ok(QueryExecutor::new(store).execute(&ast)?)
}

fn main() {
    let store = GraphStore::new();
    let pairs = [
        ("RETURN 'a b'", "RETURN 'a  b'"),
        ("RETURN 1 // c\n+ 1", "RETURN 1 // c + 1"),
        ("RETURN 1 + 2", "RETURN\u{a0}1 + 2"),
        ("RETURN 1 + 2", "RETURN 1 +  2"),
        ("RETURN 1 + 2 AS x", "RETURN 1 +  2 AS x"),
        ("MATCH (n) RETURN n.a  +  1", "MATCH (n) RETURN n.a + 1"),
        ("RETURN 1 /* a */ + 2", "RETURN 1 /* a  b */ + 2"),
    ];
    for (a, b) in pairs {
        let eng = QueryEngine::new();
        let ra = eng.execute(a, &store);
        let rb = eng.execute(b, &store);
        let fb = fresh(b, &store);
        println!("--- {:?} then {:?}\n  first : {}\n  cached: {}\n  fresh : {}", a, b, show(&ra), show(&rb), show(&fb));
    }
    // C23
    let rt = tokio::runtime::Builder::new_current_thread().enable_all().build().unwrap();
    for q in [
        "MATCH (n)\nSET n.x = 1",
        "MATCH (n) REMOVE n.x",
        "MATCH (n)\tDETACH DELETE n",
        "UNWIND [1] AS x CREATE (:T {v: x})",
        "MATCH (n) WHERE n.name = ' SET ' RETURN n.name",
    ] {
        let store = Arc::new(RwLock::new(GraphStore::new()));
        let h = CommandHandler::new(None);
        let r = rt.block_on(async {
            {
                let mut g = store.write().await;
                let id = g.create_node("P");
                g.get_node_mut(id).unwrap().set_property("x", 5i64);
            }
            let cmd = RespValue::Array(vec![
                RespValue::BulkString(Some(b"GRAPH.QUERY".to_vec())),
                RespValue::BulkString(Some(b"default".to_vec())),
                RespValue::BulkString(Some(q.as_bytes().to_vec())),
            ]);
            h.handle_command(&cmd, &store).await
        });
        println!("RESP {:?} -> {:?}", q, r);
        let mut g = GraphStore::new();
        let id = g.create_node("P");
        g.get_node_mut(id).unwrap().set_property("x", 5i64);
        let e = QueryEngine::new();
        println!("   engine.execute    -> {}", show(&e.execute(q, &g)));
        println!("   engine.execute_mut-> {}", show(&e.execute_mut(q, &mut g, "default")));
    }
    // C24
    use samyama::nlq::NLQPipeline;
    use samyama::persistence::tenant::{LLMProvider, NLQConfig};
    let p = NLQPipeline::new(NLQConfig {
        enabled: true,
        provider: LLMProvider::Mock,
        model: "mock".into(),
        api_key: None,
        api_base_url: None,
        system_prompt: None,
    })
    .unwrap();
    for q in ["MATCH (n) DETACH DELETE n", "UNWIND [1] AS x CREATE (:T)", "CALL db.labels()", "CALL algo.pageRank({}) YIELD node",
              "WITH 1 AS x MATCH (n) RETURN n", "RETURN datetime()", "CALL algo.pageRank({}) YIELD node RETURN node"] {
        println!("is_safe_query({:?}) = {} ; parses = {:?}", q, p.is_safe_query(q), parse_query(q).map(|_| ()).map_err(|e| e.to_string()));
    }
}
