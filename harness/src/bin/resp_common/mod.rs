//! Shared pieces of the C20 / C21 / C22 harness binaries (RESP protocol).
#![allow(dead_code)]
use bytes::BytesMut;
use samyama::protocol::resp::{RespError, RespValue};
use vh::*;

pub const MAX_DEPTH: usize = 32;
pub const MAX_BULK: usize = 512 * 1024 * 1024;

// ---------------------------------------------------------------- observations
#[derive(Clone, Debug, PartialEq)]
pub enum Obs {
    Done(RespValue, Vec<u8>),
    /// false: Ok(None), true: Err(Incomplete); buffer afterwards
    More(bool, Vec<u8>),
    /// error class ("EProto" / "EEnc"); buffer afterwards
    Fail(&'static str, Vec<u8>),
    Panic(String),
}

/// One `RespValue::decode` call on a fresh `BytesMut` holding `input`.
pub fn decode_obs(input: &[u8]) -> Obs {
    let inp = input.to_vec();
    match catch(move || {
        let mut buf = BytesMut::from(&inp[..]);
        let r = RespValue::decode(&mut buf);
        (r, buf.to_vec())
    }) {
        Err(msg) => Obs::Panic(msg),
        Ok((r, rest)) => classify(r, rest),
    }
}

pub fn classify(r: Result<Option<RespValue>, RespError>, rest: Vec<u8>) -> Obs {
    match r {
        Ok(Some(v)) => Obs::Done(v, rest),
        Ok(None) => Obs::More(false, rest),
        Err(RespError::Incomplete) => Obs::More(true, rest),
        Err(RespError::Protocol(_)) => Obs::Fail("EProto", rest),
        Err(RespError::InvalidEncoding(_)) => Obs::Fail("EEnc", rest),
        Err(RespError::Io(_)) => Obs::Fail("EIo", rest),
    }
}

// ---------------------------------------------------------------- Gallina printers
/// byte string in the compact spelling understood by `Resp.bn` / `Resp.bl`
pub fn gb(b: &[u8]) -> String {
    fn one(c: &[u8]) -> String {
        let mut s = String::with_capacity(4 + 2 * c.len());
        s.push_str("0x1");
        for x in c.iter().rev() {
            s.push_str(&format!("{:02x}", x));
        }
        s
    }
    if b.len() <= 32 {
        format!("(bn {})", one(b))
    } else {
        format!("(bl [{}])", b.chunks(32).map(one).collect::<Vec<_>>().join("; "))
    }
}
pub fn g_rv(v: &RespValue) -> String {
    match v {
        RespValue::SimpleString(s) => format!("SStr {}", gb(s.as_bytes())),
        RespValue::Error(s) => format!("RErr {}", gb(s.as_bytes())),
        RespValue::Integer(i) => format!("RInt {}", g_z(*i as i128)),
        RespValue::BulkString(None) => "Bulk None".to_string(),
        RespValue::BulkString(Some(d)) => format!("Bulk (Some {})", gb(d)),
        RespValue::Array(items) => format!("Arr {}", g_list(items.iter().map(|x| format!("({})", g_rv(x))))),
        RespValue::Null => "RNull".to_string(),
    }
}

pub fn g_obs(o: &Obs) -> String {
    match o {
        Obs::Done(v, r) => format!("(Done ({}) {})", g_rv(v), gb(r)),
        Obs::More(k, r) => format!("(More {} {})", g_bool(*k), gb(r)),
        Obs::Fail(c, r) => format!("(Fail {} {})", c, gb(r)),
        Obs::Panic(_) => "Panic".to_string(),
    }
}

pub fn show(b: &[u8]) -> String {
    let mut s = String::new();
    for &x in b {
        match x {
            b'\r' => s.push_str("\\r"),
            b'\n' => s.push_str("\\n"),
            b'\\' => s.push_str("\\\\"),
            0x20..=0x7e => s.push(x as char),
            _ => s.push_str(&format!("\\x{:02x}", x)),
        }
    }
    s
}

pub fn show_obs(o: &Obs) -> String {
    match o {
        Obs::Done(v, r) => format!("Done({:?}) rest=\"{}\"", v, show(r)),
        Obs::More(k, r) => format!("More({}) buf=\"{}\"", if *k { "Err(Incomplete)" } else { "Ok(None)" }, show(r)),
        Obs::Fail(c, r) => format!("Fail({}) buf=\"{}\"", c, show(r)),
        Obs::Panic(m) => format!("PANIC: {}", m),
    }
}

// ---------------------------------------------------------------- reference (independent of resp.rs)
pub fn depth(v: &RespValue) -> usize {
    match v {
        RespValue::Array(items) => 1 + items.iter().map(depth).max().unwrap_or(0),
        _ => 0,
    }
}

/// the value a reader gets back: CR / LF in line-type payloads are spaces
pub fn sanitize(v: &RespValue) -> RespValue {
    let san = |s: &String| s.chars().map(|c| if c == '\r' || c == '\n' { ' ' } else { c }).collect::<String>();
    match v {
        RespValue::SimpleString(s) => RespValue::SimpleString(san(s)),
        RespValue::Error(s) => RespValue::Error(san(s)),
        RespValue::Array(items) => RespValue::Array(items.iter().map(sanitize).collect()),
        other => other.clone(),
    }
}

pub fn is_clean(v: &RespValue) -> bool {
    match v {
        RespValue::SimpleString(s) | RespValue::Error(s) => !s.contains('\r') && !s.contains('\n'),
        RespValue::Array(items) => items.iter().all(is_clean),
        _ => true,
    }
}

/// A small strict RESP reader written for the harness (no inline commands, no limits):
/// reads one frame at `pos`; None if the bytes there are not a complete well-formed frame.
pub fn ref_read(b: &[u8], pos: usize) -> Option<(RespValue, usize)> {
    let t = *b.get(pos)?;
    let mut e = pos + 1;
    loop {
        if e + 1 >= b.len() {
            return None;
        }
        if b[e] == b'\r' && b[e + 1] == b'\n' {
            break;
        }
        if b[e] == b'\r' || b[e] == b'\n' {
            // a bare CR or LF inside a header line: not a well-formed line for strict readers
            return None;
        }
        e += 1;
    }
    let line = &b[pos + 1..e];
    let next = e + 2;
    let num = |l: &[u8]| -> Option<i128> {
        let s = std::str::from_utf8(l).ok()?;
        let (neg, d) = match s.strip_prefix('-') {
            Some(r) => (true, r),
            None => (false, s),
        };
        if d.is_empty() || d.len() > 30 || !d.bytes().all(|c| c.is_ascii_digit()) {
            return None;
        }
        let v: i128 = d.parse().ok()?;
        Some(if neg { -v } else { v })
    };
    match t {
        b'+' => Some((RespValue::SimpleString(String::from_utf8(line.to_vec()).ok()?), next)),
        b'-' => Some((RespValue::Error(String::from_utf8(line.to_vec()).ok()?), next)),
        b':' => {
            let v = num(line)?;
            if v < i64::MIN as i128 || v > i64::MAX as i128 {
                return None;
            }
            Some((RespValue::Integer(v as i64), next))
        }
        b'_' => {
            if line.is_empty() {
                Some((RespValue::Null, next))
            } else {
                None
            }
        }
        b'$' => {
            let n = num(line)?;
            if n == -1 {
                return Some((RespValue::BulkString(None), next));
            }
            if n < 0 {
                return None;
            }
            let n = n as usize;
            if b.len() < next + n + 2 || &b[next + n..next + n + 2] != b"\r\n" {
                return None;
            }
            Some((RespValue::BulkString(Some(b[next..next + n].to_vec())), next + n + 2))
        }
        b'*' => {
            let n = num(line)?;
            if n < 0 {
                return None;
            }
            let mut items = Vec::new();
            let mut p = next;
            for _ in 0..n {
                let (v, q) = ref_read(b, p)?;
                items.push(v);
                p = q;
            }
            Some((RespValue::Array(items), p))
        }
        _ => None,
    }
}

/// reference encoder (RESP as specified; CR/LF of line payloads as spaces)
pub fn ref_encode(v: &RespValue, out: &mut Vec<u8>) {
    match sanitize(v) {
        RespValue::SimpleString(s) => {
            out.push(b'+');
            out.extend_from_slice(s.as_bytes());
            out.extend_from_slice(b"\r\n");
        }
        RespValue::Error(s) => {
            out.push(b'-');
            out.extend_from_slice(s.as_bytes());
            out.extend_from_slice(b"\r\n");
        }
        RespValue::Integer(i) => out.extend_from_slice(format!(":{}\r\n", i).as_bytes()),
        RespValue::BulkString(None) => out.extend_from_slice(b"$-1\r\n"),
        RespValue::BulkString(Some(d)) => {
            out.extend_from_slice(format!("${}\r\n", d.len()).as_bytes());
            out.extend_from_slice(&d);
            out.extend_from_slice(b"\r\n");
        }
        RespValue::Array(items) => {
            out.extend_from_slice(format!("*{}\r\n", items.len()).as_bytes());
            for i in &items {
                ref_encode(i, out);
            }
        }
        RespValue::Null => out.extend_from_slice(b"_\r\n"),
    }
}

pub fn impl_encode(v: &RespValue) -> Vec<u8> {
    let mut out = Vec::new();
    v.encode(&mut out).expect("encode to Vec cannot fail");
    out
}

// ---------------------------------------------------------------- generators
pub const ALPHABET: [u8; 14] = [b'+', b'-', b':', b'$', b'*', b'_', b'0', b'1', b'9', b'\r', b'\n', b'a', b'"', b' '];

pub fn rand_text(r: &mut Rng, max: u64, dirty: bool) -> String {
    let n = r.range(0, max);
    let mut s = String::new();
    for _ in 0..n {
        let c = match r.below(if dirty { 12 } else { 9 }) {
            0 => 'a',
            1 => 'Z',
            2 => ' ',
            3 => '0',
            4 => '"',
            5 => '\u{e9}',   // 2-byte
            6 => '\u{20ac}', // 3-byte
            7 => '\u{1f600}', // 4-byte
            8 => '\t',
            9 => '\r',
            10 => '\n',
            _ => {
                s.push('\r');
                '\n'
            }
        };
        s.push(c);
    }
    s
}

pub fn rand_blob(r: &mut Rng, max: u64) -> Vec<u8> {
    let n = r.range(0, max);
    (0..n)
        .map(|_| match r.below(6) {
            0 => b'\r',
            1 => b'\n',
            2 => 0,
            3 => 0xff,
            _ => r.below(256) as u8,
        })
        .collect()
}

/// random value; `dirty` allows CR/LF inside line-type payloads
pub fn rand_value(r: &mut Rng, depth_left: u32, dirty: bool) -> RespValue {
    let k = if depth_left == 0 { r.below(6) } else { r.below(9) };
    match k {
        0 => RespValue::SimpleString(rand_text(r, 8, dirty)),
        1 => RespValue::Error(rand_text(r, 10, dirty)),
        2 => RespValue::Integer(match r.below(6) {
            0 => 0,
            1 => i64::MAX,
            2 => i64::MIN,
            3 => -(r.below(1000) as i64),
            _ => r.next() as i64,
        }),
        3 => RespValue::BulkString(None),
        4 => RespValue::BulkString(Some(rand_blob(r, 12))),
        5 => RespValue::Null,
        _ => {
            let n = r.range(0, 4);
            RespValue::Array((0..n).map(|_| rand_value(r, depth_left - 1, dirty)).collect())
        }
    }
}

/// a command-shaped frame: array of bulk strings
pub fn rand_command(r: &mut Rng) -> RespValue {
    let n = r.range(1, 4);
    RespValue::Array(
        (0..n)
            .map(|i| {
                if i == 0 {
                    RespValue::BulkString(Some(r.pick(&[&b"PING"[..], b"ECHO", b"GRAPH.QUERY", b"x"]).to_vec()))
                } else {
                    RespValue::BulkString(Some(rand_blob(r, 9)))
                }
            })
            .collect(),
    )
}

/// a well-formed inline command line (no CRLF inside, first byte not a type byte, valid
/// UTF-8, balanced quotes, at least one token); returned without the trailing CRLF
pub fn rand_inline(r: &mut Rng) -> Vec<u8> {
    loop {
        let mut s = String::new();
        let n = r.range(1, 4);
        for i in 0..n {
            if i > 0 {
                s.push(if r.chance(1, 5) { '\t' } else { ' ' });
                if r.chance(1, 5) {
                    s.push(' ');
                }
            }
            if r.chance(1, 3) {
                s.push('"');
                for _ in 0..r.range(0, 5) {
                    match r.below(8) {
                        0 => s.push_str("\\n"),
                        1 => s.push_str("\\\""),
                        2 => s.push_str("\\z"),
                        3 => s.push(' '),
                        4 => s.push('\u{e9}'),
                        5 => s.push_str("\\\\"),
                        _ => s.push('q'),
                    }
                }
                s.push('"');
            } else {
                for _ in 0..r.range(1, 5) {
                    s.push(*r.pick(&['P', 'I', 'N', 'G', 'x', '.', '\\', '\u{20ac}', '\r']));
                }
            }
        }
        let b = s.into_bytes();
        let first = b[0];
        if matches!(first, b'+' | b'-' | b':' | b'$' | b'*' | b'_') {
            continue;
        }
        if b.windows(2).any(|w| w == b"\r\n") || b.last() == Some(&b'\r') && r.chance(1, 2) {
            continue;
        }
        // must tokenize to something: check with the implementation on the complete line
        let mut line = b.clone();
        line.extend_from_slice(b"\r\n");
        if let Obs::Done(_, rest) = decode_obs(&line) {
            if rest.is_empty() {
                return b;
            }
        }
    }
}

pub fn mutate(r: &mut Rng, base: &[u8]) -> Vec<u8> {
    let mut b = base.to_vec();
    let n = r.range(1, 3);
    for _ in 0..n {
        let pos = if b.is_empty() { 0 } else { r.below(b.len() as u64 + 1) as usize };
        match r.below(9) {
            0 if !b.is_empty() => {
                let p = pos.min(b.len() - 1);
                b.remove(p);
            }
            1 => b.insert(pos, *r.pick(&ALPHABET)),
            2 if !b.is_empty() => {
                let p = pos.min(b.len() - 1);
                b[p] = *r.pick(&ALPHABET);
            }
            3 => b.truncate(pos),
            4 if !b.is_empty() => {
                let p = pos.min(b.len() - 1);
                b[p] = r.below(256) as u8;
            }
            5 => {
                // replace a number after $ or * by a nasty one
                if let Some(i) = b.iter().position(|&c| c == b'$' || c == b'*') {
                    let j = b[i..].iter().position(|&c| c == b'\r').map(|k| i + k).unwrap_or(b.len());
                    let nasty: &[&[u8]] = &[
                        b"-2", b"-1", b"-0", b"+3", b"18446744073709551615", b"18446744073709551616",
                        b"9223372036854775807", b"9223372036854775808", b"-9223372036854775808", b"536870912",
                        b"536870913", b"99999999999999999999999", b"", b"1e3", b" 1", b"0x10", b"00000002", b"100000000",
                    ];
                    let rep = r.pick(nasty).to_vec();
                    b.splice(i + 1..j, rep);
                }
            }
            6 => {
                let ins: &[&[u8]] = &[b"\r\n", b"\r", b"\n", b"*1\r\n", b"$0\r\n\r\n", b"\xff", b"\xc3", b"\xed\xa0\x80", b"\xf4\x90\x80\x80", b"\xc0\x80"];
                let rep = r.pick(ins).to_vec();
                b.splice(pos..pos, rep);
            }
            7 => {
                let k = r.range(1, 4) as usize;
                let chunk: Vec<u8> = b.iter().skip(pos.saturating_sub(k)).take(k).cloned().collect();
                b.splice(pos..pos, chunk);
            }
            _ => b.push(*r.pick(&ALPHABET)),
        }
    }
    b
}

// ---------------------------------------------------------------- the server's decode loop
#[derive(Clone, Debug, PartialEq)]
pub enum Event {
    Frame(RespValue),
    ProtoErr(&'static str),
    Crashed,
}

pub fn g_event(e: &Event) -> String {
    match e {
        Event::Frame(v) => format!("Frame ({})", g_rv(v)),
        Event::ProtoErr(c) => format!("ProtoErr {}", c),
        Event::Crashed => "Crashed".to_string(),
    }
}

/// Replica of the loop in `handle_connection` (src/protocol/server.rs): append the read to
/// the connection buffer, decode until the decoder asks for more or reports an error.
pub struct Conn {
    pub buffer: BytesMut,
}

impl Conn {
    pub fn new() -> Self {
        Conn { buffer: BytesMut::with_capacity(4096) }
    }
    pub fn feed(&mut self, chunk: &[u8]) -> Vec<Event> {
        self.buffer.extend_from_slice(chunk);
        let mut evs = Vec::new();
        loop {
            let mut buf = std::mem::take(&mut self.buffer);
            let res = catch(move || {
                let r = RespValue::decode(&mut buf);
                (r, buf)
            });
            match res {
                Err(_) => {
                    evs.push(Event::Crashed);
                    break;
                }
                Ok((r, buf)) => {
                    self.buffer = buf;
                    match r {
                        Ok(Some(v)) => evs.push(Event::Frame(v)),
                        Ok(None) => break,
                        Err(RespError::Incomplete) => break,
                        Err(RespError::InvalidEncoding(_)) => {
                            evs.push(Event::ProtoErr("EEnc"));
                            break;
                        }
                        Err(_) => {
                            evs.push(Event::ProtoErr("EProto"));
                            break;
                        }
                    }
                }
            }
        }
        evs
    }
}

/// cut `stream` at the given positions (sorted, may repeat => empty chunks)
pub fn cut(stream: &[u8], cuts: &[usize]) -> Vec<Vec<u8>> {
    let mut out = Vec::new();
    let mut prev = 0;
    for &c in cuts {
        out.push(stream[prev..c].to_vec());
        prev = c;
    }
    out.push(stream[prev..].to_vec());
    out
}
