//! C35 — parameterized queries never answer differently from inlined literals.
//!
//! Metamorphic on the engine: a generated query with `$parameters` in every position the
//! generator's grammar puts a literal (WHERE, RETURN, WITH, ORDER BY, list literals, inline
//! pattern properties, UNWIND) is run through `QueryExecutor::with_params`, and the same query
//! with each parameter written as a literal is run through `QueryEngine`. Both Ok with equal
//! rows, or the parameterised one Err; anything else is a violation. The parameterised run's
//! rows are also embedded in a `Cypher.case` (with the parameter environment), so coqc checks
//! them against the reference semantics `eval_query_env`.
#[path = "../cygen.rs"]
mod cygen;
use cygen::*;
use vh::*;

/// Replace every parameter by its value written as a literal.
fn inline_expr(e: &Expr, ps: &[(u32, Val)]) -> Expr {
    let b = |x: &Expr| Box::new(inline_expr(x, ps));
    match e {
        Expr::Param(p) => match ps.iter().find(|(k, _)| k == p) {
            Some((_, v)) => Expr::Lit(v.clone()),
            None => e.clone(),
        },
        Expr::Lit(_) | Expr::Var(_) | Expr::Prop(..) => e.clone(),
        Expr::Cmp(o, a, c) => Expr::Cmp(*o, b(a), b(c)),
        Expr::And(a, c) => Expr::And(b(a), b(c)),
        Expr::Or(a, c) => Expr::Or(b(a), b(c)),
        Expr::Xor(a, c) => Expr::Xor(b(a), b(c)),
        Expr::Not(a) => Expr::Not(b(a)),
        Expr::IsNull(a) => Expr::IsNull(b(a)),
        Expr::IsNotNull(a) => Expr::IsNotNull(b(a)),
        Expr::Arith(o, a, c) => Expr::Arith(*o, b(a), b(c)),
        Expr::Neg(a) => Expr::Neg(b(a)),
        Expr::In(a, c) => Expr::In(b(a), b(c)),
        Expr::List(l) => Expr::List(l.iter().map(|x| inline_expr(x, ps)).collect()),
        Expr::Fn(f, args) => Expr::Fn(*f, args.iter().map(|x| inline_expr(x, ps)).collect()),
    }
}

fn inline_proj(p: &Proj, ps: &[(u32, Val)]) -> Proj {
    Proj {
        distinct: p.distinct,
        items: p
            .items
            .iter()
            .map(|(it, a)| {
                (
                    match it {
                        Item::Expr(e) => Item::Expr(inline_expr(e, ps)),
                        Item::Agg(op, d, arg) => Item::Agg(*op, *d, arg.as_ref().map(|e| inline_expr(e, ps))),
                    },
                    *a,
                )
            })
            .collect(),
        order: p.order.iter().map(|(e, asc)| (inline_expr(e, ps), *asc)).collect(),
        skip: p.skip,
        limit: p.limit,
    }
}

fn inline_query(q: &Query, ps: &[(u32, Val)]) -> Query {
    let props = |l: &Vec<(u32, Expr)>| l.iter().map(|(k, e)| (*k, inline_expr(e, ps))).collect::<Vec<_>>();
    let np = |n: &NPat| NPat { var: n.var, labels: n.labels.clone(), props: props(&n.props) };
    Query {
        all: q.all,
        parts: q
            .parts
            .iter()
            .map(|s| SQuery {
                ret: inline_proj(&s.ret, ps),
                clauses: s
                    .clauses
                    .iter()
                    .map(|c| match c {
                        Clause::Match { opt, pats, wher } => Clause::Match {
                            opt: *opt,
                            wher: wher.as_ref().map(|e| inline_expr(e, ps)),
                            pats: pats
                                .iter()
                                .map(|p| Path {
                                    start: np(&p.start),
                                    segs: p
                                        .segs
                                        .iter()
                                        .map(|(r, n)| {
                                            (
                                                RPat {
                                                    var: r.var,
                                                    types: r.types.clone(),
                                                    dir: r.dir,
                                                    props: props(&r.props),
                                                    len: r.len,
                                                },
                                                np(n),
                                            )
                                        })
                                        .collect(),
                                })
                                .collect(),
                        },
                        Clause::Unwind(e, x) => Clause::Unwind(inline_expr(e, ps), *x),
                        Clause::With(p, w) => Clause::With(inline_proj(p, ps), w.as_ref().map(|e| inline_expr(e, ps))),
                    })
                    .collect(),
            })
            .collect(),
    }
}

/// Does the literal spelling of `v` parse back to `v`?
fn literal_round_trips(store: &samyama::graph::GraphStore, v: &Val) -> bool {
    match run_engine(store, &format!("RETURN {} AS x", lit_text(v)), &[]) {
        Obs::Ok(rows) => rows.len() == 1 && rows[0].len() == 1 && rows[0][0] == *v,
        _ => false,
    }
}

fn g_params(ps: &[(u32, Val)]) -> String {
    g_list(ps.iter().map(|(k, v)| format!("({}, {})", k, g_val(v))))
}

// ---------------------------------------------------------------- write statements
fn dump(store: &samyama::graph::GraphStore) -> Vec<String> {
    let mut out = Vec::new();
    let mut seen = std::collections::BTreeSet::new();
    for n in store.all_nodes() {
        if !seen.insert(n.id.as_u64()) {
            continue;
        }
        let mut labels: Vec<String> = n.labels.iter().map(|l| l.as_str().to_string()).collect();
        labels.sort();
        let mut props: Vec<String> =
            store.node_properties_full(n.id).iter().map(|(k, v)| format!("{}={:?}", k, from_pv(v))).collect();
        props.sort();
        out.push(format!("N{} {:?} {:?}", n.id.as_u64(), labels, props));
        for e in store.get_outgoing_edges(n.id) {
            let mut props: Vec<String> = e.properties.iter().map(|(k, v)| format!("{}={:?}", k, from_pv(v))).collect();
            props.sort();
            out.push(format!(
                "R{} {}->{} {} {:?}",
                e.id.as_u64(),
                e.source.as_u64(),
                e.target.as_u64(),
                e.edge_type.as_str(),
                props
            ));
        }
    }
    out.sort();
    out
}

/// Run a statement on `store` (with parameters through `MutQueryExecutor::with_params`, without
/// through `QueryEngine::execute_mut`).
fn run_write(store: &mut samyama::graph::GraphStore, text: &str, params: &[(u32, Val)]) -> Obs {
    use samyama::query::{parse_query, MutQueryExecutor, QueryEngine};
    let r = catch(std::panic::AssertUnwindSafe(|| {
        let b = if params.is_empty() {
            QueryEngine::new().execute_mut(text, store, "default").map_err(|e| e.to_string())?
        } else {
            let q = parse_query(text).map_err(|e| e.to_string())?;
            let mut m = std::collections::HashMap::new();
            for (k, v) in params {
                m.insert(format!("q{}", k), to_pv(v));
            }
            MutQueryExecutor::new(store, "default".to_string()).with_params(m).execute(&q).map_err(|e| e.to_string())?
        };
        Ok::<_, String>(
            b.records
                .iter()
                .map(|rec| {
                    b.columns
                        .iter()
                        .map(|c| rec.get(c).map(from_value).unwrap_or(Val::Other("missing column".into())))
                        .collect::<Vec<Val>>()
                })
                .collect::<Vec<_>>(),
        )
    }));
    match r {
        Err(p) => Obs::Panic(p),
        Ok(Err(e)) => Obs::Err(e),
        Ok(Ok(rows)) => Obs::Ok(rows),
    }
}

fn gen_param_val(r: &mut Rng, kind: u32) -> Val {
    match kind {
        0 => Val::Int(gen_int(r)),
        1 => Val::Str(r.pick(&STR_POOL).to_string()),
        2 => Val::Bool(r.chance(1, 2)),
        3 => Val::List((0..r.below(4)).map(|_| Val::Int(r.range(0, 4) as i64)).collect()),
        _ => Val::Null,
    }
}

/// A write statement with `$q<i>` parameters as property values (CREATE / MERGE maps, SET right-hand
/// sides, SET +=, UNWIND source, WHERE of the reading part) and as SKIP / LIMIT counts.
fn gen_write(r: &mut Rng) -> (String, Vec<(u32, Val)>, &'static str) {
    let l = label_name(r.below(4) as u32);
    let l2 = label_name(r.below(4) as u32);
    let t = type_name(r.below(3) as u32);
    let mut ps: Vec<(u32, Val)> = Vec::new();
    let mut p = |r: &mut Rng, kind: u32| -> String {
        let k = if r.chance(1, 10) { 4 } else if r.chance(1, 8) { r.below(4) as u32 } else { kind };
        let i = ps.len() as u32;
        ps.push((i, gen_param_val(r, k)));
        format!("$q{}", i)
    };
    let (text, tag): (String, &'static str) = match r.below(17) {
        14 => (format!("MATCH (n:{}) CREATE (m:{}) SET m.p0 = {} RETURN m.p0 AS x", l, l2, p(r, 0)), "pipeline_set"),
        15 => (format!("MERGE (n:{} {{p0: 1}}) SET n.p1 = {} RETURN n.p1 AS x", l, p(r, 1)), "pipeline_set"),
        16 => (format!("CREATE (n:{} {{p0: {}}}) WITH n SET n.p1 = {} RETURN n.p0 AS x, n.p1 AS y", l, p(r, 0), p(r, 1)), "pipeline_set"),
        0 => (format!("CREATE (a:{} {{p0: {}, p1: {}}}) RETURN a.p0 AS x, a.p1 AS y", l, p(r, 0), p(r, 1)), "create_node"),
        1 => (
            format!("CREATE (a:{} {{p0: {}}})-[r:{} {{p0: {}}}]->(b {{p1: {}}}) RETURN r.p0 AS x", l, p(r, 0), t, p(r, 0), p(r, 1)),
            "create_path",
        ),
        2 => (format!("MATCH (n:{}) SET n.p0 = {} RETURN n.p0 AS x", l, p(r, 0)), "set_prop"),
        3 => (
            format!("MATCH (n) WHERE n.p0 = {} SET n.p1 = {}, n.p2 = ({} + 1)", p(r, 0), p(r, 1), p(r, 0)),
            "set_prop",
        ),
        4 => (format!("MATCH (n:{}) SET n += {{p0: {}, p2: {}}}", l, p(r, 0), p(r, 2)), "set_map"),
        5 => (
            format!(
                "MERGE (n:{} {{p0: {}}}) ON CREATE SET n.p1 = {} ON MATCH SET n.p2 = {} RETURN n.p0 AS x",
                l,
                p(r, 0),
                p(r, 1),
                p(r, 2)
            ),
            "merge",
        ),
        6 => {
            let i = ps.len() as u32;
            ps.push((i, gen_param_val(r, 3)));
            let mut p2 = |r: &mut Rng, kind: u32| -> String {
                let i = ps.len() as u32;
                ps.push((i, gen_param_val(r, kind)));
                format!("$q{}", i)
            };
            (format!("UNWIND $q{} AS x CREATE (:{} {{p0: x, p1: {}}})", i, l, p2(r, 1)), "unwind_create")
        }
        7 => (
            format!("MATCH (a:{}), (b:{}) WHERE a.p0 = {} CREATE (a)-[:{} {{p0: {}}}]->(b)", l, l2, p(r, 0), t, p(r, 0)),
            "match_create_rel",
        ),
        8 => {
            let i = ps.len() as u32;
            ps.push((i, gen_param_val(r, 3)));
            (format!("MATCH (n) WHERE n.p0 IN $q{} DETACH DELETE n", i), "where_delete")
        }
        9 => (format!("MATCH ()-[r:{}]->() SET r.p0 = {}", t, p(r, 0)), "set_rel_prop"),
        10 => (format!("MERGE (a:{} {{p0: {}}})-[:{}]->(b:{} {{p0: {}}})", l, p(r, 0), t, l2, p(r, 0)), "merge_path"),
        11 => (format!("CREATE (n:{}) SET n.p0 = {} RETURN n.p0 AS x", l, p(r, 0)), "create_set"),
        12 => {
            let i = ps.len() as u32;
            ps.push((i, Val::Int(r.range(0, 3) as i64)));
            (format!("MATCH (n) RETURN id(n) AS x ORDER BY x SKIP $q{}", i), "skip_param")
        }
        _ => {
            let i = ps.len() as u32;
            ps.push((i, Val::Int(r.range(0, 3) as i64)));
            (format!("MATCH (n:{}) SET n.p2 = true RETURN id(n) AS x ORDER BY x LIMIT $q{}", l, i), "limit_param")
        }
    };
    (text, ps, tag)
}

fn inline_text(text: &str, ps: &[(u32, Val)]) -> String {
    let mut s = text.to_string();
    for (k, v) in ps.iter().rev() {
        s = s.replace(&format!("$q{}", k), &lit_text(v));
    }
    s
}

/// The write stream: each statement is run with parameters and with the values inlined, each on
/// its own copy of the graph; rows and the resulting graphs must agree, or the parameterised run
/// must fail.
fn write_case(out: &mut Out, r: &mut Rng, g: &Graph) {
    let (text, ps, tag) = gen_write(r);
    let (mut s1, _) = build_store(g);
    if ps.iter().any(|(_, v)| !literal_round_trips(&s1, v)) {
        out.count("excluded_no_literal_spelling");
        return;
    }
    let idx = out.next_index();
    if !out.wants(idx) {
        out.skip();
        return;
    }
    let (mut s2, _) = build_store(g);
    let text_i = inline_text(&text, &ps);
    let obs_p = run_write(&mut s1, &text, &ps);
    let obs_i = run_write(&mut s2, &text_i, &[]);
    let (d1, d2) = (dump(&s1), dump(&s2));
    out.count("write_stmt");
    out.count(&format!("write_{}", tag));
    let verdict: Option<String> = match (&obs_p, &obs_i) {
        (Obs::Panic(p), _) => Some(format!("the parameterised statement panicked: {}", p)),
        (_, Obs::Panic(p)) => Some(format!("the inlined statement panicked: {}", p)),
        (Obs::Err(_), _) => {
            out.count("write_param_err");
            None
        }
        (Obs::Ok(a), Obs::Ok(b)) => {
            out.count("write_both_ok");
            if d1 != dump(&build_store(g).0) {
                out.count("write_both_ok_changed_graph");
            }
            let mut x: Vec<String> = a.iter().map(|r| format!("{:?}", r)).collect();
            let mut y: Vec<String> = b.iter().map(|r| format!("{:?}", r)).collect();
            x.sort();
            y.sort();
            if x != y {
                Some(format!("different rows: with parameters {} / inlined {}", human_obs(&obs_p), human_obs(&obs_i)))
            } else if d1 != d2 {
                let only1: Vec<&String> = d1.iter().filter(|l| !d2.contains(l)).collect();
                let only2: Vec<&String> = d2.iter().filter(|l| !d1.contains(l)).collect();
                Some(format!("different effect on the graph: only with parameters {:?} / only inlined {:?}", only1, only2))
            } else {
                None
            }
        }
        (Obs::Ok(_), Obs::Err(e)) => Some(format!(
            "the parameterised statement answered {} but the inlined statement failed: {}",
            human_obs(&obs_p),
            e
        )),
    };
    let human = format!(
        "[write] graph={} statement={} params={} inlined={} obs={}",
        human_graph(g),
        text,
        ps.iter().map(|(k, v)| format!("$q{}={}", k, lit_text(v))).collect::<Vec<_>>().join(","),
        text_i,
        human_obs(&obs_p)
    )
    .replace('\n', " ");
    // the write side is judged on the implementation only (the model case is a placeholder that
    // keeps case indices and replay working)
    let gal = format!("(Case {} [] (Q [] true) false ObsErr)", g_graph(g));
    let i = out.case(gal, human.clone(), !matches!(obs_p, Obs::Err(_)));
    if let Some(d) = verdict {
        // known finding: in a statement run by the clause pipeline (a CREATE / MERGE before the
        // SET) parameters in SET right-hand sides are not substituted; the SET then stores null
        let known = if tag == "create_set" { Some("set_param_in_clause_pipeline") } else { None };
        out.fail(i, &human, &d, known);
    }
}

fn main() {
    quiet_panics();
    if let Ok(path) = std::env::var("C35_PROBE") {
        // debugging aid: each line is a query using $q0 (bound to true) and $q1 (bound to 1)
        let (store, _) = build_store(&fixed_graph());
        for q in std::fs::read_to_string(path).unwrap().lines() {
            if q.trim().is_empty() {
                continue;
            }
            let ps = vec![(0u32, Val::Bool(true)), (1u32, Val::Int(1))];
            println!("Q: {}\n   params : {}\n   inlined: {}", q, human_obs(&run_engine(&store, q, &ps)), human_obs(&run_engine(&store, &inline_text(q, &ps), &[])));
        }
        return;
    }
    let args = parse_args();
    let mut out = Out::new(&args, "From Verif Require Import CypherCore Cypher.", "Cypher.case", "Cypher.check_case", 125);
    out.rule = "random property graphs (<=6 nodes, <=10 relationships) x generated queries of the C01 fragment in which \
                about half of the literals (in WHERE, RETURN, WITH, ORDER BY, list literals, inline pattern \
                properties, UNWIND) are parameters; values: null, booleans, integers incl. i64 boundaries, \
                strings, lists of these, kept only when the literal spelling parses back to the same value. \
                Each case runs the parameterised query and its inlined twin on the engine. Non-trivial = at least \
                one parameter and a non-empty or failing parameterised answer; distinct by (graph, query, params)."
        .to_string();
    let n = if args.thorough { 10000 } else { 1600 };
    let mut graph_cache: Option<(u64, samyama::graph::GraphStore, Graph)> = None;
    for c in 0..n {
        let gi = c / 4;
        if graph_cache.as_ref().map(|x| x.0) != Some(gi) {
            let mut gr = Rng::for_case(args.seed ^ 0x3535, gi);
            let g0 = gen_graph(&mut gr);
            let (store, g) = build_store(&g0);
            graph_cache = Some((gi, store, g));
        }
        let (_, store, g) = graph_cache.as_ref().unwrap();
        if c % 3 == 2 {
            let mut wr = Rng::for_case(args.seed.wrapping_add(0xC350), c);
            let gclone = g.clone();
            write_case(&mut out, &mut wr, &gclone);
        }
        let mut r = Rng::for_case(args.seed.wrapping_add(0xC35), c);
        let mut cx = Gen::new(&mut r, g, true);
        let q = cx.gen_query();
        let params = cx.params.clone();
        let feats = cx.features.clone();
        if cost_estimate(g, &q) > 3000.0 {
            out.count("skipped_cost");
            continue;
        }
        // values without a faithful literal spelling are excluded (counted)
        if let Some((_, bad)) = params.iter().find(|(_, v)| !literal_round_trips(store, v)) {
            out.count("excluded_no_literal_spelling");
            if out.notes.len() < 5 {
                out.notes.push(format!("no literal spelling parses back to {:?}", bad));
            }
            continue;
        }
        // a query with a SKIP or LIMIT takes two case indices (itself and its inlined twin)
        let has_window = |p: &Proj| p.skip.is_some() || p.limit.is_some();
        let windowed = q.parts.iter().any(|s| {
            has_window(&s.ret) || s.clauses.iter().any(|c| matches!(c, Clause::With(p, _) if has_window(p)))
        });
        let idx = out.next_index();
        if !out.wants(idx) && !(windowed && out.wants(idx + 1)) {
            out.skip();
            if windowed {
                out.skip();
            }
            continue;
        }
        let text_p = render_query(&q);
        let qi = inline_query(&q, &params);
        let text_i = render_query(&qi);
        let obs_p = run_engine(store, &text_p, &params);
        let obs_i = run_engine(store, &text_i, &[]);
        for f in &feats {
            out.count(f);
        }
        if !params.is_empty() {
            out.count("with_params");
        }
        out.count_n("params", params.len() as u64);
        let verdict: Option<String> = match (&obs_p, &obs_i) {
            (Obs::Panic(p), _) => Some(format!("the parameterised query panicked: {}", p)),
            (_, Obs::Panic(p)) => Some(format!("the inlined query panicked: {}", p)),
            (Obs::Err(_), _) => {
                out.count("param_err");
                if matches!(obs_i, Obs::Ok(_)) {
                    out.count("param_refused_inline_ok");
                }
                None
            }
            (Obs::Ok(a), Obs::Ok(b)) => {
                out.count("both_ok");
                if !a.is_empty() {
                    out.count("both_ok_nonempty");
                }
                // The two runs are compared as bags: the order of rows is checked (up to ties)
                // by the model on the parameterised run. With a SKIP or LIMIT somewhere the two
                // runs may legitimately keep different rows (the engine's group order varies
                // between executions), so there both runs are checked against the model instead.
                let mut x: Vec<String> = a.iter().map(|r| format!("{:?}", r)).collect();
                let mut y: Vec<String> = b.iter().map(|r| format!("{:?}", r)).collect();
                x.sort();
                y.sort();
                if windowed {
                    out.count("windowed_checked_by_model");
                    None
                } else if x == y {
                    None
                } else {
                    Some(format!("different answers: with parameters {} / inlined {}", human_obs(&obs_p), human_obs(&obs_i)))
                }
            }
            (Obs::Ok(_), Obs::Err(e)) => Some(format!(
                "the parameterised query answered {} but the inlined query failed: {}",
                human_obs(&obs_p),
                e
            )),
        };
        let human = format!(
            "graph={} query={} params={} inlined={} obs={}",
            human_graph(g),
            text_p,
            params.iter().map(|(k, v)| format!("$q{}={}", k, lit_text(v))).collect::<Vec<_>>().join(","),
            text_i,
            human_obs(&obs_p)
        )
        .replace('\n', " ");
        let gal = format!("(Case {} {} {} false {})", g_graph(g), g_params(&params), g_query(&q), g_obs(&obs_p));
        let nontrivial = !params.is_empty() && !matches!(&obs_p, Obs::Ok(rows) if rows.is_empty());
        let i = out.case(gal, human.clone(), nontrivial);
        if let Some(d) = verdict {
            // known finding: a parameter in the WHERE of a WITH that is followed by another WITH
            // is not substituted; the filter swallows the error and drops every row
            let mentions_param = |e: &Expr| render_expr(e).contains("$q");
            let known = q.parts.iter().any(|s| {
                s.clauses.iter().enumerate().any(|(k, c)| {
                    matches!(c, Clause::With(_, Some(w)) if mentions_param(w))
                        && s.clauses[k + 1..].iter().any(|c2| matches!(c2, Clause::With(..)))
                })
            });
            out.fail(i, &human, &d, if known { Some("param_in_earlier_with_where") } else { None });
        }
        if windowed {
            // the inlined twin, checked against the reference semantics as well
            let gal_i = format!("(Case {} [] {} false {})", g_graph(g), g_query(&qi), g_obs(&obs_i));
            out.case(gal_i, format!("[inlined twin of {}] {}", i, human).replace('\n', " "), false);
        }
    }
    // replay of the stored witness of the known finding
    {
        let (mut st, _) = build_store(&fixed_graph());
        let obs = run_write(&mut st, "CREATE (n:A) SET n.p0 = $q0 RETURN n.p0 AS x", &[(0, Val::Int(2))]);
        let same = matches!(&obs, Obs::Ok(rows) if rows.len() == 1 && rows[0] == vec![Val::Int(2)]);
        out.known.push(KnownReplay {
            class: "set_param_in_clause_pipeline".to_string(),
            still_fails: !same && !matches!(obs, Obs::Err(_)),
            detail: format!(
                "CREATE (n:A) SET n.p0 = $q0 RETURN n.p0 AS x with $q0 = 2: engine {}, inlined Ok[(2)]",
                human_obs(&obs)
            ),
        });
    }
    {
        let (st, _) = build_store(&fixed_graph());
        let q = "MATCH (n) WITH n AS m WHERE $q0 WITH m AS k RETURN id(k) AS x";
        let obs = run_engine(&st, q, &[(0, Val::Bool(true))]);
        let same = matches!(&obs, Obs::Ok(rows) if rows.len() == 4);
        out.known.push(KnownReplay {
            class: "param_in_earlier_with_where".to_string(),
            still_fails: !same && !matches!(obs, Obs::Err(_)),
            detail: format!("{} with $q0 = true: engine {}, inlined Ok[(1) (2) (3) (4)]", q, human_obs(&obs)),
        });
    }
    out.finish();
}
