//! C35 — parameterized queries never answer differently from inlined literals.
//!
//! Metamorphic on the engine: a generated query with `$parameters` in every position the
//! generator's grammar puts a literal (WHERE, RETURN, WITH, ORDER BY, list literals, inline
//! pattern properties, UNWIND) is run through `QueryExecutor::with_params`, and the same query
//! with each parameter written as a literal is run through `QueryEngine`. Both Ok with equal
//! rows, or the parameterised one Err; anything else is a violation. The parameterised run's
//! rows are also embedded in a `Cypher.case` (with the parameter environment), so coqc checks
//! them against the reference semantics `eval_query_env`.
#[path = "../cygen.rs"]
mod cygen;
use cygen::*;
use vh::*;

/// Replace every parameter by its value written as a literal.
fn inline_expr(e: &Expr, ps: &[(u32, Val)]) -> Expr {
    let b = |x: &Expr| Box::new(inline_expr(x, ps));
    match e {
        Expr::Param(p) => match ps.iter().find(|(k, _)| k == p) {
            Some((_, v)) => Expr::Lit(v.clone()),
            None => e.clone(),
        },
        Expr::Lit(_) | Expr::Var(_) | Expr::Prop(..) => e.clone(),
        Expr::Cmp(o, a, c) => Expr::Cmp(*o, b(a), b(c)),
        Expr::And(a, c) => Expr::And(b(a), b(c)),
        Expr::Or(a, c) => Expr::Or(b(a), b(c)),
        Expr::Xor(a, c) => Expr::Xor(b(a), b(c)),
        Expr::Not(a) => Expr::Not(b(a)),
        Expr::IsNull(a) => Expr::IsNull(b(a)),
        Expr::IsNotNull(a) => Expr::IsNotNull(b(a)),
        Expr::Arith(o, a, c) => Expr::Arith(*o, b(a), b(c)),
        Expr::Neg(a) => Expr::Neg(b(a)),
        Expr::In(a, c) => Expr::In(b(a), b(c)),
        Expr::List(l) => Expr::List(l.iter().map(|x| inline_expr(x, ps)).collect()),
        Expr::Fn(f, args) => Expr::Fn(*f, args.iter().map(|x| inline_expr(x, ps)).collect()),
    }
}

fn inline_proj(p: &Proj, ps: &[(u32, Val)]) -> Proj {
    Proj {
        distinct: p.distinct,
        items: p
            .items
            .iter()
            .map(|(it, a)| {
                (
                    match it {
                        Item::Expr(e) => Item::Expr(inline_expr(e, ps)),
                        Item::Agg(op, d, arg) => Item::Agg(*op, *d, arg.as_ref().map(|e| inline_expr(e, ps))),
                    },
                    *a,
                )
            })
            .collect(),
        order: p.order.iter().map(|(e, asc)| (inline_expr(e, ps), *asc)).collect(),
        skip: p.skip,
        limit: p.limit,
    }
}

fn inline_query(q: &Query, ps: &[(u32, Val)]) -> Query {
    let props = |l: &Vec<(u32, Expr)>| l.iter().map(|(k, e)| (*k, inline_expr(e, ps))).collect::<Vec<_>>();
    let np = |n: &NPat| NPat { var: n.var, labels: n.labels.clone(), props: props(&n.props) };
    Query {
        all: q.all,
        parts: q
            .parts
            .iter()
            .map(|s| SQuery {
                ret: inline_proj(&s.ret, ps),
                clauses: s
                    .clauses
                    .iter()
                    .map(|c| match c {
                        Clause::Match { opt, pats, wher } => Clause::Match {
                            opt: *opt,
                            wher: wher.as_ref().map(|e| inline_expr(e, ps)),
                            pats: pats
                                .iter()
                                .map(|p| Path {
                                    start: np(&p.start),
                                    segs: p
                                        .segs
                                        .iter()
                                        .map(|(r, n)| {
                                            (
                                                RPat {
                                                    var: r.var,
                                                    types: r.types.clone(),
                                                    dir: r.dir,
                                                    props: props(&r.props),
                                                    len: r.len,
                                                },
                                                np(n),
                                            )
                                        })
                                        .collect(),
                                })
                                .collect(),
                        },
                        Clause::Unwind(e, x) => Clause::Unwind(inline_expr(e, ps), *x),
                        Clause::With(p, w) => Clause::With(inline_proj(p, ps), w.as_ref().map(|e| inline_expr(e, ps))),
                    })
                    .collect(),
            })
            .collect(),
    }
}

/// Does the literal spelling of `v` parse back to `v`?
fn literal_round_trips(store: &samyama::graph::GraphStore, v: &Val) -> bool {
    match run_engine(store, &format!("RETURN {} AS x", lit_text(v)), &[]) {
        Obs::Ok(rows) => rows.len() == 1 && rows[0].len() == 1 && rows[0][0] == *v,
        _ => false,
    }
}

fn g_params(ps: &[(u32, Val)]) -> String {
    g_list(ps.iter().map(|(k, v)| format!("({}, {})", k, g_val(v))))
}

fn main() {
    quiet_panics();
    let args = parse_args();
    let mut out = Out::new(&args, "From Verif Require Import CypherCore Cypher.", "Cypher.case", "Cypher.check_case", 125);
    out.rule = "random property graphs (<=6 nodes, <=10 relationships) x generated queries of the C01 fragment in which \
                about half of the literals (in WHERE, RETURN, WITH, ORDER BY, list literals, inline pattern \
                properties, UNWIND) are parameters; values: null, booleans, integers incl. i64 boundaries, \
                strings, lists of these, kept only when the literal spelling parses back to the same value. \
                Each case runs the parameterised query and its inlined twin on the engine. Non-trivial = at least \
                one parameter and a non-empty or failing parameterised answer; distinct by (graph, query, params)."
        .to_string();
    let n = if args.thorough { 16000 } else { 1600 };
    let mut graph_cache: Option<(u64, samyama::graph::GraphStore, Graph)> = None;
    for c in 0..n {
        let gi = c / 4;
        if graph_cache.as_ref().map(|x| x.0) != Some(gi) {
            let mut gr = Rng::for_case(args.seed ^ 0x3535, gi);
            let g0 = gen_graph(&mut gr);
            let (store, g) = build_store(&g0);
            graph_cache = Some((gi, store, g));
        }
        let (_, store, g) = graph_cache.as_ref().unwrap();
        let mut r = Rng::for_case(args.seed.wrapping_add(0xC35), c);
        let mut cx = Gen::new(&mut r, g, true);
        let q = cx.gen_query();
        let params = cx.params.clone();
        let feats = cx.features.clone();
        if cost_estimate(g, &q) > 3000.0 {
            out.count("skipped_cost");
            continue;
        }
        // values without a faithful literal spelling are excluded (counted)
        if let Some((_, bad)) = params.iter().find(|(_, v)| !literal_round_trips(store, v)) {
            out.count("excluded_no_literal_spelling");
            if out.notes.len() < 5 {
                out.notes.push(format!("no literal spelling parses back to {:?}", bad));
            }
            continue;
        }
        // a query with a SKIP or LIMIT takes two case indices (itself and its inlined twin)
        let has_window = |p: &Proj| p.skip.is_some() || p.limit.is_some();
        let windowed = q.parts.iter().any(|s| {
            has_window(&s.ret) || s.clauses.iter().any(|c| matches!(c, Clause::With(p, _) if has_window(p)))
        });
        let idx = out.next_index();
        if !out.wants(idx) && !(windowed && out.wants(idx + 1)) {
            out.skip();
            if windowed {
                out.skip();
            }
            continue;
        }
        let text_p = render_query(&q);
        let qi = inline_query(&q, &params);
        let text_i = render_query(&qi);
        let obs_p = run_engine(store, &text_p, &params);
        let obs_i = run_engine(store, &text_i, &[]);
        for f in &feats {
            out.count(f);
        }
        if !params.is_empty() {
            out.count("with_params");
        }
        out.count_n("params", params.len() as u64);
        let verdict: Option<String> = match (&obs_p, &obs_i) {
            (Obs::Panic(p), _) => Some(format!("the parameterised query panicked: {}", p)),
            (_, Obs::Panic(p)) => Some(format!("the inlined query panicked: {}", p)),
            (Obs::Err(_), _) => {
                out.count("param_err");
                if matches!(obs_i, Obs::Ok(_)) {
                    out.count("param_refused_inline_ok");
                }
                None
            }
            (Obs::Ok(a), Obs::Ok(b)) => {
                out.count("both_ok");
                if !a.is_empty() {
                    out.count("both_ok_nonempty");
                }
                // The two runs are compared as bags: the order of rows is checked (up to ties)
                // by the model on the parameterised run. With a SKIP or LIMIT somewhere the two
                // runs may legitimately keep different rows (the engine's group order varies
                // between executions), so there both runs are checked against the model instead.
                let mut x: Vec<String> = a.iter().map(|r| format!("{:?}", r)).collect();
                let mut y: Vec<String> = b.iter().map(|r| format!("{:?}", r)).collect();
                x.sort();
                y.sort();
                if windowed {
                    out.count("windowed_checked_by_model");
                    None
                } else if x == y {
                    None
                } else {
                    Some(format!("different answers: with parameters {} / inlined {}", human_obs(&obs_p), human_obs(&obs_i)))
                }
            }
            (Obs::Ok(_), Obs::Err(e)) => Some(format!(
                "the parameterised query answered {} but the inlined query failed: {}",
                human_obs(&obs_p),
                e
            )),
        };
        let human = format!(
            "graph={} query={} params={} inlined={} obs={}",
            human_graph(g),
            text_p,
            params.iter().map(|(k, v)| format!("$q{}={}", k, lit_text(v))).collect::<Vec<_>>().join(","),
            text_i,
            human_obs(&obs_p)
        )
        .replace('\n', " ");
        let gal = format!("(Case {} {} {} false {})", g_graph(g), g_params(&params), g_query(&q), g_obs(&obs_p));
        let nontrivial = !params.is_empty() && !matches!(&obs_p, Obs::Ok(rows) if rows.is_empty());
        let i = out.case(gal, human.clone(), nontrivial);
        if let Some(d) = verdict {
            out.fail(i, &human, &d, None);
        }
        if windowed {
            // the inlined twin, checked against the reference semantics as well
            let gal_i = format!("(Case {} [] {} false {})", g_graph(g), g_query(&qi), g_obs(&obs_i));
            out.case(gal_i, format!("[inlined twin of {}] {}", i, human).replace('\n', " "), false);
        }
    }
    out.finish();
}
