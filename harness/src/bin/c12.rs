//! C12 — snapshot export then import reproduces the graph.
//! Graphs are built through the store API (row / column / stub tiers, MVCC versions,
//! deletes, compaction, hierarchy declarations) and through Cypher, with boundary values;
//! exported, imported into an empty store, and the two dumps compared up to the node-id
//! bijection (labels read from the node and by label lookup). The exported stream is also
//! handed, record by record, to the Coq model (SnapshotJson.check_c12).
#[path = "snap_common/mod.rs"]
mod snap_common;
use samyama::graph::{GraphStore, Label, NodeId, PropertyValue};
use samyama::index::hierarchy::HierarchySpec;
use samyama::query::QueryEngine;
use samyama::snapshot::{export_tenant, import_tenant};
use snap_common::*;
use std::collections::{BTreeSet, HashMap};
use vh::*;

struct Built {
    store: GraphStore,
    desc: Vec<String>,
}

fn lit(r: &mut Rng) -> (String, &'static str) {
    match r.below(5) {
        0 => (format!("{}", (r.next() % 2000) as i64 - 1000), "int"),
        1 => ("'a  b '".to_string(), "str"),
        2 => ("true".to_string(), "bool"),
        3 => ("2.5".to_string(), "float"),
        _ => ("[1, 2, 3]".to_string(), "list"),
    }
}

fn build(r: &mut Rng, special: bool, out: &mut Out) -> Built {
    let mut s = GraphStore::new();
    let engine = QueryEngine::new();
    let mut desc = Vec::new();
    let mut live: Vec<u64> = Vec::new();
    let mut multi: BTreeSet<u64> = BTreeSet::new();
    let mut bumped_since: HashMap<u64, u64> = HashMap::new();
    let mut edges: Vec<u64> = Vec::new();
    let mut compacted = false;
    let n_ops = r.range(2, 16);
    for _ in 0..n_ops {
        let pick = r.below(20);
        match pick {
            0..=3 => {
                let nl = r.below(4);
                let labels: Vec<Label> = (0..nl).map(|_| Label::new(*r.pick(&LABELS))).collect();
                desc.push(format!("node{:?}", labels.iter().map(|l| l.as_str().to_string()).collect::<Vec<_>>()));
                let id = s.create_node_with_labels(labels).as_u64();
                live.push(id);
                bumped_since.insert(id, s.current_version);
            }
            4 => {
                let l = *r.pick(&LABELS);
                let id = s.create_node_stub(l).as_u64();
                desc.push(format!("stub({:?})", l));
                live.push(id);
                bumped_since.insert(id, s.current_version);
            }
            5..=7 if !live.is_empty() => {
                let id = *r.pick(&live);
                let k = *r.pick(&KEYS);
                let v = gen_value(r, 0, special);
                desc.push(format!("set({},{:?},{:?})", id, k, v));
                if bumped_since.get(&id).copied().unwrap_or(0) < s.current_version {
                    multi.insert(id);
                    bumped_since.insert(id, s.current_version);
                    out.count("multi_version_node");
                }
                let _ = s.set_node_property("default", NodeId::new(id), k, v);
            }
            8 if !live.is_empty() => {
                let id = *r.pick(&live);
                let k = *r.pick(&KEYS);
                let v = gen_value(r, 0, special);
                desc.push(format!("colset({},{:?},{:?})", id, k, v));
                s.set_column_property(NodeId::new(id), k, v);
                out.count("column_only_write");
            }
            9 if !live.is_empty() => {
                let id = *r.pick(&live);
                let k = *r.pick(&KEYS);
                let v = gen_value(r, 0, special);
                desc.push(format!("rowset({},{:?},{:?})", id, k, v));
                if let Some(n) = s.get_node_mut(NodeId::new(id)) {
                    n.set_property(k, v);
                }
                out.count("row_only_write");
            }
            10 if !live.is_empty() => {
                let id = *r.pick(&live);
                let l = *r.pick(&LABELS);
                if r.chance(3, 4) {
                    desc.push(format!("addlabel({},{:?})", id, l));
                    let _ = s.add_label_to_node("default", NodeId::new(id), l);
                } else {
                    desc.push(format!("rmlabel({},{:?})", id, l));
                    let _ = s.remove_label_from_node(NodeId::new(id), &Label::new(l));
                }
            }
            11..=13 if !live.is_empty() => {
                let a = *r.pick(&live);
                let b = *r.pick(&live);
                let t = *r.pick(&ETYPES);
                // IS_A edges go from the lower to the higher id so that hierarchies stay acyclic
                let (a, b) = if t == "IS_A" && a > b { (b, a) } else { (a, b) };
                if t == "IS_A" && a == b {
                    continue;
                }
                let kind = r.below(3);
                let res = match kind {
                    0 => s.create_edge(NodeId::new(a), NodeId::new(b), t),
                    1 => {
                        let mut p = HashMap::new();
                        for _ in 0..r.range(1, 2) {
                            p.insert(r.pick(&KEYS).to_string(), gen_value(r, 0, special));
                        }
                        desc.push(format!("eprops {:?}", p));
                        s.create_edge_with_properties(NodeId::new(a), NodeId::new(b), t, p)
                    }
                    _ => s.create_edge_stub(NodeId::new(a), NodeId::new(b), t),
                };
                desc.push(format!("edge{}({}->{}:{:?})", kind, a, b, t));
                if let Ok(e) = res {
                    edges.push(e.as_u64());
                }
            }
            14 if !compacted && !live.is_empty() => {
                let i = r.below(live.len() as u64) as usize;
                let id = live[i];
                if !multi.contains(&id) {
                    desc.push(format!("delnode({})", id));
                    let _ = s.delete_node("default", NodeId::new(id));
                    live.remove(i);
                    edges.retain(|e| s.has_edge(samyama::graph::EdgeId::new(*e)));
                    out.count("deleted_node");
                }
            }
            15 if !compacted && !edges.is_empty() => {
                let i = r.below(edges.len() as u64) as usize;
                desc.push(format!("deledge({})", edges[i]));
                let _ = s.delete_edge(samyama::graph::EdgeId::new(edges[i]));
                edges.remove(i);
            }
            16 => {
                s.current_version += 1;
                desc.push("bump".into());
            }
            17 => {
                s.compact_adjacency();
                compacted = true;
                desc.push("compact".into());
                out.count("compacted");
            }
            18 => {
                // Cypher
                let (v, _) = lit(r);
                let q = match r.below(3) {
                    0 => format!("CREATE (n:{} {{k: {}, name: 'N{}'}})", r.pick(&["A", "B", "Person"]), v, r.below(5)),
                    1 => format!("CREATE (a:A {{k: {}}})-[:R {{w: {}}}]->(b:B:Person {{name: 'x y'}})", v, r.below(9)),
                    _ => format!("MATCH (n:A) SET n.x = {}", v),
                };
                let before: BTreeSet<u64> = s.all_nodes().iter().map(|n| n.id.as_u64()).collect();
                let ok = engine.execute_mut(&q, &mut s, "default").is_ok();
                desc.push(format!("cypher[{}]{}", q, if ok { "" } else { " (error)" }));
                if ok {
                    out.count("cypher_statement");
                }
                for n in s.all_nodes() {
                    let id = n.id.as_u64();
                    if !before.contains(&id) && !live.contains(&id) {
                        live.push(id);
                        bumped_since.insert(id, s.current_version);
                    }
                }
                // a SET after a bump creates versions
                for id in live.iter() {
                    if s.all_nodes().iter().filter(|n| n.id.as_u64() == *id).count() > 1 {
                        multi.insert(*id);
                    }
                }
                edges = s.all_edges().iter().map(|e| e.id.as_u64()).collect();
            }
            _ => {
                // hierarchy declaration
                let name = format!("h{}", r.below(3));
                let mut spec = HierarchySpec::new(name.clone(), vec![etype("IS_A")]);
                if r.chance(1, 2) {
                    let label = if r.chance(1, 2) { Some(Label::new(*r.pick(&LABELS))) } else { None };
                    let n_ops = if special && r.chance(1, 4) { 0 } else { r.range(1, 3) };
                    let ops = (0..n_ops).map(|_| rop_of(r.next())).collect();
                    spec = spec.with_measure(label, *r.pick(&KEYS), ops);
                } else if special && r.chance(1, 4) {
                    spec.ops = vec![rop_of(r.next()), rop_of(r.next())];
                }
                spec.reverse = r.chance(1, 3);
                let mgr = std::sync::Arc::clone(&s.hierarchy_index);
                let ok = mgr.create(&s, spec.clone()).is_ok();
                desc.push(format!("hier({:?}){}", spec, if ok { "" } else { " (refused)" }));
                if ok {
                    out.count("hierarchy_declared");
                }
            }
        }
    }
    Built { store: s, desc }
}

/// A larger graph: 70-200 relationships (parallel ones, some with properties), built through
/// the API and through Cypher, then relationships and old nodes deleted (ids are not reused
/// afterwards, so the live ids are sparse and reach past 64), optionally compacted before or
/// after the deletions. `node_heavy` creates 70-130 nodes and deletes most of them.
fn build_big(r: &mut Rng, node_heavy: bool, out: &mut Out) -> Built {
    let mut s = GraphStore::new();
    let engine = QueryEngine::new();
    let mut desc = Vec::new();
    let n_nodes = if node_heavy { r.range(70, 130) } else { r.range(8, 20) };
    let mut live: Vec<u64> = Vec::new();
    let mut cy_nodes = 0;
    for i in 0..n_nodes {
        if i % 7 == 3 {
            let q = format!("CREATE (n:{} {{i: {}}})", r.pick(&["A", "B"]), i);
            let before: BTreeSet<u64> = s.all_nodes().iter().map(|n| n.id.as_u64()).collect();
            if engine.execute_mut(&q, &mut s, "default").is_ok() {
                out.count("cypher_statement");
                cy_nodes += 1;
                for n in s.all_nodes() {
                    if !before.contains(&n.id.as_u64()) {
                        live.push(n.id.as_u64());
                    }
                }
                continue;
            }
        }
        let labels: Vec<Label> = (0..r.below(3)).map(|_| Label::new(*r.pick(&LABELS))).collect();
        let id = s.create_node_with_labels(labels);
        let _ = s.set_node_property("default", id, "i", PropertyValue::Integer(i as i64));
        live.push(id.as_u64());
    }
    desc.push(format!("{} nodes ({} by Cypher)", live.len(), cy_nodes));
    let n_edges = r.range(100, 240);
    let compact_mid = r.chance(1, 3);
    let mut cy_edges = 0;
    for k in 0..n_edges {
        let a = *r.pick(&live);
        // parallel relationships: reuse a small set of targets
        let b = live[(r.below(4) as usize) % live.len()];
        let b = if r.chance(1, 2) { b } else { *r.pick(&live) };
        let t = *r.pick(&["R", "KNOWS", "T"]);
        if k % 9 == 4 {
            let q = format!("MATCH (a {{i: {}}}), (b {{i: {}}}) CREATE (a)-[:{} {{w: {}}}]->(b)", r.below(n_nodes), r.below(n_nodes), t, k);
            if engine.execute_mut(&q, &mut s, "default").is_ok() {
                out.count("cypher_statement");
                cy_edges += 1;
                continue;
            }
        }
        match r.below(4) {
            0 => {
                let mut p = HashMap::new();
                p.insert("w".to_string(), PropertyValue::Integer(k as i64));
                if r.chance(1, 3) {
                    p.insert("s".to_string(), PropertyValue::String(gen_string(r)));
                }
                let _ = s.create_edge_with_properties(NodeId::new(a), NodeId::new(b), t, p);
            }
            1 => {
                let _ = s.create_edge_stub(NodeId::new(a), NodeId::new(b), t);
            }
            _ => {
                let _ = s.create_edge(NodeId::new(a), NodeId::new(b), t);
            }
        }
        if compact_mid && k == n_edges / 2 {
            s.compact_adjacency();
        }
    }
    let created_edges = s.all_edges().len();
    desc.push(format!("{} relationships ({} by Cypher){}", created_edges, cy_edges, if compact_mid { ", compacted half way" } else { "" }));
    if r.chance(1, 3) {
        s.compact_adjacency();
        desc.push("compacted before the deletions".into());
        out.count("compacted");
    }
    // deletions, oldest ids first in the main: relationships ...
    let mut eids: Vec<u64> = s.all_edges().iter().map(|e| e.id.as_u64()).collect();
    eids.sort();
    let del_e = (eids.len() as u64 * r.range(25, 60) / 100) as usize;
    let mut deleted_e = 0;
    for (j, eid) in eids.iter().enumerate() {
        if deleted_e >= del_e {
            break;
        }
        // mostly the old ids, a few of the newer ones
        if j < del_e || r.chance(1, 10) {
            if j % 11 == 5 {
                // through Cypher, by the property that identifies it (if it has one)
                if let Some(PropertyValue::Integer(w)) = s.get_edge(samyama::graph::EdgeId::new(*eid)).and_then(|e| e.properties.get("w").cloned()) {
                    let q = format!("MATCH (a)-[r {{w: {}}}]->(b) DELETE r", w);
                    if engine.execute_mut(&q, &mut s, "default").is_ok() {
                        out.count("cypher_statement");
                        deleted_e += 1;
                        continue;
                    }
                }
            }
            if s.delete_edge(samyama::graph::EdgeId::new(*eid)).is_ok() {
                deleted_e += 1;
            }
        }
    }
    // ... and nodes with everything attached (DETACH DELETE), old ids, never the newest
    let mut nids: Vec<u64> = s.all_nodes().iter().map(|n| n.id.as_u64()).collect();
    nids.sort();
    let del_n = if node_heavy { nids.len() * r.range(55, 85) as usize / 100 } else { r.below(4) as usize };
    let mut deleted_n = 0;
    for (j, nid) in nids.iter().enumerate() {
        if deleted_n >= del_n || j + 1 == nids.len() {
            break;
        }
        if j % 5 == 2 {
            let q = format!("MATCH (n {{i: {}}}) DETACH DELETE n", j);
            let had = s.all_nodes().len();
            if engine.execute_mut(&q, &mut s, "default").is_ok() {
                out.count("cypher_statement");
                deleted_n += had - s.all_nodes().len();
                continue;
            }
        }
        if s.delete_node("default", NodeId::new(*nid)).is_ok() {
            deleted_n += 1;
        }
    }
    desc.push(format!("deleted {} relationships and {} nodes", deleted_e, deleted_n));
    out.count_n("deleted_node", deleted_n as u64);
    if r.chance(1, 3) {
        s.compact_adjacency();
        desc.push("compacted after the deletions".into());
        out.count("compacted");
    }
    Built { store: s, desc }
}

/// Run one store through export -> import(empty) and record the case.
fn run_store(out: &mut Out, b: Built, tag: &str) {
    let idx = out.next_index();
    if !out.wants(idx) {
        out.skip();
        return;
    }
    let orig = dump(&b.store);
    let mut bytes = Vec::new();
    if let Err(e) = export_tenant(&b.store, &mut bytes) {
        out.fail(idx, &b.desc.join("; "), &format!("export failed: {}", e), None);
        return;
    }
    let (header, lines) = read_stream(&bytes);
    let mut s2 = GraphStore::new();
    let res = catch(std::panic::AssertUnwindSafe(|| import_tenant(&mut s2, std::io::Cursor::new(&bytes)).map(|st| (st.node_count, st.merged_count)).map_err(|e| e.to_string())));
    let after = dump(&s2);
    let human = format!("[{}] {}", tag, b.desc.join("; "));
    // classes present in the original graph
    let vals = dump_values(&orig);
    let class = if vals.iter().any(|v| nonfinite(v)) {
        Some("nonfinite_float")
    } else if vals.iter().any(|v| type_tag_map(v)) {
        Some("type_tag_map")
    } else if orig.hier.iter().any(hier_ops_default) {
        Some("hier_ops_default")
    } else {
        None
    };
    if let Some(c) = class {
        out.count(&format!("class_{}", c));
    }
    let result = match &res {
        Ok(Ok(x)) => Some(*x),
        _ => None,
    };
    let g = format!("({}, {})", g_dump(&orig, &[], 0), g_import_obs(&[], &header, &lines, &dump(&GraphStore::new()), result, &after));
    let nontrivial = orig.nodes.len() >= 2 && !orig.edges.is_empty();
    out.case(g, human.clone(), nontrivial);
    out.count_n("nodes", orig.nodes.len() as u64);
    out.count_n("relationships", orig.edges.len() as u64);
    if orig.nodes.iter().any(|n| n.labels.is_empty()) {
        out.count("unlabelled_node");
    }
    if orig.nodes.iter().any(|n| n.labels.len() >= 2) {
        out.count("multi_label_node");
    }
    if orig.versions > orig.nodes.len() {
        out.count("exported_with_old_versions");
    }
    if vals.iter().any(|v| matches!(v, PropertyValue::String(s) if s.trim() != s.as_str())) {
        out.count("string_with_outer_whitespace");
    }
    if !orig.hier.is_empty() {
        out.count("with_hierarchy");
    }
    // id-indexed structures: ids beyond one machine word of a bitset, and gaps left by deletes
    let max_eid = orig.edges.iter().map(|e| e.id).max().unwrap_or(0);
    let max_nid = orig.nodes.iter().map(|n| n.id).max().unwrap_or(0);
    if max_eid >= 64 {
        out.count("graphs_with_over_64_edge_ids");
    }
    if (max_eid / 64) as usize > orig.edges.len() / 64 {
        out.count("edge_id_gaps_before_export");
    }
    if max_nid >= 64 {
        out.count("graphs_with_over_64_node_ids");
    }
    if (max_nid / 64) as usize > orig.nodes.len() / 64 {
        out.count("node_id_gaps_before_export");
    }
    if orig.edges.len() >= 70 {
        out.count("graphs_with_70_or_more_relationships");
    }
    // the property itself, on the implementation
    let verdict: Result<(), String> = match res {
        Err(p) => Err(format!("import panicked: {}", p)),
        Ok(Err(e)) => Err(format!("import of the exported snapshot failed: {}", e)),
        Ok(Ok(_)) => isomorphic(&orig, &after).and_then(|_| label_reads_agree(&after)).and_then(|_| {
            if after.versions != after.nodes.len() {
                Err("imported store has several versions of a node".to_string())
            } else {
                Ok(())
            }
        }),
    };
    match verdict {
        Ok(()) => out.count("round_trip_ok"),
        Err(d) => out.fail(idx, &human, &d, class),
    }
}

fn targeted(out: &mut Out) {
    let mk = |f: &dyn Fn(&mut GraphStore), d: &str| {
        let mut s = GraphStore::new();
        f(&mut s);
        Built { store: s, desc: vec![d.to_string()] }
    };
    let cases: Vec<Built> = vec![
        mk(&|s| { let n = s.create_node("A"); s.add_label_to_node("default", n, "B").unwrap(); }, "second label"),
        mk(&|s| { let n = s.create_node("A"); s.set_node_property("default", n, "k", PropertyValue::String("  a b \n".into())).unwrap(); }, "outer whitespace"),
        mk(&|s| { s.create_node_with_labels(std::iter::empty()); }, "unlabelled"),
        mk(&|s| { let n = s.create_node("A"); s.set_node_property("default", n, "k", PropertyValue::Integer(1)).unwrap(); s.current_version += 1; s.set_node_property("default", n, "k", PropertyValue::Integer(2)).unwrap(); }, "two versions"),
        mk(&|s| {
            let a = s.create_node("A"); let b = s.create_node("A");
            let mut m = HashMap::new(); m.insert("t".to_string(), PropertyValue::String("n".into()));
            let mut p = HashMap::new(); p.insert("x".to_string(), PropertyValue::Map(m));
            s.create_edge_with_properties(a, b, "R", p).unwrap();
        }, "edge property map {t:n}"),
        mk(&|s| {
            let a = s.create_node("A"); let b = s.create_node("A"); s.create_edge(a, b, "IS_A").unwrap();
            let mut spec = HierarchySpec::new("h", vec![etype("IS_A")]).with_measure(Some(Label::new("A")), "u", vec![rop_of(2), rop_of(3)]);
            spec.reverse = true;
            let mgr = std::sync::Arc::clone(&s.hierarchy_index); mgr.create(s, spec).unwrap();
        }, "hierarchy reverse + measure label"),
        mk(&|s| {
            let n = s.create_node("A");
            s.get_node_mut(n).unwrap().set_property("k", PropertyValue::Integer(1));
            s.set_column_property(n, "k", PropertyValue::Integer(2));
        }, "row and column disagree"),
        mk(&|s| {
            let a = s.create_node("A"); let b = s.create_node("B");
            s.create_edge(a, b, "R").unwrap(); s.create_edge(a, b, "R").unwrap(); s.create_edge(b, a, "R").unwrap(); s.create_edge(a, a, "").unwrap();
        }, "parallel, reverse and self relationships"),
    ];
    for b in cases {
        run_store(out, b, "targeted");
    }
}

/// Stored witnesses of the recorded classes, replayed on the implementation every run.
fn replay_known(out: &mut Out) {
    let rt = |s: &GraphStore| -> (Dump, Dump) {
        let mut bytes = Vec::new();
        export_tenant(s, &mut bytes).unwrap();
        let mut s2 = GraphStore::new();
        let _ = import_tenant(&mut s2, std::io::Cursor::new(&bytes));
        (dump(s), dump(&s2))
    };
    {
        let mut s = GraphStore::new();
        let n = s.create_node("A");
        s.set_node_property("default", n, "k", PropertyValue::Float(f64::INFINITY)).unwrap();
        s.set_node_property("default", n, "v", PropertyValue::Vector(vec![1.0, f32::NAN, 2.0])).unwrap();
        let (a, b) = rt(&s);
        let r = isomorphic(&a, &b);
        out.known.push(KnownReplay { class: "nonfinite_float".into(), still_fails: r.is_err(), detail: r.err().unwrap_or_default() });
    }
    {
        let mut s = GraphStore::new();
        let n = s.create_node("A");
        let mut m = HashMap::new();
        m.insert("__type".to_string(), PropertyValue::String("Duration".into()));
        s.set_node_property("default", n, "k", PropertyValue::Map(m)).unwrap();
        let (a, b) = rt(&s);
        let r = isomorphic(&a, &b);
        out.known.push(KnownReplay { class: "type_tag_map".into(), still_fails: r.is_err(), detail: r.err().unwrap_or_default() });
    }
    {
        let mut s = GraphStore::new();
        s.create_node("A");
        let spec = HierarchySpec::new("h", vec![etype("IS_A")]).with_measure(None, "u", vec![]);
        let mgr = std::sync::Arc::clone(&s.hierarchy_index);
        mgr.create(&s, spec).unwrap();
        let (a, b) = rt(&s);
        let r = isomorphic(&a, &b);
        out.known.push(KnownReplay { class: "hier_ops_default".into(), still_fails: r.is_err(), detail: r.err().unwrap_or_default() });
    }
}

fn main() {
    let args = parse_args();
    quiet_panics();
    let mut out = Out::new(&args, "From Verif Require Import SnapshotJson.", "SnapshotJson.c12_case", "SnapshotJson.check_c12", if args.thorough { 150 } else { 40 });
    out.rule = "export -> import into an empty store; dumps isomorphic (labels from the node and by lookup, merged properties by bit pattern, relationship bag, hierarchy declarations); exported records = model export; imported store = model import".into();
    replay_known(&mut out);
    targeted(&mut out);
    // larger graphs with sparse ids (both tiers)
    let n_big = if args.thorough { 120 } else { 32 };
    for i in 0..n_big {
        let mut r = Rng::for_case(args.seed ^ 0xb16, i);
        let node_heavy = i % 2 == 1;
        let b = build_big(&mut r, node_heavy, &mut out);
        run_store(&mut out, b, if node_heavy { "big,node-heavy" } else { "big" });
    }
    let n = if args.thorough { 6000 } else { 600 };
    for i in 0..n {
        let mut r = Rng::for_case(args.seed, i);
        // one case in six may carry values of the recorded classes
        let special = i % 6 == 5;
        let b = build(&mut r, special, &mut out);
        run_store(&mut out, b, if special { "random+classes" } else { "random" });
    }
    out.finish();
}
