//! C02 — results do not depend on indexes, storage tier, planner mode or process.
//! (probe stage)
use samyama::graph::GraphStore;
use samyama::query::QueryEngine;
use vh::*;

fn rows(store: &GraphStore, q: &str) -> Result<Vec<String>, String> {
    let r = catch(std::panic::AssertUnwindSafe(|| QueryEngine::new().execute(q, store).map_err(|e| e.to_string())));
    match r {
        Err(p) => Err(format!("PANIC {}", p)),
        Ok(Err(e)) => Err(format!("ERR {}", e)),
        Ok(Ok(b)) => {
            let mut v: Vec<String> = b
                .records
                .iter()
                .map(|rec| b.columns.iter().map(|c| format!("{:?}", rec.get(c))).collect::<Vec<_>>().join(" | "))
                .collect();
            v.sort();
            Ok(v)
        }
    }
}

fn wr(store: &mut GraphStore, q: &str) {
    let r = QueryEngine::new().execute_mut(q, store, "default");
    if let Err(e) = r {
        println!("   write {} -> ERR {}", q, e);
    }
}

fn main() {
    quiet_panics();
    let setup = [
        "CREATE (:L {x: 6, t: 'int6'})",
        "CREATE (:L {x: 'a', t: 'str'})",
        "CREATE (:L {x: 1.5, t: 'f1.5'})",
        "CREATE (:L {x: 0.0/0.0, t: 'nan'})",
        "CREATE (:L {x: [7, 8], t: 'list'})",
        "CREATE (:L {x: 1, t: 'int1'})",
        "CREATE (:L {x: 1.0, t: 'f1.0'})",
        "CREATE (:L {x: true, t: 'bool'})",
        "CREATE (:L {x: 9007199254740993, t: 'int2p53+1'})",
        "CREATE (:L {x: 9007199254740992.0, t: 'f2p53'})",
        "CREATE (:L {t: 'absent'})",
        "CREATE (:L {x: 10, t: 'removed'})",
        "CREATE (:L {x: 11, t: 'unlabelled'})",
        "CREATE (:L {x: 12, t: 'retyped'})",
    ];
    let after = [
        "MATCH (n:L {t: 'removed'}) REMOVE n.x",
        "MATCH (n:L {t: 'unlabelled'}) REMOVE n:L SET n:M",
        "MATCH (n:L {t: 'retyped'}) SET n.x = 'twelve'",
    ];
    let queries = [
        "MATCH (n:L) WHERE n.x > 5 RETURN n.t",
        "MATCH (n:L) WHERE n.x >= 6 RETURN n.t",
        "MATCH (n:L) WHERE n.x < 5 RETURN n.t",
        "MATCH (n:L) WHERE n.x <= 1 RETURN n.t",
        "MATCH (n:L) WHERE n.x = 1 RETURN n.t",
        "MATCH (n:L) WHERE n.x = 1.0 RETURN n.t",
        "MATCH (n:L {x: 1}) RETURN n.t",
        "MATCH (n:L) WHERE 5 < n.x RETURN n.t",
        "MATCH (n:L) WHERE n.x > 'A' RETURN n.t",
        "MATCH (n:L) WHERE n.x = 9007199254740992.0 RETURN n.t",
        "MATCH (n:L) WHERE n.x >= 9007199254740993 RETURN n.t",
        "MATCH (n:L) WHERE n.x > 1.0 RETURN n.t",
        "MATCH (n:L) WHERE n.x = null RETURN n.t",
        "MATCH (n:L) WHERE n.x > 5 AND n.t <> 'zz' RETURN n.t",
    ];
    for native in ["false", "true"] {
        std::env::set_var("SAMYAMA_GRAPH_NATIVE", native);
        let mut plain = GraphStore::new();
        let mut ixb = GraphStore::new();
        let mut ixa = GraphStore::new();
        wr(&mut ixb, "CREATE INDEX ON :L(x)");
        for s in [&mut plain, &mut ixb, &mut ixa] {
            for q in setup {
                wr(s, q);
            }
            for q in after {
                wr(s, q);
            }
        }
        wr(&mut ixa, "CREATE INDEX ON :L(x)");
        println!("== SAMYAMA_GRAPH_NATIVE={}", native);
        for q in ["EXPLAIN MATCH (n:L) WHERE n.x > 5 RETURN n.t", "EXPLAIN MATCH (n:L {x: 1}) RETURN n.t", "EXPLAIN MATCH (n:L)-[:R]->(m:L) WHERE m.x > 5 RETURN n.t"] {
            println!("{:?}", QueryEngine::new().execute(q, &ixb).map(|b| b.records.iter().map(|r| format!("{:?}", r)).collect::<Vec<_>>()).map_err(|e| e.to_string()));
        }
        for q in queries {
            let a = rows(&plain, q);
            let b = rows(&ixb, q);
            let c = rows(&ixa, q);
            let tag = if a == b && a == c { "same" } else { "DIFF" };
            println!("{} {}\n   noindex      {:?}\n   index-before {:?}\n   index-after  {:?}", tag, q, a, b, c);
        }
    }
}
