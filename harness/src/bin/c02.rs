//! C02 — results do not depend on indexes, storage tier, planner mode or process.
//!
//! Metamorphic on the implementation: a random history (creates, property changes incl. type
//! changes, label changes, deletes with id reuse, relationships) is replayed into nine stores
//! {no index, indexes created before the data, indexes created after the data} x {never
//! compacted, compacted at the end, compacted in the middle}; every generated read query is run
//! on each store under {legacy, graph-native planner} x {parallel filter forced on, off} and all
//! 36 result bags must be equal.  A child process (fresh hash seeds) recomputes one
//! configuration and must produce the same bags.  Against the model (coq/model/Index.v): for the
//! single-node comparison queries the labelled nodes with their values, the ids returned without
//! and with an index and the ids `PropertyIndex::candidates` yields are printed for coqc.
use samyama::graph::{EdgeId, GraphStore, Label, NodeId, PropertyValue};
use samyama::index::property_index::IndexOp;
use samyama::query::executor::planner::{PlannerConfig, QueryPlanner};
use samyama::query::{parse_query, QueryEngine, QueryExecutor};
use std::collections::{BTreeMap, HashMap};
use vh::*;

type PV = PropertyValue;

// ---------- printers (as in c10.rs) ----------
fn g_pv(v: &PV) -> String {
    match v {
        PV::String(s) => format!("PStr {}", g_bytes(s.as_bytes())),
        PV::Integer(i) => format!("PInt {}", g_z(*i as i128)),
        PV::Float(f) => format!("PFloat {}", g_z(f.to_bits() as i128)),
        PV::Boolean(b) => format!("PBool {}", g_bool(*b)),
        PV::DateTime(d) => format!("PDate {}", g_z(*d as i128)),
        PV::Array(a) => format!("PArr {}", g_list(a.iter().map(|x| format!("({})", g_pv(x))))),
        PV::Map(m) => {
            let mut ks: Vec<&String> = m.keys().collect();
            ks.sort_by(|a, b| a.as_bytes().cmp(b.as_bytes()));
            format!("PMap {}", g_list(ks.iter().map(|k| format!("({}, {})", g_bytes(k.as_bytes()), g_pv(&m[*k])))))
        }
        PV::Vector(x) => format!("PVec {}", g_list(x.iter().map(|f| g_z(f.to_bits() as i128)))),
        PV::Duration { months, days, seconds, nanos } => format!(
            "PDur {} {} {} {}",
            g_z(*months as i128),
            g_z(*days as i128),
            g_z(*seconds as i128),
            g_z(*nanos as i128)
        ),
        PV::Null => "PNull".to_string(),
    }
}

fn h_pv(v: &PV) -> String {
    match v {
        PV::Float(f) => format!("Float({:?}/{:#x})", f, f.to_bits()),
        PV::Array(a) => format!("[{}]", a.iter().map(h_pv).collect::<Vec<_>>().join(", ")),
        other => format!("{:?}", other),
    }
}

// ---------- histories ----------
const LABELS: [&str; 3] = ["L0", "L1", "L2"];
const KEYS: [&str; 2] = ["x", "y"];
const TYPES: [&str; 2] = ["R", "S"];

#[derive(Clone, Debug)]
enum Op {
    CreateNode { uid: i64, labels: Vec<usize>, props: Vec<(usize, PV)> },
    SetProp { uid: i64, key: usize, val: PV },
    RemoveProp { uid: i64, key: usize },
    AddLabel { uid: i64, label: usize },
    RemoveLabel { uid: i64, label: usize },
    DeleteNode { uid: i64 },
    CreateEdge { eid: i64, src: i64, dst: i64, ty: usize, w: PV },
    DeleteEdge { eid: i64 },
    SetEdgeProp { eid: i64, w: PV },
}

const P53: i64 = 1 << 53;

fn rand_val(r: &mut Rng, mixed: bool) -> PV {
    let k = if mixed { r.below(16) } else { r.below(5) };
    match k {
        0 | 1 | 2 => PV::Integer(r.below(9) as i64 - 2),
        3 | 4 => PV::Float(*r.pick(&[1.0, 1.5, 2.0, 5.0, 6.0, -1.0, 0.0, -0.0, 0.5, 6.5])),
        5 => PV::Float(*r.pick(&[f64::NAN, -f64::NAN, f64::INFINITY, f64::NEG_INFINITY, 9007199254740992.0, 1e19])),
        6 => PV::Integer(*r.pick(&[P53, P53 + 1, P53 - 1, i64::MAX, i64::MIN, -(P53 + 1)])),
        7 | 8 => PV::String(r.pick(&["a", "b", "", "true", "FALSE", "5"]).to_string()),
        9 => PV::Boolean(r.chance(1, 2)),
        10 => PV::DateTime(r.below(9) as i64 - 2),
        11 => PV::Array(vec![PV::Integer(r.below(3) as i64)]),
        12 => PV::Array(vec![PV::Float(*r.pick(&[0.0, -0.0, 1.0]))]),
        13 => PV::Duration { months: r.below(2) as i64, days: r.below(3) as i64, seconds: 0, nanos: 0 },
        14 => PV::Vector(vec![*r.pick(&[0.0f32, -0.0, 1.0])]),
        _ => PV::Integer(r.below(4) as i64),
    }
}

struct HistGen {
    next_uid: i64,
    next_eid: i64,
    live: Vec<i64>,
    edges: Vec<(i64, i64, i64)>,
    deletes: u64,
    creates_after_delete: u64,
    retype: u64,
    /// hub histories: the hub uids, the spoke uids, deletes of a hub relationship that is not
    /// the last one of the hub's (target-ordered) adjacency list
    hubs: Vec<i64>,
    spokes: Vec<i64>,
    nonlast_deletes: u64,
}

fn gen_history(r: &mut Rng) -> (Vec<Op>, HistGen) {
    let mut g = HistGen { next_uid: 1, next_eid: 1, live: vec![], edges: vec![], deletes: 0, creates_after_delete: 0, retype: 0, hubs: vec![], spokes: vec![], nonlast_deletes: 0 };
    if r.chance(2, 5) {
        return gen_hub_history(r, g);
    }
    let mixed = r.chance(3, 4);
    let n = r.range(6, 40);
    let mut ops = Vec::new();
    for _ in 0..n {
        let k = r.below(20);
        if g.live.is_empty() || k < 6 {
            let uid = g.next_uid;
            g.next_uid += 1;
            let mut labels: Vec<usize> = (0..3).filter(|_| r.chance(1, 2)).collect();
            if labels.is_empty() && r.chance(3, 4) {
                labels.push(r.below(3) as usize);
            }
            let mut props: Vec<(usize, PV)> = Vec::new();
            for k in 0..2 {
                if r.chance(3, 4) {
                    props.push((k, rand_val(r, mixed)));
                }
            }
            if g.deletes > 0 {
                g.creates_after_delete += 1;
            }
            g.live.push(uid);
            ops.push(Op::CreateNode { uid, labels, props });
        } else if k < 10 {
            let uid = *r.pick(&g.live);
            g.retype += 1;
            ops.push(Op::SetProp { uid, key: r.below(2) as usize, val: rand_val(r, mixed) });
        } else if k == 10 {
            ops.push(Op::RemoveProp { uid: *r.pick(&g.live), key: r.below(2) as usize });
        } else if k == 11 {
            ops.push(Op::AddLabel { uid: *r.pick(&g.live), label: r.below(3) as usize });
        } else if k == 12 {
            ops.push(Op::RemoveLabel { uid: *r.pick(&g.live), label: r.below(3) as usize });
        } else if k == 13 || k == 14 {
            let i = r.below(g.live.len() as u64) as usize;
            let uid = g.live.remove(i);
            g.edges.retain(|e| e.1 != uid && e.2 != uid);
            g.deletes += 1;
            ops.push(Op::DeleteNode { uid });
        } else if k < 18 {
            let eid = g.next_eid;
            g.next_eid += 1;
            let (src, dst) = (*r.pick(&g.live), *r.pick(&g.live));
            g.edges.push((eid, src, dst));
            if g.deletes > 0 {
                g.creates_after_delete += 1;
            }
            ops.push(Op::CreateEdge { eid, src, dst, ty: r.below(2) as usize, w: PV::Integer(r.below(5) as i64) });
        } else if k == 18 && !g.edges.is_empty() {
            let i = r.below(g.edges.len() as u64) as usize;
            let e = g.edges.remove(i);
            g.deletes += 1;
            ops.push(Op::DeleteEdge { eid: e.0 });
        } else if !g.edges.is_empty() {
            ops.push(Op::SetEdgeProp { eid: r.pick(&g.edges).0, w: rand_val(r, false) });
        }
    }
    (ops, g)
}


/// A hub history: one or two :L0 hubs with 3-8 buffered outgoing :R relationships to :L1 spokes
/// (created in shuffled target order), :S relationships among the spokes, then deletes of the
/// first / middle relationships of a hub (and of some incoming ones), more creates, sometimes a
/// spoke delete.  What a point probe (is there a relationship a -> b?) sees after such deletes
/// must not depend on whether the relationships sit in the write buffer or the compacted tier.
fn gen_hub_history(r: &mut Rng, mut g: HistGen) -> (Vec<Op>, HistGen) {
    let mut ops = Vec::new();
    // two thirds of the hub histories have neither parallel relationships nor self-loops, so
    // that no recorded graph-native finding can explain a disagreement on them
    let clean = r.chance(2, 3);
    let n_hubs = r.range(1, 2);
    let n_spokes = r.range(4, 9);
    let mut node = |g: &mut HistGen, ops: &mut Vec<Op>, labels: Vec<usize>, props: Vec<(usize, PV)>| -> i64 {
        let uid = g.next_uid;
        g.next_uid += 1;
        g.live.push(uid);
        ops.push(Op::CreateNode { uid, labels, props });
        uid
    };
    for _ in 0..n_hubs {
        let u = node(&mut g, &mut ops, vec![0], vec![(0, PV::String("h".to_string())), (1, PV::Integer(0))]);
        g.hubs.push(u);
    }
    for _ in 0..n_spokes {
        let labels = if r.chance(1, 4) { vec![1, 2] } else { vec![1] };
        let u = node(&mut g, &mut ops, labels, vec![(0, PV::Integer(r.below(6) as i64))]);
        g.spokes.push(u);
    }
    let mut edge = |g: &mut HistGen, ops: &mut Vec<Op>, src: i64, dst: i64, ty: usize, r: &mut Rng| {
        let eid = g.next_eid;
        g.next_eid += 1;
        g.edges.push((eid, src, dst));
        ops.push(Op::CreateEdge { eid, src, dst, ty, w: PV::Integer(r.below(5) as i64) });
    };
    // hub -> spokes, in shuffled order
    for hi in 0..g.hubs.len() {
        let hub = g.hubs[hi];
        let mut targets = g.spokes.clone();
        for i in (1..targets.len()).rev() {
            let j = r.below(i as u64 + 1) as usize;
            targets.swap(i, j);
        }
        let k = r.range(3, 8).min(targets.len() as u64) as usize;
        for t in targets.into_iter().take(k) {
            edge(&mut g, &mut ops, hub, t, 0, r);
        }
        if !clean && r.chance(1, 2) {
            let t = *r.pick(&g.spokes);
            edge(&mut g, &mut ops, hub, t, 0, r); // a parallel relationship
        }
    }
    // spokes among themselves and back to the hubs
    for _ in 0..r.range(3, 9) {
        let (a, b) = (*r.pick(&g.spokes), *r.pick(&g.spokes));
        if clean && (a == b || g.edges.iter().any(|e| e.1 == a && e.2 == b)) {
            continue;
        }
        edge(&mut g, &mut ops, a, b, 1, r);
    }
    for _ in 0..r.range(0, 4) {
        let (a, b) = (*r.pick(&g.spokes), *r.pick(&g.hubs));
        if clean && g.edges.iter().any(|e| e.1 == a && e.2 == b) {
            continue;
        }
        edge(&mut g, &mut ops, a, b, 0, r);
    }
    // deletes of first / middle entries
    for _ in 0..r.range(1, 3) {
        let hub = *r.pick(&g.hubs);
        let incoming = r.chance(1, 4);
        let mut list: Vec<(i64, i64, i64)> =
            g.edges.iter().filter(|e| if incoming { e.2 == hub } else { e.1 == hub }).cloned().collect();
        list.sort_by_key(|e| if incoming { e.1 } else { e.2 });
        if list.len() >= 3 {
            let pos = if r.chance(1, 2) { 0 } else { r.below(list.len() as u64 - 1) as usize };
            let e = list[pos];
            g.edges.retain(|x| x.0 != e.0);
            g.deletes += 1;
            g.nonlast_deletes += 1;
            ops.push(Op::DeleteEdge { eid: e.0 });
        } else if let Some(e) = list.first().cloned() {
            g.edges.retain(|x| x.0 != e.0);
            g.deletes += 1;
            ops.push(Op::DeleteEdge { eid: e.0 });
        }
    }
    // a few more operations
    for _ in 0..r.range(0, 5) {
        match r.below(5) {
            0 => {
                let (a, b) = (*r.pick(&g.hubs), *r.pick(&g.spokes));
                if !(clean && g.edges.iter().any(|e| e.1 == a && e.2 == b)) {
                    g.creates_after_delete += 1;
                    edge(&mut g, &mut ops, a, b, 0, r);
                }
            }
            1 => {
                let (a, b) = (*r.pick(&g.spokes), *r.pick(&g.spokes));
                if !(clean && (a == b || g.edges.iter().any(|e| e.1 == a && e.2 == b))) {
                    g.creates_after_delete += 1;
                    edge(&mut g, &mut ops, a, b, 1, r);
                }
            }
            2 if g.spokes.len() > 3 => {
                let i = r.below(g.spokes.len() as u64) as usize;
                let uid = g.spokes.remove(i);
                g.live.retain(|x| *x != uid);
                g.edges.retain(|e| e.1 != uid && e.2 != uid);
                g.deletes += 1;
                ops.push(Op::DeleteNode { uid });
            }
            3 => {
                g.retype += 1;
                ops.push(Op::SetProp { uid: *r.pick(&g.spokes), key: 0, val: PV::Integer(r.below(6) as i64) });
            }
            _ => {
                if !g.edges.is_empty() {
                    let i = r.below(g.edges.len() as u64) as usize;
                    let e = g.edges.remove(i);
                    g.deletes += 1;
                    ops.push(Op::DeleteEdge { eid: e.0 });
                }
            }
        }
    }
    (ops, g)
}

#[derive(Default)]
struct Ids {
    nodes: HashMap<i64, NodeId>,
    edges: HashMap<i64, (EdgeId, i64, i64)>,
}

fn apply(store: &mut GraphStore, ids: &mut Ids, op: &Op) {
    match op {
        Op::CreateNode { uid, labels, props } => {
            let mut m = HashMap::new();
            m.insert("uid".to_string(), PV::Integer(*uid));
            for (k, v) in props {
                m.insert(KEYS[*k].to_string(), v.clone());
            }
            let id = store.create_node_with_properties("default", labels.iter().map(|l| Label::new(LABELS[*l])).collect(), m);
            ids.nodes.insert(*uid, id);
        }
        Op::SetProp { uid, key, val } => {
            if let Some(id) = ids.nodes.get(uid) {
                let _ = store.set_node_property("default", *id, KEYS[*key], val.clone());
            }
        }
        Op::RemoveProp { uid, key } => {
            if let Some(id) = ids.nodes.get(uid) {
                store.remove_node_property(*id, KEYS[*key]);
            }
        }
        Op::AddLabel { uid, label } => {
            if let Some(id) = ids.nodes.get(uid) {
                let _ = store.add_label_to_node("default", *id, LABELS[*label]);
            }
        }
        Op::RemoveLabel { uid, label } => {
            if let Some(id) = ids.nodes.get(uid) {
                let _ = store.remove_label_from_node(*id, &Label::new(LABELS[*label]));
            }
        }
        Op::DeleteNode { uid } => {
            if let Some(id) = ids.nodes.remove(uid) {
                let _ = store.delete_node("default", id);
                ids.edges.retain(|_, e| e.1 != *uid && e.2 != *uid);
            }
        }
        Op::CreateEdge { eid, src, dst, ty, w } => {
            if let (Some(s), Some(d)) = (ids.nodes.get(src), ids.nodes.get(dst)) {
                let mut m = HashMap::new();
                m.insert("eid".to_string(), PV::Integer(*eid));
                m.insert("w".to_string(), w.clone());
                if let Ok(id) = store.create_edge_with_properties(*s, *d, TYPES[*ty], m) {
                    ids.edges.insert(*eid, (id, *src, *dst));
                }
            }
        }
        Op::DeleteEdge { eid } => {
            if let Some((id, _, _)) = ids.edges.remove(eid) {
                let _ = store.delete_edge(id);
            }
        }
        Op::SetEdgeProp { eid, w } => {
            if let Some((id, _, _)) = ids.edges.get(eid) {
                let _ = store.set_edge_property(*id, "w", w.clone());
            }
        }
    }
}

fn create_indexes(store: &mut GraphStore) {
    let e = QueryEngine::new();
    for l in LABELS {
        for k in KEYS {
            let _ = e.execute_mut(&format!("CREATE INDEX ON :{}({})", l, k), store, "default");
        }
    }
}

/// index mode: 0 none, 1 created before the data, 2 created after; compaction: 0 never, 1 at
/// the end, 2 in the middle of the history
fn build(ops: &[Op], index_mode: u8, compact_mode: u8) -> (GraphStore, Ids) {
    let mut store = GraphStore::new();
    let mut ids = Ids::default();
    if index_mode == 1 {
        create_indexes(&mut store);
    }
    for (i, op) in ops.iter().enumerate() {
        if compact_mode == 2 && i == ops.len() / 2 {
            store.compact_adjacency();
        }
        apply(&mut store, &mut ids, op);
    }
    if compact_mode == 1 {
        store.compact_adjacency();
    }
    if index_mode == 2 {
        create_indexes(&mut store);
    }
    (store, ids)
}

// ---------- queries ----------
#[derive(Clone)]
struct Query {
    text: String,
    params: HashMap<String, PV>,
    /// (label, key, op, bound) when the query is the single-node comparison the model covers
    model: Option<(usize, usize, IndexOp, PV)>,
    uses_adjacency: bool,
    template: u64,
}

fn lit(v: &PV) -> Option<String> {
    match v {
        PV::Integer(i) if *i != i64::MIN => Some(format!("{}", i)),
        PV::Float(f) if f.is_finite() => Some(format!("{:?}", f)),
        PV::String(s) => Some(format!("'{}'", s)),
        PV::Boolean(b) => Some(format!("{}", b)),
        PV::Array(a) => {
            let parts: Option<Vec<String>> = a.iter().map(lit).collect();
            parts.map(|p| format!("[{}]", p.join(", ")))
        }
        PV::Null => Some("null".to_string()),
        _ => None,
    }
}

const OPS: [(&str, Option<IndexOp>); 6] = [
    ("=", Some(IndexOp::Eq)),
    ("<", Some(IndexOp::Lt)),
    ("<=", Some(IndexOp::Le)),
    (">", Some(IndexOp::Gt)),
    (">=", Some(IndexOp::Ge)),
    ("<>", None),
];

fn flip(op: &str) -> &'static str {
    match op {
        "<" => ">",
        "<=" => ">=",
        ">" => "<",
        ">=" => "<=",
        "=" => "=",
        _ => "<>",
    }
}

fn gen_query(r: &mut Rng, qi: u64, g: &HistGen) -> Query {
    let l = r.below(3) as usize;
    let k = r.below(2) as usize;
    let (ops, oi) = *r.pick(&OPS);
    let bound = if r.chance(1, 12) {
        PV::Null
    } else {
        let mixed = r.chance(2, 3);
        rand_val(r, mixed)
    };
    let mut params = HashMap::new();
    // the bound as a literal, or as a parameter when it has no literal form (or now and then anyway)
    let b = match lit(&bound) {
        Some(s) if !r.chance(1, 6) => s,
        _ => {
            params.insert("p".to_string(), bound.clone());
            "$p".to_string()
        }
    };
    let (ll, kk) = (LABELS[l], KEYS[k]);
    let k2 = KEYS[1 - k];
    let b2 = lit(&rand_val(r, false)).unwrap_or("1".to_string());
    let ty = TYPES[r.below(2) as usize];
    let mut model = None;
    let mut adj = false;
    let hub_hist = !g.hubs.is_empty();
    let t = if hub_hist && qi % 2 == 1 {
        17 + r.below(8)
    } else if qi % 8 == 0 {
        0
    } else {
        let width = if r.chance(1, 6) { 25 } else { 17 };
        r.below(width)
    };
    // two live nodes for the point-probe shapes: in a hub history a hub and a spoke
    let (px, py) = if hub_hist && r.chance(4, 5) {
        (*r.pick(&g.hubs), *r.pick(&g.spokes))
    } else if !g.live.is_empty() {
        (*r.pick(&g.live), *r.pick(&g.live))
    } else {
        (1, 1)
    };
    let text = match t {
        0 | 1 => {
            if let Some(o) = oi {
                if !matches!(bound, PV::Null) {
                    model = Some((l, k, o, bound.clone()));
                }
            }
            format!("MATCH (n:{}) WHERE n.{} {} {} RETURN n.uid AS a", ll, kk, ops, b)
        }
        2 => format!("MATCH (n:{}) WHERE {} {} n.{} RETURN n.uid AS a", ll, b, flip(ops), kk),
        3 => format!("MATCH (n:{} {{{}: {}}}) RETURN n.uid AS a", ll, kk, b),
        4 => format!("MATCH (n:{}) WHERE n.{} {} {} AND n.{} >= {} RETURN n.uid AS a", ll, kk, ops, b, k2, b2),
        5 => {
            adj = true;
            format!("MATCH (n:{})-[r:{}]->(m) WHERE n.{} {} {} RETURN n.uid AS a, r.eid AS b, m.uid AS c", ll, ty, kk, ops, b)
        }
        6 => {
            adj = true;
            format!("MATCH (n)-[r]->(m:{}) WHERE m.{} {} {} RETURN n.uid AS a, r.eid AS b, m.uid AS c", ll, kk, ops, b)
        }
        7 => {
            adj = true;
            format!("MATCH (n:{})-[r]-(m) RETURN n.uid AS a, r.eid AS b, m.uid AS c", ll)
        }
        8 => {
            adj = true;
            "MATCH (a)-[r1]->(b)-[r2]->(c) RETURN a.uid AS a, r1.eid AS b, r2.eid AS c".to_string()
        }
        9 => format!("MATCH (n:{}) WHERE n.{} {} {} RETURN count(*) AS a", ll, kk, ops, b),
        10 => format!("MATCH (n:{}) RETURN n.{} AS a, count(*) AS b", ll, kk),
        11 => format!("MATCH (n:{}:{}) WHERE n.{} {} {} RETURN n.uid AS a", ll, LABELS[(l + 1) % 3], kk, ops, b),
        12 => format!("MATCH (n:{}) WHERE n.{} {} {} OR n.{} = {} RETURN n.uid AS a", ll, kk, ops, b, k2, b2),
        13 => {
            adj = true;
            format!("MATCH (n)-[r:{}]->(m) RETURN count(r) AS a", ty)
        }
        14 => format!("MATCH (n:{}) RETURN count(n) AS a", ll),
        15 => {
            adj = true;
            format!("MATCH (n:{} {{{}: {}}})-[r]->(m:{}) WHERE m.{} >= {} RETURN n.uid AS a, r.w AS b, m.uid AS c", ll, kk, b, LABELS[(l + 2) % 3], k2, b2)
        }
        16 => format!("MATCH (n:{}) WHERE n.{} {} {} RETURN id(n) AS a, n.{} AS b", ll, kk, ops, b, k2),
        // ---- shapes that close a cycle or bind both endpoints before the relationship ----
        17 => {
            adj = true;
            "MATCH (b:L1)-[:S]->(c:L1), (a:L0)-[:R]->(b), (a)-[:R]->(c) WHERE a.x = 'h' AND c.x >= 0 RETURN a.uid AS a, b.uid AS b, c.uid AS c".to_string()
        }
        18 => {
            adj = true;
            "MATCH (a:L0)-[:R]->(b), (a)-[:R]->(c), (b)-[:S]->(c) RETURN a.uid AS a, b.uid AS b, c.uid AS c".to_string()
        }
        19 => {
            adj = true;
            "MATCH (a:L0), (b:L1) MATCH (a)-[r:R]->(b) RETURN a.uid AS a, r.eid AS b, b.uid AS c".to_string()
        }
        20 => {
            adj = true;
            format!("MATCH (a {{uid: {}}}), (b {{uid: {}}}) MATCH (a)-[r]->(b) RETURN r.eid AS a", px, py)
        }
        21 => {
            adj = true;
            "MATCH (a:L0)-[:R]->(b)-[:S]->(c)<-[:R]-(a) RETURN a.uid AS a, b.uid AS b, c.uid AS c".to_string()
        }
        22 => {
            adj = true;
            format!(
                "MATCH (a:L0)-[:R]->(b) MATCH (c:L1)-[:S]->(b) MATCH (a)-[:R]->(c) WHERE c.x {} {} RETURN a.uid AS a, b.uid AS b, c.uid AS c",
                if r.chance(1, 2) { ">=" } else { "<" },
                r.below(5)
            )
        }
        23 => {
            adj = true;
            format!("MATCH (a {{uid: {}}})-[r:R]->(b {{uid: {}}}) RETURN count(r) AS a", px, py)
        }
        _ => {
            adj = true;
            "MATCH (a:L0)-[:R]->(b), (b)-[:R]->(a) RETURN a.uid AS a, b.uid AS b".to_string()
        }
    };
    Query { text, params, model, uses_adjacency: adj, template: t }
}

fn exec(store: &GraphStore, q: &Query, native: bool, parallel: bool) -> Result<Vec<String>, String> {
    std::env::set_var("SAMYAMA_GRAPH_NATIVE", if native { "true" } else { "false" });
    std::env::set_var("SAMYAMA_FILTER_PARALLEL_COST", if parallel { "0" } else { "1000000000" });
    let r = catch(std::panic::AssertUnwindSafe(|| -> Result<_, String> {
        if q.params.is_empty() {
            // the public entry point; it reads SAMYAMA_GRAPH_NATIVE itself
            QueryEngine::new().execute(&q.text, store).map_err(|e| e.to_string())
        } else {
            let parsed = parse_query(&q.text).map_err(|e| e.to_string())?;
            let ex = if native {
                QueryExecutor::with_planner(store, QueryPlanner::with_config(PlannerConfig { graph_native: true, max_candidate_plans: 64 }))
            } else {
                QueryExecutor::new(store)
            };
            ex.with_params(q.params.clone()).execute(&parsed).map_err(|e| e.to_string())
        }
    }));
    match r {
        Err(p) => Err(format!("PANIC {}", p)),
        Ok(Err(e)) => Err(format!("ERR {}", e)),
        Ok(Ok(b)) => {
            let mut v: Vec<String> = b
                .records
                .iter()
                .map(|rec| b.columns.iter().map(|c| format!("{:?}", rec.get(c))).collect::<Vec<_>>().join(" | "))
                .collect();
            v.sort();
            Ok(v)
        }
    }
}

fn digest(r: &Result<Vec<String>, String>) -> String {
    match r {
        Ok(v) => format!("OK[{}]", v.join(" ; ")),
        // an error class, not its message
        Err(e) => format!("E:{}", e.split(':').next().unwrap_or("")),
    }
}

fn uid_of(store: &GraphStore, id: NodeId) -> Option<i64> {
    store.get_node(id).and_then(|n| n.get_property("uid").and_then(|v| v.as_integer()))
}

fn uids_of_rows(r: &Result<Vec<String>, String>) -> Option<Vec<u64>> {
    // rows look like `Some(Property(Integer(7)))`
    let v = r.as_ref().ok()?;
    let mut out = Vec::new();
    for row in v {
        let s = row.strip_prefix("Some(Property(Integer(")?.strip_suffix(")))")?;
        out.push(s.parse::<u64>().ok()?);
    }
    Some(out)
}

fn g_iop(o: IndexOp) -> &'static str {
    match o {
        IndexOp::Eq => "OEq",
        IndexOp::Lt => "OLt",
        IndexOp::Le => "OLe",
        IndexOp::Gt => "OGt",
        IndexOp::Ge => "OGe",
    }
}

/// Known findings of the graph-native planner (known_findings.txt), by query shape; they apply
/// only when the 18 legacy-planner configurations agree with one another.
fn native_class(template: u64) -> Option<&'static str> {
    match template {
        11 => Some("native_multi_label"),
        7 => Some("native_undirected"),
        8 => Some("native_rel_uniqueness"),
        5 | 6 | 15 => Some("native_expand_label"),
        _ => None,
    }
}

const CONFIGS: usize = 36;
fn config_name(i: usize) -> String {
    let (im, cm, nat, par) = (i / 12, (i / 4) % 3, (i / 2) % 2, i % 2);
    format!(
        "{}/{}/{}/{}",
        ["no-index", "index-before", "index-after"][im],
        ["uncompacted", "compacted-at-end", "compacted-midway"][cm],
        ["legacy", "graph-native"][nat],
        ["sequential-filter", "parallel-filter"][par]
    )
}

/// The stored witnesses of the known findings: (class, setup statements, query).  On each the
/// legacy planner and the graph-native planner are run on the same store.
fn witnesses() -> Vec<(&'static str, Vec<&'static str>, &'static str)> {
    vec![
        (
            "native_multi_label",
            vec!["CREATE (:L0 {uid: 1})", "CREATE (:L0:L1 {uid: 2})"],
            "MATCH (n:L0:L1) RETURN n.uid AS a",
        ),
        (
            "native_undirected",
            vec!["CREATE (:L1 {uid: 1})-[:R {eid: 1}]->(:L1 {uid: 2})"],
            "MATCH (n:L1)-[r]-(m) RETURN n.uid AS a, r.eid AS b, m.uid AS c",
        ),
        (
            "native_rel_uniqueness",
            vec!["CREATE (:L0 {uid: 1})", "MATCH (a {uid: 1}) CREATE (a)-[:R {eid: 1}]->(a)"],
            "MATCH (a)-[r1]->(b)-[r2]->(c) RETURN a.uid AS a, r1.eid AS b, r2.eid AS c",
        ),
        (
            "native_expand_into_parallel",
            vec![
                "CREATE (:L0 {uid: 1})",
                "CREATE (:L1 {uid: 2})",
                "MATCH (a {uid: 1}), (b {uid: 2}) CREATE (a)-[:R {eid: 1}]->(b)",
                "MATCH (a {uid: 1}), (b {uid: 2}) CREATE (b)-[:R {eid: 2}]->(a)",
                "MATCH (a {uid: 1}), (b {uid: 2}) CREATE (b)-[:R {eid: 3}]->(a)",
            ],
            "MATCH (a:L0)-[:R]->(b), (b)-[:R]->(a) RETURN a.uid AS a, b.uid AS b",
        ),
        (
            "native_expand_label",
            vec![
                "CREATE (:L1 {uid: 1})",
                "CREATE (:L0 {uid: 2})",
                "CREATE (:L0 {uid: 3})",
                "CREATE (:L0 {uid: 4})",
                "MATCH (a {uid: 1}) CREATE (a)-[:R {eid: 1}]->(a)",
            ],
            "MATCH (n:L1)-[r]->(m:L0) RETURN n.uid AS a, r.eid AS b, m.uid AS c",
        ),
    ]
}

fn replay_witness(setup: &[&str], query: &str) -> (String, String) {
    let mut store = GraphStore::new();
    let e = QueryEngine::new();
    for s in setup {
        let _ = e.execute_mut(s, &mut store, "default");
    }
    let q = Query { text: query.to_string(), params: HashMap::new(), model: None, uses_adjacency: true, template: 0 };
    (digest(&exec(&store, &q, false, false)), digest(&exec(&store, &q, true, false)))
}

fn main() {
    let args = parse_args();
    quiet_panics();
    if std::env::var("C02_PROBE").is_ok() {
        for (class, setup, query) in witnesses() {
            let (l, n) = replay_witness(&setup, query);
            println!("{}: {}\n   legacy {}\n   native {}", class, query, l, n);
        }
        return;
    }
    let child_out = std::env::var("C02_CHILD_OUT").ok();
    let mut out = Out::new(&args, "From Verif Require Import Value Index.", "Index.case", "Index.check_case", 60);
    out.rule = "random histories (6-40 operations: node/relationship creates, property sets with type changes, property and \
                label removals, node and relationship deletes followed by creates that reuse ids) replayed into 9 stores \
                {no index, indexes before the data, indexes after the data} x {never compacted, compacted at the end, compacted \
                midway}; 8 generated read queries per history (single-node comparisons with literal or parameter bounds of every \
                type, reversed operands, inline properties, conjunctions, OR, multi-label, expansions in both directions, \
                two-hop, aggregates, id()) each run on every store under {legacy, graph-native} x {parallel filter on, off}: \
                36 bags per query must be equal, and equal to the bag a child process computes; 2/5 of the histories are hub histories \
                (3-8 buffered out-relationships per hub in shuffled target order, deletes of first/middle entries, 2/3 of them free \
                of parallel relationships and self-loops) whose queries half the time close a cycle or bind both endpoints first \
                (triangles, MATCH (a),(b) MATCH (a)-[r]->(b), point probes), followed by a relationship MERGE on all nine twin \
                stores with the relationship counts compared; for the single-node comparisons \
                the labelled nodes, both answers and PropertyIndex::candidates are checked against the model. Non-trivial = at \
                least one configuration returned a row; distinct by (history, query)."
        .to_string();
    let n_hist = if args.thorough { 2500 } else { 150 };
    let per_hist = 8u64;
    // 8 read queries + 1 relationship-MERGE case
    let cases_per_hist = per_hist + 1;
    let mut child_lines: Vec<String> = Vec::new();
    let mut parent_digests: BTreeMap<(u64, u64), String> = BTreeMap::new();

    for h in 0..n_hist {
        let mut r = Rng::for_case(args.seed, h);
        let (ops, g) = gen_history(&mut r);
        let queries: Vec<Query> = (0..per_hist).map(|qi| gen_query(&mut r, qi, &g)).collect();
        if let Some(_) = &child_out {
            // child: one configuration only (index-before, compacted-at-end, legacy, sequential)
            let (store, _) = build(&ops, 1, 1);
            for (qi, q) in queries.iter().enumerate() {
                child_lines.push(format!("{}\t{}\t{}", h, qi, digest(&exec(&store, q, false, false))));
            }
            continue;
        }
        let base = out.next_index();
        let wanted: Vec<bool> = (0..cases_per_hist).map(|qi| out.wants(base + qi)).collect();
        if !wanted.iter().any(|w| *w) {
            for _ in 0..cases_per_hist {
                out.skip();
            }
            continue;
        }
        let mut stores: Vec<(GraphStore, Ids)> = (0..9).map(|i| build(&ops, (i / 3) as u8, (i % 3) as u8)).collect();
        out.count("histories");
        if !g.hubs.is_empty() {
            out.count("histories_hub");
        }
        if g.nonlast_deletes > 0 {
            out.count("histories_hub_nonlast_delete");
        }
        if g.deletes > 0 {
            out.count("histories_with_delete");
        }
        if g.creates_after_delete > 0 {
            out.count("histories_with_id_reuse");
        }
        if g.retype > 0 {
            out.count("histories_with_property_change");
        }
        let hist_text = format!("{:?}", ops);
        let has_loop = g.edges.iter().any(|e| e.1 == e.2);
        let has_parallel = g.edges.iter().enumerate().any(|(i, e)| g.edges[..i].iter().any(|f| f.1 == e.1 && f.2 == e.2));
        if !g.hubs.is_empty() && !has_loop && !has_parallel {
            out.count("histories_hub_clean");
            if g.nonlast_deletes > 0 {
                out.count("histories_hub_clean_nonlast_delete");
            }
        }
        for (qi, q) in queries.iter().enumerate() {
            if !wanted[qi] {
                out.skip();
                continue;
            }
            let mut results: Vec<Result<Vec<String>, String>> = Vec::with_capacity(CONFIGS);
            for c in 0..CONFIGS {
                let (im, cm, nat, par) = (c / 12, (c / 4) % 3, (c / 2) % 2 == 1, c % 2 == 1);
                results.push(exec(&stores[im * 3 + cm].0, q, nat, par));
            }
            out.count_n("executions", CONFIGS as u64);
            let d0 = digest(&results[0]);
            parent_digests.insert((h, qi as u64), digest(&results[12 + 4]));
            let bad = (1..CONFIGS).find(|c| digest(&results[*c]) != d0);
            let nonempty = results.iter().any(|r| matches!(r, Ok(v) if !v.is_empty()));
            match &results[0] {
                Ok(v) if !v.is_empty() => out.count("queries_with_rows"),
                Ok(_) => out.count("queries_empty"),
                Err(_) => out.count("queries_error"),
            }
            if q.uses_adjacency {
                out.count("queries_over_relationships");
            }
            if !q.params.is_empty() {
                out.count("queries_with_parameter_bound");
            }
            let human = format!("history={} query={} params={:?}", hist_text, q.text, q.params.iter().map(|(k, v)| (k, h_pv(v))).collect::<Vec<_>>());
            // the model case
            let gal = if let Some((l, k, op, bound)) = &q.model {
                out.count("model_cases");
                let plain = &stores[0].0;
                let label = Label::new(LABELS[*l]);
                let mut ns: Vec<(i64, Option<PV>)> = plain
                    .get_nodes_by_label(&label)
                    .iter()
                    .filter_map(|n| n.get_property("uid").and_then(|u| u.as_integer()).map(|u| (u, n.get_property(KEYS[*k]).cloned())))
                    .collect();
                ns.sort_by_key(|x| x.0);
                let kinds: std::collections::BTreeSet<&'static str> =
                    ns.iter().filter_map(|x| x.1.as_ref().map(|v| v.type_name())).collect();
                if kinds.len() > 1 {
                    out.count("model_cases_mixed_types");
                }
                let after = &stores[6].0;
                let cand: Vec<u64> = after
                    .property_index
                    .get_index(&label, KEYS[*k])
                    .map(|ix| ix.read().unwrap().candidates(*op, bound))
                    .unwrap_or_default()
                    .into_iter()
                    .filter_map(|id| uid_of(after, id).map(|u| u as u64))
                    .collect();
                if cand.len() < ns.iter().filter(|x| x.1.is_some()).count() {
                    out.count("model_cases_index_narrowed");
                }
                let got_plain = uids_of_rows(&results[0]);
                let got_indexed = uids_of_rows(&results[12]);
                match (got_plain, got_indexed) {
                    (Some(a), Some(b)) => format!(
                        "({}, {}, {}, {}, {}, {})",
                        g_list(ns.iter().map(|(u, v)| format!("({}, {})", u, g_opt(v.as_ref().map(|v| format!("({})", g_pv(v))))))),
                        g_iop(*op),
                        g_pv(bound),
                        g_list(a.iter().map(|x| x.to_string())),
                        g_list(b.iter().map(|x| x.to_string())),
                        g_list(cand.iter().map(|x| x.to_string()))
                    ),
                    // an error on this path is reported by the metamorphic comparison; the model gets a trivial case
                    _ => "([], OEq, PNull, [], [], [])".to_string(),
                }
            } else {
                "([], OEq, PNull, [], [], [])".to_string()
            };
            let i = out.case(gal, human.clone(), nonempty);
            if std::env::var("C02_SHOW").ok().and_then(|s| s.parse::<u64>().ok()) == Some(i) {
                eprintln!("{}", human);
                for c in 0..CONFIGS {
                    eprintln!("  {:70} {}", config_name(c), digest(&results[c]));
                }
            }
            if q.template >= 17 && !has_loop && !has_parallel {
                out.count("queries_cycle_shapes_on_clean_graph");
            }
            if q.template >= 17 {
                out.count("queries_cycle_shapes");
                if nonempty {
                    out.count("queries_cycle_shapes_with_rows");
                }
            }
            if let Some(c) = bad {
                // configurations c with (c / 2) % 2 == 0 use the legacy planner
                let legacy_agree = (0..CONFIGS).filter(|c| (c / 2) % 2 == 0).all(|c| digest(&results[c]) == d0);
                let dn = digest(&results[2]);
                let native_agree = (0..CONFIGS).filter(|c| (c / 2) % 2 == 1).all(|c| digest(&results[c]) == dn);
                // a recorded graph-native finding explains a disagreement only when the legacy
                // configurations agree; for the cycle-closing shapes additionally only when the
                // graph-native configurations agree with one another (index / tier / parallel
                // dependence inside one planner is never a known finding there)
                let class = if !legacy_agree {
                    None
                } else if q.template >= 17 {
                    // ExpandInto looks at the first relationship between a bound pair only:
                    // with parallel relationships it loses multiplicity and, together with
                    // relationship uniqueness, its answer follows the order of the adjacency
                    // list; a self-loop lets one relationship serve two pattern relationships.
                    // Without either in the final graph nothing recorded explains a difference.
                    if has_parallel {
                        Some("native_expand_into_parallel")
                    } else if has_loop && native_agree {
                        Some("native_rel_uniqueness")
                    } else {
                        None
                    }
                } else {
                    native_class(q.template)
                };
                if let Some(cl) = class {
                    out.count(&format!("known_{}", cl));
                }
                let c = if !legacy_agree {
                    (0..CONFIGS).find(|c| (c / 2) % 2 == 0 && digest(&results[*c]) != d0).unwrap_or(c)
                } else if !native_agree {
                    (0..CONFIGS).find(|c| (c / 2) % 2 == 1 && digest(&results[*c]) != dn).unwrap_or(c)
                } else {
                    c
                };
                let (ref_c, ref_d) = if legacy_agree && !native_agree { (2, dn.clone()) } else { (0, d0.clone()) };
                out.fail(
                    i,
                    &human,
                    &format!(
                        "result depends on configuration (query shape {}, legacy configurations {}, graph-native configurations {}): {} -> {} but {} -> {}",
                        q.template,
                        if legacy_agree { "all agree" } else { "disagree" },
                        if native_agree { "all agree" } else { "disagree" },
                        config_name(ref_c),
                        ref_d,
                        config_name(c),
                        digest(&results[c])
                    ),
                    class,
                );
            } else if let Err(e) = &results[0] {
                if e.starts_with("PANIC") {
                    out.fail(i, &human, &format!("the engine panicked in every configuration: {}", e), None);
                }
            }
        }
        // ---- relationship MERGE on the twin stores: it must find an existing relationship
        // (and so create none) or create exactly one, the same in every store ----
        if !wanted[per_hist as usize] {
            out.skip();
            continue;
        }
        let mut pairs: Vec<(i64, i64)> = Vec::new();
        let hub_edges: Vec<(i64, i64, i64)> = g.edges.iter().filter(|e| g.hubs.contains(&e.1) && g.spokes.contains(&e.2)).cloned().collect();
        for _ in 0..2 {
            if !hub_edges.is_empty() {
                let e = r.pick(&hub_edges);
                pairs.push((e.1, e.2));
            } else if !g.edges.is_empty() {
                let e = r.pick(&g.edges);
                pairs.push((e.1, e.2));
            }
        }
        if !g.live.is_empty() {
            pairs.push((*r.pick(&g.live), *r.pick(&g.live)));
            if !g.hubs.is_empty() && !g.spokes.is_empty() {
                pairs.push((*r.pick(&g.hubs), *r.pick(&g.spokes)));
            }
        }
        let engine = QueryEngine::new();
        let mut merge_digests: Vec<String> = Vec::new();
        for (store, _) in stores.iter_mut() {
            let mut d = String::new();
            for (x, y) in &pairs {
                let stmt = format!("MATCH (a {{uid: {}}}), (b {{uid: {}}}) MERGE (a)-[r:R]->(b)", x, y);
                let res = catch(std::panic::AssertUnwindSafe(|| engine.execute_mut(&stmt, store, "default").map(|_| ()).map_err(|e| e.to_string())));
                d.push_str(match &res {
                    Ok(Ok(())) => "ok ",
                    Ok(Err(_)) => "err ",
                    Err(_) => "PANIC ",
                });
                let cnt = Query {
                    text: format!("MATCH (a {{uid: {}}})-[r:R]->(b {{uid: {}}}) RETURN count(r) AS a", x, y),
                    params: HashMap::new(),
                    model: None,
                    uses_adjacency: true,
                    template: 23,
                };
                d.push_str(&digest(&exec(store, &cnt, false, false)));
                d.push(' ');
            }
            let total = Query { text: "MATCH ()-[r]->() RETURN count(r) AS a".to_string(), params: HashMap::new(), model: None, uses_adjacency: true, template: 13 };
            d.push_str(&digest(&exec(store, &total, false, false)));
            merge_digests.push(d);
        }
        out.count("merge_cases");
        out.count_n("merge_statements", (pairs.len() * 9) as u64);
        if !hub_edges.is_empty() {
            out.count("merge_on_existing_hub_relationship");
        }
        let human = format!("history={} then MERGE (a)-[:R]->(b) for (a.uid, b.uid) in {:?}", hist_text, pairs);
        let i = out.case("([], OEq, PNull, [], [], [])".to_string(), human.clone(), !pairs.is_empty());
        if let Some(c) = (1..9).find(|c| merge_digests[*c] != merge_digests[0]) {
            let name = |k: usize| format!("{}/{}", ["no-index", "index-before", "index-after"][k / 3], ["uncompacted", "compacted-at-end", "compacted-midway"][k % 3]);
            out.fail(
                i,
                &human,
                &format!(
                    "relationship MERGE depends on configuration (per pair: outcome, relationships a->b afterwards; then total relationships): {} -> {} but {} -> {}",
                    name(0),
                    merge_digests[0],
                    name(c),
                    merge_digests[c]
                ),
                None,
            );
        }
    }

    if let Some(p) = child_out {
        std::fs::write(p, child_lines.join("\n")).expect("child out");
        return;
    }
    // second process: same seed, fresh hash seeds
    if args.only.is_none() {
        let tmp = args.out.join("child.txt");
        let st = std::process::Command::new(std::env::current_exe().unwrap())
            .args(["--seed", &args.seed.to_string(), "--tier", if args.thorough { "thorough" } else { "quick" }, "--out"])
            .arg(args.out.join("child"))
            .env("C02_CHILD_OUT", &tmp)
            .status();
        let mut compared = 0u64;
        match (st, std::fs::read_to_string(&tmp)) {
            (Ok(s), Ok(text)) if s.success() => {
                for line in text.lines() {
                    let mut it = line.splitn(3, '\t');
                    let (h, qi, d) = (it.next().unwrap().parse::<u64>().unwrap(), it.next().unwrap().parse::<u64>().unwrap(), it.next().unwrap_or(""));
                    if let Some(pd) = parent_digests.get(&(h, qi)) {
                        compared += 1;
                        if pd != d {
                            let idx = h * cases_per_hist + qi;
                            out.fail(idx, &format!("history {} query {}", h, qi), &format!("a second process returned a different bag: {} vs {}", pd, d), None);
                        }
                    }
                }
            }
            _ => out.notes.push("child process did not run".to_string()),
        }
        out.count_n("compared_with_second_process", compared);
        let _ = std::fs::remove_file(&tmp);
        let _ = std::fs::remove_dir_all(args.out.join("child"));
    }
    for (class, setup, query) in witnesses() {
        let (legacy, native) = replay_witness(&setup, query);
        out.known.push(KnownReplay {
            class: class.to_string(),
            still_fails: legacy != native,
            detail: format!("{:?} then `{}`: legacy planner {}, graph-native planner {}", setup, query, legacy, native),
        });
    }
    out.finish();
}
