//! Shared by c16 (PersistenceManager under crashes) and c32 (GraphStateMachine replicas):
//! value pools, the operation type, generators, Gallina printers, canonical views of what
//! `recover` returns and the reference oracle (the property's own predicate).
#![allow(dead_code)]
use samyama::graph::{Edge, EdgeId, EdgeType, Label, Node, NodeId, PropertyMap, PropertyValue};
use samyama::persistence::{PersistenceManager, ResourceQuotas};
use std::collections::BTreeMap;
use vh::*;

pub const TENANTS: [&str; 3] = ["default", "t1", "acme"];
pub const LABELS: [&str; 4] = ["", "Person", "City", "X"];
pub const TYPES: [&str; 3] = ["KNOWS", "LIVES_IN", ""];
pub const KEYS: [&str; 3] = ["name", "age", "k"];

pub fn value(i: usize) -> PropertyValue {
    match i {
        0 => PropertyValue::String("a".to_string()),
        1 => PropertyValue::Integer(1),
        2 => PropertyValue::Integer(2),
        3 => PropertyValue::Boolean(true),
        4 => PropertyValue::Float(1.5),
        _ => PropertyValue::String(String::new()),
    }
}
pub const NVALUES: usize = 6;

pub type Props = Vec<(usize, usize)>; // (key index, value index), sorted by key, keys distinct

pub fn prop_map(p: &Props) -> PropertyMap {
    let mut m = PropertyMap::new();
    for (k, v) in p {
        m.insert(KEYS[*k].to_string(), value(*v));
    }
    m
}

#[derive(Clone, Debug)]
pub enum Op {
    CreateNode { t: usize, id: u64, labels: Vec<usize>, props: Props },
    CreateEdge { t: usize, id: u64, src: u64, tgt: u64, ty: usize, props: Props },
    DeleteNode { t: usize, id: u64 },
    DeleteEdge { t: usize, id: u64 },
    UpdateNode { t: usize, id: u64, props: Props },
    UpdateEdge { t: usize, id: u64, props: Props },
    /// drop the manager, open a new one on the same directory, register these tenants
    /// (tenant, max_nodes, max_edges), recover every persisted tenant as main.rs does
    Reopen { regs: Vec<(usize, Option<usize>, Option<usize>)> },
}

pub fn quotas(n: Option<usize>, e: Option<usize>) -> ResourceQuotas {
    let mut q = ResourceQuotas::unlimited();
    q.max_nodes = n;
    q.max_edges = e;
    q
}

pub fn register(pm: &PersistenceManager, regs: &[(usize, Option<usize>, Option<usize>)]) {
    for (t, n, e) in regs {
        let _ = pm.tenants().create_tenant(TENANTS[*t].to_string(), TENANTS[*t].to_string(), Some(quotas(*n, *e)));
    }
}

pub fn build_node(id: u64, labels: &[usize], props: &Props) -> Node {
    let mut n = Node::with_labels(NodeId::new(id), labels.iter().map(|l| Label::new(LABELS[*l])));
    n.properties = prop_map(props);
    n
}
pub fn build_edge(id: u64, src: u64, tgt: u64, ty: usize, props: &Props) -> Edge {
    let mut e = Edge::new(EdgeId::new(id), NodeId::new(src), NodeId::new(tgt), EdgeType::new(TYPES[ty]));
    e.properties = prop_map(props);
    e
}

// ---------- canonical views ----------
pub type NVal = (Vec<usize>, Props);
pub type EVal = (u64, u64, usize, Props);
pub type View = (Vec<(u64, NVal)>, Vec<(u64, EVal)>);

fn idx_of<T: PartialEq>(pool: impl Iterator<Item = T>, x: &T) -> usize {
    for (i, y) in pool.enumerate() {
        if &y == x {
            return i;
        }
    }
    999
}
pub fn canon_props(m: &PropertyMap) -> Props {
    let mut p: Props = m
        .iter()
        .map(|(k, v)| (idx_of(KEYS.iter().map(|s| s.to_string()), k), idx_of((0..NVALUES).map(value), v)))
        .collect();
    p.sort();
    p
}
pub fn canon_view(nodes: &[Node], edges: &[Edge]) -> View {
    let mut ns: Vec<(u64, NVal)> = nodes
        .iter()
        .map(|n| {
            let mut ls: Vec<usize> = n.labels.iter().map(|l| idx_of(LABELS.iter().map(|s| s.to_string()), &l.as_str().to_string())).collect();
            ls.sort();
            ls.dedup();
            (n.id.as_u64(), (ls, canon_props(&n.properties)))
        })
        .collect();
    ns.sort();
    let mut es: Vec<(u64, EVal)> = edges
        .iter()
        .map(|e| {
            (
                e.id.as_u64(),
                (e.source.as_u64(), e.target.as_u64(), idx_of(TYPES.iter().map(|s| s.to_string()), &e.edge_type.as_str().to_string()), canon_props(&e.properties)),
            )
        })
        .collect();
    es.sort();
    (ns, es)
}

/// recover every tenant of the pool on this manager: None = recover returned an error
pub fn recover_all(pm: &PersistenceManager) -> Vec<(usize, Result<View, String>)> {
    (0..TENANTS.len())
        .map(|t| match pm.recover(TENANTS[t]) {
            Ok((n, e)) => (t, Ok(canon_view(&n, &e))),
            Err(e) => (t, Err(e.to_string())),
        })
        .collect()
}

// ---------- reference oracle: the effect of acknowledged operations ----------
#[derive(Clone, Debug, PartialEq, Default)]
pub struct Graph {
    pub nodes: BTreeMap<(usize, u64), NVal>,
    pub edges: BTreeMap<(usize, u64), EVal>,
}
impl Graph {
    pub fn apply(&mut self, op: &Op) {
        match op {
            Op::CreateNode { t, id, labels, props } => {
                let mut ls = labels.clone();
                ls.sort();
                ls.dedup();
                self.nodes.insert((*t, *id), (ls, props.clone()));
            }
            Op::CreateEdge { t, id, src, tgt, ty, props } => {
                self.edges.insert((*t, *id), (*src, *tgt, *ty, props.clone()));
            }
            Op::DeleteNode { t, id } => {
                self.nodes.remove(&(*t, *id));
            }
            Op::DeleteEdge { t, id } => {
                self.edges.remove(&(*t, *id));
            }
            Op::UpdateNode { t, id, props } => {
                if let Some(v) = self.nodes.get_mut(&(*t, *id)) {
                    v.1 = props.clone();
                }
            }
            Op::UpdateEdge { t, id, props } => {
                if let Some(v) = self.edges.get_mut(&(*t, *id)) {
                    v.3 = props.clone();
                }
            }
            Op::Reopen { .. } => {}
        }
    }
    pub fn view(&self, t: usize) -> View {
        (
            self.nodes.iter().filter(|(k, _)| k.0 == t).map(|(k, v)| (k.1, v.clone())).collect(),
            self.edges.iter().filter(|(k, _)| k.0 == t).map(|(k, v)| (k.1, v.clone())).collect(),
        )
    }
}

// ---------- Gallina ----------
pub fn g_props(p: &Props) -> String {
    g_list(p.iter().map(|(k, v)| format!("({}, {})", k, v)))
}
pub fn g_labels(l: &[usize]) -> String {
    let mut ls = l.to_vec();
    ls.sort();
    ls.dedup();
    g_list(ls.iter().map(|x| x.to_string()))
}
pub fn g_optn(o: Option<usize>) -> String {
    g_opt(o.map(|x| x.to_string()))
}
pub fn g_regs(r: &[(usize, Option<usize>, Option<usize>)]) -> String {
    g_list(r.iter().map(|(t, n, e)| format!("({}, ({}, {}))", t, g_optn(*n), g_optn(*e))))
}
pub fn g_pop(op: &Op) -> String {
    match op {
        Op::CreateNode { t, id, labels, props } => format!("CreateNode {} {} {} {}", t, id, g_labels(labels), g_props(props)),
        Op::CreateEdge { t, id, src, tgt, ty, props } => format!("CreateEdge {} {} {} {} {} {}", t, id, src, tgt, ty, g_props(props)),
        Op::DeleteNode { t, id } => format!("DeleteNode {} {}", t, id),
        Op::DeleteEdge { t, id } => format!("DeleteEdge {} {}", t, id),
        Op::UpdateNode { t, id, props } => format!("UpdateNode {} {} {}", t, id, g_props(props)),
        Op::UpdateEdge { t, id, props } => format!("UpdateEdge {} {} {}", t, id, g_props(props)),
        Op::Reopen { regs } => format!("Reopen {}", g_regs(regs)),
    }
}
pub fn g_view(v: &View) -> String {
    format!(
        "({}, {})",
        g_list(v.0.iter().map(|(id, (ls, p))| format!("({}, ({}, {}))", id, g_list(ls.iter().map(|x| x.to_string())), g_props(p)))),
        g_list(v.1.iter().map(|(id, (a, b, ty, p))| format!("({}, ({}, {}, {}, {}))", id, a, b, ty, g_props(p))))
    )
}

// ---------- generators ----------
pub fn gen_props(r: &mut Rng) -> Props {
    let mut p = Vec::new();
    for k in 0..KEYS.len() {
        if r.chance(2, 5) {
            p.push((k, r.below(NVALUES as u64) as usize));
        }
    }
    p
}
pub fn gen_regs(r: &mut Rng) -> Vec<(usize, Option<usize>, Option<usize>)> {
    let mut v = Vec::new();
    for t in 1..TENANTS.len() {
        if r.chance(2, 3) {
            let q = |r: &mut Rng| if r.chance(1, 2) { None } else { Some(r.range(1, 3) as usize) };
            let a = q(r);
            let b = q(r);
            v.push((t, a, b));
        }
    }
    v
}
/// one operation; ids from a small range so that overwrites, deletions of present entities and
/// updates of present entities are frequent
pub fn gen_op(r: &mut Rng, allow_reopen: bool) -> Op {
    let t = if r.chance(1, 2) { 0 } else { r.below(TENANTS.len() as u64) as usize };
    let id = r.range(1, 4);
    match r.below(if allow_reopen { 12 } else { 11 }) {
        0 | 1 | 2 => {
            let nl = r.below(3);
            let labels = (0..nl).map(|_| r.below(LABELS.len() as u64) as usize).collect();
            Op::CreateNode { t, id, labels, props: gen_props(r) }
        }
        3 | 4 => Op::CreateEdge { t, id, src: r.range(1, 5), tgt: r.range(1, 5), ty: r.below(TYPES.len() as u64) as usize, props: gen_props(r) },
        5 => Op::DeleteNode { t, id },
        6 => Op::DeleteEdge { t, id },
        7 | 8 => Op::UpdateNode { t, id, props: gen_props(r) },
        9 | 10 => Op::UpdateEdge { t, id, props: gen_props(r) },
        _ => Op::Reopen { regs: gen_regs(r) },
    }
}
