//! C30 — the column store behaves as a map. Drives samyama's ColumnStore through its public API
//! (set_property, remove_property, clear_row, get_property, get_property_keys, get_column).
use samyama::graph::storage::columnar::ColumnStore;
use samyama::graph::PropertyValue;
use std::collections::{BTreeMap, BTreeSet};
use std::panic::AssertUnwindSafe;
use vh::*;

const MAXU: u64 = u64::MAX;

#[derive(Clone, Debug, PartialEq)]
enum V {
    Int(i64),
    Float(u64),
    Str(u64),
    Bool(bool),
    Other(u64),
    Null,
}

impl V {
    fn kind(&self) -> u8 {
        match self {
            V::Int(_) => 0,
            V::Float(_) => 1,
            V::Str(_) => 2,
            V::Bool(_) => 3,
            _ => 4,
        }
    }
    fn to_pv(&self) -> PropertyValue {
        match self {
            V::Int(i) => PropertyValue::Integer(*i),
            V::Float(b) => PropertyValue::Float(f64::from_bits(*b)),
            V::Str(0) => PropertyValue::String(String::new()),
            V::Str(n) => PropertyValue::String(format!("s{}", n)),
            V::Bool(b) => PropertyValue::Boolean(*b),
            V::Other(x) => PropertyValue::DateTime(*x as i64),
            V::Null => PropertyValue::Null,
        }
    }
    fn from_pv(p: &PropertyValue) -> Option<V> {
        Some(match p {
            PropertyValue::Integer(i) => V::Int(*i),
            PropertyValue::Float(f) => V::Float(f.to_bits()),
            PropertyValue::String(s) if s.is_empty() => V::Str(0),
            PropertyValue::String(s) => V::Str(s.strip_prefix('s')?.parse().ok()?),
            PropertyValue::Boolean(b) => V::Bool(*b),
            PropertyValue::DateTime(x) => V::Other(*x as u64),
            PropertyValue::Null => V::Null,
            _ => return None,
        })
    }
    fn g(&self) -> String {
        match self {
            V::Int(i) => format!("(PInt {})", g_z(*i as i128)),
            V::Float(b) => format!("(PFloat {})", b),
            V::Str(n) => format!("(PStr {})", n),
            V::Bool(b) => format!("(PBool {})", g_bool(*b)),
            V::Other(x) => format!("(POther {})", x),
            V::Null => "PNull".to_string(),
        }
    }
}

#[derive(Clone, Debug)]
enum Op {
    Set(u64, u64, V),
    Remove(u64, u64),
    Clear(u64),
}

#[derive(Clone, Debug)]
enum Mop {
    One(Op),
    Fill { k: u64, start: u64, count: u64, stride: u64, vk: u64 },
    Unfill { k: u64, start: u64, count: u64, stride: u64 },
    ClearRows { start: u64, count: u64, stride: u64 },
}

fn fill_value(vk: u64, row: u64) -> V {
    match vk {
        0 => V::Int(row as i64),
        1 => V::Float(row),
        2 => V::Str(row),
        3 => V::Bool(row % 2 == 0),
        4 => V::Other(row),
        _ => V::Null,
    }
}

fn rows(start: u64, count: u64, stride: u64) -> impl Iterator<Item = u64> {
    (0..count).map(move |i| start + i * stride)
}

fn expand(m: &Mop) -> Vec<Op> {
    match m {
        Mop::One(o) => vec![o.clone()],
        Mop::Fill { k, start, count, stride, vk } => rows(*start, *count, *stride).map(|r| Op::Set(r, *k, fill_value(*vk, r))).collect(),
        Mop::Unfill { k, start, count, stride } => rows(*start, *count, *stride).map(|r| Op::Remove(r, *k)).collect(),
        Mop::ClearRows { start, count, stride } => rows(*start, *count, *stride).map(Op::Clear).collect(),
    }
}

fn g_op(o: &Op) -> String {
    match o {
        Op::Set(r, k, v) => format!("SetP {} {} {}", r, k, v.g()),
        Op::Remove(r, k) => format!("RemoveP {} {}", r, k),
        Op::Clear(r) => format!("ClearRow {}", r),
    }
}
fn g_mop(m: &Mop) -> String {
    match m {
        Mop::One(o) => format!("One ({})", g_op(o)),
        Mop::Fill { k, start, count, stride, vk } => format!("Fill {} {} {} {} {}", k, start, count, stride, vk),
        Mop::Unfill { k, start, count, stride } => format!("Unfill {} {} {} {}", k, start, count, stride),
        Mop::ClearRows { start, count, stride } => format!("ClearRows {} {} {}", start, count, stride),
    }
}

fn key(k: u64) -> String {
    format!("k{}", k)
}
fn key_id(s: &str) -> u64 {
    s[1..].parse().unwrap()
}

fn mix(h: u64, x: u64) -> u64 {
    (h << 5).wrapping_add(h).wrapping_add(x).wrapping_add(1) & 0x7FFF_FFFF_FFFF_FFFF
}
fn mix_v(h: u64, v: &V) -> u64 {
    match v {
        V::Int(z) => mix(mix(h, 1), *z as u64),
        V::Float(b) => mix(mix(h, 2), *b),
        V::Str(s) => mix(mix(h, 3), *s),
        V::Bool(b) => mix(mix(h, 4), *b as u64),
        V::Other(x) => mix(mix(h, 5), *x),
        V::Null => mix(h, 6),
    }
}

#[derive(Default)]
struct Oracle {
    m: BTreeMap<u64, BTreeMap<u64, V>>,
}
impl Oracle {
    fn apply(&mut self, o: &Op) {
        match o {
            Op::Set(r, k, v) => {
                self.m.entry(*r).or_default().insert(*k, v.clone());
            }
            Op::Remove(r, k) => {
                if let Some(row) = self.m.get_mut(r) {
                    row.remove(k);
                }
            }
            Op::Clear(r) => {
                self.m.remove(r);
            }
        }
    }
    fn get(&self, r: u64, k: u64) -> V {
        self.m.get(&r).and_then(|row| row.get(&k)).cloned().unwrap_or(V::Null)
    }
    fn keys(&self, r: u64) -> BTreeSet<u64> {
        self.m.get(&r).map(|row| row.keys().copied().collect()).unwrap_or_default()
    }
    /// the property at one (row, key): value read = last value set (Null if none); keys = exactly those holding a value
    fn judge(&self, st: &ColumnStore, r: u64, k: u64) -> Option<String> {
        let got = st.get_property(r as usize, &key(k));
        let want = self.get(r, k);
        if V::from_pv(&got).as_ref() != Some(&want) {
            return Some(format!("get_property({}, k{}) = {:?}, last value set is {:?}", r, k, got, want));
        }
        let mut ks: Vec<u64> = st.get_property_keys(r as usize).iter().map(|s| key_id(s)).collect();
        let n = ks.len();
        ks.sort();
        ks.dedup();
        let set: BTreeSet<u64> = ks.iter().copied().collect();
        if n != ks.len() || set != self.keys(r) {
            return Some(format!(
                "get_property_keys({}) = {:?}, keys holding a value: {:?}",
                r,
                st.get_property_keys(r as usize),
                self.keys(r)
            ));
        }
        None
    }
}

struct Item {
    m: Mop,
    pr: u64,
    pk: u64,
}

struct Outcome {
    obs: Vec<String>, // Gallina obs per item
    bad: Option<String>,
    panicked: bool,
    hash: u64,
}

fn col_state(st: &ColumnStore, k: u64) -> Option<(bool, usize)> {
    st.get_column(&key(k)).map(|c| (c.is_dense(), c.len()))
}

fn run_case(out: &mut Out, items: &[Item], ranges: &[(u64, u64)], keys: &[u64]) -> bool {
    let idx = out.next_index();
    if !out.wants(idx) {
        out.skip();
        return false;
    }
    let human = format!(
        "items=[{}] ranges={:?} keys={:?}",
        items.iter().map(|i| format!("{} @({},k{})", g_mop(&i.m), i.pr, i.pk)).collect::<Vec<_>>().join("; "),
        ranges,
        keys
    );
    let mut st = ColumnStore::new();
    let mut or = Oracle::default();
    let mut oc = Outcome { obs: Vec::new(), bad: None, panicked: false, hash: 0 };
    let mut nops = 0u64;
    // kind of the first value per key (typed column) / spilled
    let mut col_kind: BTreeMap<u64, u8> = BTreeMap::new();
    let mut ever_demoted: BTreeSet<u64> = BTreeSet::new();
    for it in items {
        let ops = expand(&it.m);
        for o in &ops {
            nops += 1;
            if matches!(o, Op::Set(r, _, _) if *r == MAXU) {
                out.count("set_at_row_usize_max");
            }
            let (tk, before) = match o {
                Op::Set(_, k, _) | Op::Remove(_, k) => (Some(*k), col_state(&st, *k)),
                Op::Clear(_) => (None, None),
            };
            let res = catch(AssertUnwindSafe(|| match o {
                Op::Set(r, k, v) => st.set_property(*r as usize, &key(*k), v.to_pv()),
                Op::Remove(r, k) => st.remove_property(*r as usize, &key(*k)),
                Op::Clear(r) => st.clear_row(*r as usize),
            }));
            if let Err(p) = res {
                oc.panicked = true;
                if oc.bad.is_none() {
                    oc.bad = Some(format!("panic in {}: {}", g_op(o), p));
                }
                break;
            }
            or.apply(o);
            // generator health
            if let (Some(k), Op::Set(r, _, v)) = (tk, o) {
                let after = col_state(&st, k);
                let kind = *col_kind.entry(k).or_insert(v.kind());
                let typed_ok = kind != 4 && v.kind() == kind;
                if !typed_ok && kind != 4 {
                    col_kind.insert(k, 4);
                    out.count("spill_to_other");
                    if before.map_or(false, |b| b.0) {
                        out.count("spill_from_dense");
                    }
                }
                if matches!(v, V::Null) {
                    out.count("null_stored");
                }
                match (before, after) {
                    (Some((false, _)), Some((true, _))) => {
                        out.count("promoted");
                        if ever_demoted.contains(&k) {
                            out.count("repromoted_after_demotion");
                        }
                    }
                    (Some((true, l0)), Some((true, l1))) if l1 > l0 => {
                        let _ = r;
                        out.count("dense_insert_new_row");
                    }
                    (Some((true, _)), Some((false, _))) if typed_ok => {
                        out.count("demoted");
                        ever_demoted.insert(k);
                    }
                    _ => {}
                }
            }
            if let (Some(k), Op::Remove(..)) = (tk, o) {
                if let (Some((true, l0)), Some((true, l1))) = (before, col_state(&st, k)) {
                    if l1 < l0 {
                        out.count("remove_in_dense");
                    }
                }
            }
            if oc.bad.is_none() {
                let (r, k) = match o {
                    Op::Set(r, k, _) | Op::Remove(r, k) => (*r, *k),
                    Op::Clear(r) => (*r, it.pk),
                };
                if let Some(b) = or.judge(&st, r, k) {
                    oc.bad = Some(format!("after {}: {}", g_op(o), b));
                }
            }
        }
        if oc.panicked {
            oc.obs.push("Panicked".to_string());
            break;
        }
        if let Mop::ClearRows { .. } | Mop::One(Op::Clear(_)) = it.m {
            out.count("clear_row");
        }
        // probe
        let v = st.get_property(it.pr as usize, &key(it.pk));
        let ks: Vec<u64> = st.get_property_keys(it.pr as usize).iter().map(|s| key_id(s)).collect();
        let col = col_state(&st, it.pk);
        if oc.bad.is_none() {
            if let Some(b) = or.judge(&st, it.pr, it.pk) {
                oc.bad = Some(format!("probe after {}: {}", g_mop(&it.m), b));
            }
        }
        let vg = match V::from_pv(&v) {
            Some(x) => x.g(),
            None => {
                if oc.bad.is_none() {
                    oc.bad = Some(format!("unexpected value {:?}", v));
                }
                "PNull".to_string()
            }
        };
        oc.obs.push(format!(
            "Obs {} {} {}",
            vg,
            g_list(ks.iter().map(|k| k.to_string())),
            g_opt(col.map(|(d, l)| format!("({}, {})", g_bool(d), l)))
        ));
    }
    // final dump: hash for the model, full comparison with the oracle here
    if !oc.panicked {
        let mut h = 0u64;
        for (s, c) in ranges {
            for r in rows(*s, *c, 1) {
                for k in keys {
                    let v = st.get_property(r as usize, &key(*k));
                    match V::from_pv(&v) {
                        Some(x) => h = mix_v(h, &x),
                        None => h = mix(h, 99),
                    }
                    if oc.bad.is_none() {
                        if let Some(b) = or.judge(&st, r, *k) {
                            oc.bad = Some(format!("final dump: {}", b));
                        }
                    }
                }
                h = mix(h, 7);
                for s in st.get_property_keys(r as usize) {
                    h = mix(h, key_id(&s));
                }
                h = mix(h, 8);
            }
        }
        oc.hash = h;
        // every row the history touched
        if oc.bad.is_none() {
            let touched: Vec<u64> = or.m.keys().copied().collect();
            'f: for r in touched {
                for k in keys {
                    if let Some(b) = or.judge(&st, r, *k) {
                        oc.bad = Some(format!("final sweep: {}", b));
                        break 'f;
                    }
                }
            }
        }
    }
    out.count_n("ops", nops);
    if nops >= 1000 {
        out.count("long_history");
    }
    let g = format!(
        "({}, {}, {}, {})",
        g_list(items.iter().zip(oc.obs.iter()).map(|(i, o)| format!("({}, {}, {}, {})", g_mop(&i.m), i.pr, i.pk, o))),
        g_list(ranges.iter().map(|(s, c)| format!("({}, {})", s, c))),
        g_list(keys.iter().map(|k| k.to_string())),
        oc.hash
    );
    let i = out.case(g, human.clone(), !items.is_empty());
    if let Some(b) = &oc.bad {
        out.fail(i, &human, b, None);
    }
    oc.panicked
}

fn small_value(r: &mut Rng) -> V {
    match r.below(9) {
        0 | 1 => V::Int(r.range(0, 3) as i64 - 1),
        2 => V::Float(*r.pick(&[0u64, 0x3FF8_0000_0000_0000, 0x7FF8_0000_0000_0001, 0x8000_0000_0000_0000])),
        3 | 4 => V::Str(r.range(0, 3)),
        5 => V::Bool(r.chance(1, 2)),
        6 => V::Other(r.range(0, 5)),
        7 => V::Null,
        _ => V::Int(i64::MIN + r.range(0, 1) as i64),
    }
}

/// short histories over a few rows and keys, every value kind
fn small_case(out: &mut Out, r: &mut Rng) {
    let n = r.range(1, 14);
    let far = r.chance(1, 6);
    let row = |r: &mut Rng| if far && r.chance(1, 4) { *r.pick(&[1u64 << 40, MAXU - 1, MAXU, 1_000_000]) } else { r.range(0, 5) };
    let mut items = Vec::new();
    for _ in 0..n {
        let (rr, k) = (row(r), r.range(0, 2));
        let o = match r.below(10) {
            0..=5 => Op::Set(rr, k, small_value(r)),
            6 | 7 => Op::Remove(rr, k),
            _ => Op::Clear(rr),
        };
        let probe_r = if r.chance(2, 3) { rr } else { row(r) };
        items.push(Item { m: Mop::One(o), pr: probe_r, pk: if r.chance(2, 3) { k } else { r.range(0, 3) } });
    }
    run_case(out, &items, &[(0, 7)], &[0, 1, 2, 3]);
}

/// a history built around one column that goes dense
fn dense_case(out: &mut Out, r: &mut Rng, big: bool) {
    let vk = r.below(4); // int, float, string, bool
    let k = r.range(0, 2);
    // strides that sit on both sides of the break-even fill of the element type
    let stride = match vk {
        0 | 1 => *r.pick(&[1u64, 1, 2, 2, 3]),
        2 => *r.pick(&[1u64, 1, 1, 2]),
        _ => *r.pick(&[1u64, 2, 5, 9, 10, 11, 12]),
    };
    let count = if big && r.chance(1, 3) {
        *r.pick(&[2048u64, 2050, 4096])
    } else {
        *r.pick(&[1024u64, 1024, 1024, 1023, 1025, 1100, 2048])
    };
    let base = match r.below(6) {
        0 => 0,
        1 => r.range(1, 40),
        2 => 1_100_000 + r.range(0, 999),
        3 => MAXU - (count - 1) * stride - r.range(0, 3), // top of the span at or just below usize::MAX
        _ => r.range(2000, 60000),
    };
    let top = base + (count - 1) * stride;
    let mut items: Vec<Item> = Vec::new();
    let other_k = (k + 1) % 3;
    if r.chance(1, 2) {
        // a second, small column so that rows have more than one key
        items.push(Item { m: Mop::Fill { k: other_k, start: base, count: r.range(1, 40), stride: r.range(1, 3), vk: r.below(6) }, pr: base, pk: other_k });
    }
    // sometimes fill in two parts so that promotion is considered at 1024 with a different shape
    if r.chance(1, 3) && count >= 1024 {
        let first = r.range(1, count - 1);
        items.push(Item { m: Mop::Fill { k, start: base, count: first, stride, vk }, pr: base, pk: k });
        items.push(Item { m: Mop::Fill { k, start: base + first * stride, count: count - first, stride, vk }, pr: top, pk: k });
    } else {
        items.push(Item { m: Mop::Fill { k, start: base, count, stride, vk }, pr: top, pk: k });
    }
    let nfollow = r.range(3, if big { 40 } else { 24 });
    let mut lo = base;
    let mut hi = top;
    let mut far_rows: Vec<u64> = Vec::new();
    for _ in 0..nfollow {
        let inside = |r: &mut Rng| lo + r.below((hi - lo).saturating_add(1));
        let (m, pr) = match r.below(20) {
            0 | 1 => {
                let rr = inside(r);
                (Mop::One(Op::Set(rr, k, fill_value(vk, rr ^ 1))), rr)
            }
            2 | 3 => {
                // just above the span
                let d = *r.pick(&[1u64, 1, 2, 5, 64, 500, 3000]);
                if hi <= MAXU - d {
                    let rr = hi + d;
                    hi = rr; // may or may not extend; the dump ranges only use it as a hint
                    (Mop::One(Op::Set(rr, k, fill_value(vk, rr))), rr)
                } else {
                    let rr = inside(r);
                    (Mop::One(Op::Remove(rr, k)), rr)
                }
            }
            4 | 5 | 6 => {
                // below the base
                let d = *r.pick(&[1u64, 1, 2, 10, 63, 64, 65, 700, 5000]);
                if lo >= d {
                    let rr = lo - d;
                    lo = rr;
                    (Mop::One(Op::Set(rr, k, fill_value(vk, rr))), rr)
                } else {
                    let rr = inside(r);
                    (Mop::One(Op::Set(rr, k, fill_value(vk, rr))), rr)
                }
            }
            7 => {
                // far away: demotes a dense column
                let rr = if hi < (1 << 50) { hi + 50_000_000 + r.range(0, 9) } else { r.range(0, 9) };
                far_rows.push(rr);
                (Mop::One(Op::Set(rr, k, fill_value(vk, rr))), rr)
            }
            8 | 9 | 10 => {
                let rr = inside(r);
                (Mop::One(Op::Remove(rr, k)), rr)
            }
            11 => {
                let rr = *r.pick(&[lo.saturating_sub(1), hi.saturating_add(1), 0, MAXU - 1, MAXU]);
                (Mop::One(Op::Remove(rr, k)), rr)
            }
            12 => {
                let rr = inside(r);
                (Mop::One(Op::Clear(rr)), rr)
            }
            13 => {
                let s = inside(r);
                let c = r.range(2, 300).min((hi - s) / stride.max(1) + 1);
                (Mop::Unfill { k, start: s, count: c, stride }, s)
            }
            14 => {
                // refill a stretch: in a sparse column this re-enters maybe_promote on overwrites too
                let s = inside(r);
                let c = r.range(2, 1100).min((MAXU - s) / stride.max(1));
                hi = hi.max(s + (c.max(1) - 1) * stride);
                (Mop::Fill { k, start: s, count: c.max(1), stride, vk }, s)
            }
            15 => {
                let s = inside(r);
                let c = r.range(2, 100).min((hi - s) + 1);
                (Mop::ClearRows { start: s, count: c, stride: 1 }, s)
            }
            16 => {
                // a value of another type: the column spills to Other
                let rr = if r.chance(1, 2) { inside(r) } else { hi.saturating_add(2) };
                let v = if r.chance(1, 4) { V::Null } else { fill_value((vk + 1 + r.below(4)) % 5, rr) };
                (Mop::One(Op::Set(rr, k, v)), rr)
            }
            17 => {
                let rr = inside(r);
                (Mop::One(Op::Set(rr, other_k, small_value(r))), rr)
            }
            _ => {
                // extend contiguously so the length reaches the next power of two
                let c = r.range(1, 1100).min((MAXU - hi) / stride.max(1));
                if c == 0 {
                    let rr = inside(r);
                    (Mop::One(Op::Remove(rr, k)), rr)
                } else {
                    let s = hi + stride;
                    hi = s + (c - 1) * stride;
                    (Mop::Fill { k, start: s, count: c, stride, vk }, hi)
                }
            }
        };
        let pr = if r.chance(3, 4) { pr } else { lo + r.below((hi - lo).saturating_add(1)) };
        let pk = if r.chance(5, 6) { k } else { other_k };
        items.push(Item { m, pr, pk });
    }
    // dump ranges: around the bottom, the middle, the top, the far rows; sometimes the whole span
    let mut ranges: Vec<(u64, u64)> = Vec::new();
    let span = (hi - lo).saturating_add(1);
    if span <= 2500 && r.chance(1, 2) {
        ranges.push((lo.saturating_sub(3), (span + 6).min((MAXU - lo.saturating_sub(3)).saturating_add(1))));
    } else {
        ranges.push((lo.saturating_sub(8), 48.min((MAXU - lo.saturating_sub(8)).saturating_add(1))));
        let mid = lo + span / 2;
        ranges.push((mid, 40.min((MAXU - mid).saturating_add(1))));
        let t = hi.saturating_sub(24);
        ranges.push((t, 48.min((MAXU - t).saturating_add(1))));
        ranges.push((base.saturating_sub(4), 40.min((MAXU - base.saturating_sub(4)).saturating_add(1))));
    }
    for f in far_rows.iter().take(3) {
        ranges.push((f.saturating_sub(1), 3));
    }
    run_case(out, &items, &ranges, &[0, 1, 2]);
}

/// the three span computations that overflowed before the repair, and a plain set at usize::MAX
fn edge_cases(out: &mut Out) {
    let mk = |m: Mop, pr: u64| Item { m, pr, pk: 0 };
    // dense with base 0, then row MAX: (idx - base).saturating_add(1)
    let a = vec![
        mk(Mop::Fill { k: 0, start: 0, count: 1024, stride: 1, vk: 0 }, 5),
        mk(Mop::One(Op::Set(MAXU, 0, V::Int(1))), MAXU),
        mk(Mop::One(Op::Set(1024, 0, V::Int(2))), 7),
        mk(Mop::One(Op::Remove(MAXU, 0)), MAXU),
    ];
    run_case(out, &a, &[(0, 4), (MAXU - 2, 3)], &[0]);
    // dense span ending at row MAX, then rows below the base: (base - new_base).saturating_add(len)
    let b = vec![
        mk(Mop::Fill { k: 0, start: MAXU - 1023, count: 1024, stride: 1, vk: 0 }, MAXU),
        mk(Mop::One(Op::Set(MAXU - 1024, 0, V::Int(1))), MAXU - 1024),
        mk(Mop::One(Op::Set(MAXU - 1030, 0, V::Int(3))), MAXU),
        mk(Mop::One(Op::Set(0, 0, V::Int(4))), MAXU - 1024),
        mk(Mop::One(Op::Clear(MAXU)), MAXU),
    ];
    run_case(out, &b, &[(MAXU - 1040, 1041), (0, 3)], &[0]);
    // promotion considered with rows 0 and MAX both present: (max - min).saturating_add(1)
    let c = vec![
        mk(Mop::Fill { k: 0, start: 0, count: 1023, stride: 1, vk: 0 }, 5),
        mk(Mop::One(Op::Set(MAXU, 0, V::Int(1))), MAXU),
        mk(Mop::One(Op::Remove(MAXU, 0)), MAXU),
        mk(Mop::One(Op::Set(1023, 0, V::Int(1))), 1023),
    ];
    run_case(out, &c, &[(0, 4), (MAXU - 2, 3)], &[0]);
    for vk in 1..4 {
        let d = vec![
            mk(Mop::Fill { k: 0, start: MAXU - 2047, count: 2048, stride: 1, vk }, MAXU),
            mk(Mop::One(Op::Set(MAXU - 2048, 0, fill_value(vk, 9))), MAXU - 2048),
            mk(Mop::One(Op::Set(5, 0, fill_value(vk, 5))), MAXU),
        ];
        run_case(out, &d, &[(MAXU - 2050, 2051), (4, 3)], &[0]);
    }
    let e = vec![mk(Mop::One(Op::Set(MAXU, 0, V::Int(1))), MAXU), mk(Mop::One(Op::Set(3, 0, V::Int(2))), MAXU), mk(Mop::One(Op::Clear(MAXU)), MAXU)];
    run_case(out, &e, &[(0, 5)], &[0]);
}

fn main() {
    let args = parse_args();
    quiet_panics();
    let mut out = Out::new(&args, "From Verif Require Import ColumnStore.", "ColumnStore.case", "ColumnStore.check_case", if args.thorough { 21 } else { 26 });
    out.rule = "small: 1-14 single operations (set of every value kind incl. Null and an untyped variant, remove, clear_row) \
                over rows 0-5 (+ far rows) and keys 0-2; dense: one column filled with 1023-4096 rows at a stride on either \
                side of the type's break-even fill, base 0 / small / 1.1M / just below usize::MAX, followed by 3-40 \
                operations (overwrite, insert above/below the span, far-away row, removals inside/outside, clear_row, \
                unfill/refill stretches, another type or Null, contiguous extension to the next power of two). After every \
                single operation the property predicate is evaluated at the touched row; after every (macro) item a probe \
                (get_property, get_property_keys, is_dense, len) goes to the model; at the end row ranges x keys are folded \
                into a hash for the model and compared entry by entry with the map oracle. Non-trivial = at least one item."
        .to_string();

    edge_cases(&mut out);
    let (nsmall, ndense) = if args.thorough { (6000, 200) } else { (900, 36) };
    // interleave so that shards cost about the same
    let per = (nsmall / ndense).max(1);
    let mut c = 0u64;
    for d in 0..ndense {
        let mut r = Rng::for_case(args.seed ^ 0xD0, d);
        dense_case(&mut out, &mut r, args.thorough);
        for _ in 0..per {
            let mut r = Rng::for_case(args.seed, c);
            small_case(&mut out, &mut r);
            c += 1;
        }
    }
    out.finish();
}
