//! temporary probe (w-snap): confirm the C12/C13/C14 defects on the real code
use samyama::graph::{GraphStore, Label, PropertyValue};
use samyama::query::QueryEngine;
use samyama::snapshot::{export_tenant, import_tenant, import_tenant_with_dedup};
use std::collections::HashMap;

fn gunzip(b: &[u8]) -> String {
    use std::io::Read;
    let mut s = String::new();
    flate2::read::GzDecoder::new(b).read_to_string(&mut s).unwrap();
    s
}

fn rt(store: &GraphStore) -> (String, GraphStore, Result<(), String>) {
    let mut buf = Vec::new();
    samyama::snapshot::export_tenant_with_compression(store, &mut buf, 0).unwrap();
    let text = gunzip(&buf);
    let mut s2 = GraphStore::new();
    let r = import_tenant(&mut s2, std::io::Cursor::new(&buf)).map(|_| ()).map_err(|e| e.to_string());
    (text, s2, r)
}

fn main() {
    // 1. second label not in label index
    {
        let mut s = GraphStore::new();
        let n = s.create_node("A");
        s.add_label_to_node("default", n, "B").unwrap();
        let (_t, s2, _) = rt(&s);
        println!("1 label index: orig B={} imported A={} B={} labels(n)={:?}",
            s.get_nodes_by_label(&Label::new("B")).len(),
            s2.get_nodes_by_label(&Label::new("A")).len(),
            s2.get_nodes_by_label(&Label::new("B")).len(),
            s2.all_nodes()[0].labels);
        let e = QueryEngine::new();
        let b = e.execute("MATCH (n:B) RETURN count(n) AS c", &s2).unwrap();
        println!("  cypher MATCH (n:B) count: {:?}", b.records.len());
    }
    // 2. trim
    {
        let mut s = GraphStore::new();
        let n = s.create_node("A");
        s.set_node_property("default", n, "k", PropertyValue::String("  a b \n".into())).unwrap();
        let (_t, s2, _) = rt(&s);
        println!("2 trim: {:?}", s2.node_properties_merged(s2.all_nodes()[0].id));
    }
    // 3. unlabelled
    {
        let mut s = GraphStore::new();
        s.create_node_with_labels(std::iter::empty());
        let (t, s2, _) = rt(&s);
        println!("3 unlabelled: labels {:?} ; index[\"\"]={} ; text {}", s2.all_nodes()[0].labels,
            s2.get_nodes_by_label(&Label::new("")).len(), t.lines().nth(1).unwrap());
    }
    // 4. versions
    {
        let mut s = GraphStore::new();
        let n = s.create_node("A");
        s.set_node_property("default", n, "k", PropertyValue::Integer(1)).unwrap();
        s.current_version += 1;
        s.set_node_property("default", n, "k", PropertyValue::Integer(2)).unwrap();
        let (t, s2, _) = rt(&s);
        println!("4 versions: orig all_nodes={} imported distinct nodes={} ; lines={}", s.all_nodes().len(), s2.all_nodes().len(), t.lines().count());
    }
    // 5. non-finite
    {
        let mut s = GraphStore::new();
        let n = s.create_node("A");
        s.set_node_property("default", n, "k", PropertyValue::Float(f64::INFINITY)).unwrap();
        s.set_node_property("default", n, "v", PropertyValue::Vector(vec![1.0, f32::NAN, 2.0])).unwrap();
        let (t, s2, _) = rt(&s);
        println!("5 nonfinite: {:?} ; {}", s2.node_properties_merged(s2.all_nodes()[0].id), t.lines().nth(1).unwrap());
    }
    // 6. __type
    {
        let mut s = GraphStore::new();
        let n = s.create_node("A");
        let mut m = HashMap::new();
        m.insert("__type".to_string(), PropertyValue::String("Duration".into()));
        s.set_node_property("default", n, "k", PropertyValue::Map(m)).unwrap();
        let (_t, s2, _) = rt(&s);
        println!("6 __type: {:?}", s2.node_properties_merged(s2.all_nodes()[0].id));
    }
    // 7. edge prop map {"t":"n"}
    {
        let mut s = GraphStore::new();
        let a = s.create_node("A");
        let b = s.create_node("A");
        let mut m = HashMap::new();
        m.insert("t".to_string(), PropertyValue::String("n".into()));
        let mut p = HashMap::new();
        p.insert("x".to_string(), PropertyValue::Map(m));
        s.create_edge_with_properties(a, b, "R", p).unwrap();
        let (t, s2, r) = rt(&s);
        println!("7 discriminator: import result {:?} nodes {} edges {} ; {}", r, s2.all_nodes().len(), s2.all_edges().len(), t.lines().last().unwrap());
    }
    // 8. hierarchy reverse / measure label
    {
        use samyama::graph::EdgeType;
        use samyama::index::hierarchy::{HierarchySpec, RollupOp};
        let mut s = GraphStore::new();
        let a = s.create_node("A");
        let b = s.create_node("A");
        s.create_edge(a, b, "IS_A").unwrap();
        let mgr = std::sync::Arc::clone(&s.hierarchy_index);
        let mut spec = HierarchySpec::new("h", vec![EdgeType::new("IS_A")]).with_measure(Some(Label::new("A")), "u", vec![RollupOp::Min, RollupOp::Max]);
        spec.reverse = true;
        mgr.create(&s, spec).unwrap();
        let (t, s2, _) = rt(&s);
        let e = s2.hierarchy_index.get("h").unwrap();
        println!("8 hier: {:?} ; {}", e.read().unwrap().spec, t.lines().nth(1).unwrap());
    }
    // 9. float text round trip
    {
        let mut r = vh::Rng::new(7);
        let mut bad = 0u64;
        let mut first = None;
        let n = 2_000_000u64;
        for _ in 0..n {
            let f = f64::from_bits(r.next());
            if !f.is_finite() { continue; }
            let t = serde_json::to_string(&serde_json::json!(f)).unwrap();
            let v: serde_json::Value = serde_json::from_str(&t).unwrap();
            let g = v.as_f64().unwrap();
            if g.to_bits() != f.to_bits() { bad += 1; if first.is_none() { first = Some((f.to_bits(), t.clone(), g.to_bits())); } }
        }
        println!("9 float text: {} of {} differ; first {:?}", bad, n, first);
    }
    // 10. C13: dedup merge then failure
    {
        let mut s = GraphStore::new();
        let a = s.create_node("P");
        s.set_node_property("default", a, "name", PropertyValue::String("x".into())).unwrap();
        let mut src = GraphStore::new();
        let p = src.create_node("P");
        src.set_node_property("default", p, "name", PropertyValue::String("x".into())).unwrap();
        src.set_node_property("default", p, "extra", PropertyValue::Integer(7)).unwrap();
        src.add_label_to_node("default", p, "Q").unwrap();
        src.create_edge(p, p, "SELF").unwrap();
        let mut buf = Vec::new();
        samyama::snapshot::export_tenant_with_compression(&src, &mut buf, 0).unwrap();
        let mut text = gunzip(&buf);
        text.push_str("{\"t\":\"e\",\"id\":9,\"src\":77,\"tgt\":78,\"type\":\"R\",\"props\":{}}\n");
        let bytes = { use std::io::Write; let mut gz = flate2::write::GzEncoder::new(Vec::new(), flate2::Compression::default()); gz.write_all(text.as_bytes()).unwrap(); gz.finish().unwrap() };
        let r = import_tenant_with_dedup(&mut s, std::io::Cursor::new(&bytes), &["name"]);
        println!("10 C13: result {:?} ; nodes {} edges {} props {:?} labels {:?}", r.map(|_| ()).map_err(|e| e.to_string()),
            s.all_nodes().len(), s.all_edges().len(), s.node_properties_merged(a), s.get_node(a).unwrap().labels);
    }
    // 11. truncated gzip
    {
        let mut s = GraphStore::new();
        for _ in 0..5 { s.create_node("A"); }
        let mut buf = Vec::new();
        export_tenant(&s, &mut buf).unwrap();
        for k in [0usize, 5, 10, buf.len() - 9, buf.len() - 8, buf.len() - 1] {
            let mut s2 = GraphStore::new();
            let r = import_tenant(&mut s2, std::io::Cursor::new(&buf[..k]));
            println!("11 trunc {}: {:?} nodes {}", k, r.map(|_| ()).map_err(|e| e.to_string()), s2.all_nodes().len());
        }
    }
}
