//! C23 — RESP and HTTP run every supported statement like the engine does.
//!
//! Each generated statement is run on identically built graphs (a) directly on the engine
//! (read entry point; the mutable one exactly when the read-only executor refuses the statement
//! as a write), (b) through `CommandHandler` GRAPH.QUERY, (c) through the shipped HTTP stack
//! (`HttpServer::start` on a loopback port, POST /api/query; the harness crate has no tower
//! dependency for an in-process oneshot). Compared: outcome class, columns, row bag, error
//! text, and the full graph dump afterwards. The model (coq/model/Routing.v) is compared on
//! the write decision (token classifier vs QueryEngine::statement_is_write).
use samyama::graph::{GraphStore, PropertyValue};
use samyama::http::HttpServer;
use samyama::protocol::command::CommandHandler;
use samyama::protocol::resp::RespValue;
use samyama::query::{QueryEngine, RecordBatch, Value};
use std::sync::Arc;
use tokio::io::{AsyncReadExt, AsyncWriteExt};
use tokio::sync::RwLock;
use vh::*;

fn build_store() -> GraphStore {
    let mut g = GraphStore::new();
    let a = g.create_node("Person");
    {
        let n = g.get_node_mut(a).unwrap();
        n.set_property("name", "Alice");
        n.set_property("x", 1i64);
    }
    let b = g.create_node("Person");
    {
        let n = g.get_node_mut(b).unwrap();
        n.set_property("name", " SET ");
        n.set_property("x", 2i64);
    }
    let c = g.create_node("City");
    g.get_node_mut(c).unwrap().set_property("name", "Paris");
    g.create_edge(a, b, "KNOWS").unwrap();
    g.create_edge(a, c, "LIVES_IN").unwrap();
    g
}

fn dump(g: &GraphStore) -> String {
    let mut nodes: Vec<String> = g
        .all_nodes()
        .iter()
        .map(|n| {
            let mut labels: Vec<String> = n.labels.iter().map(|l| l.as_str().to_string()).collect();
            labels.sort();
            let mut props: Vec<String> =
                g.node_properties_full(n.id).iter().map(|(k, v)| format!("{}={:?}", k, v)).collect();
            props.sort();
            format!("N{}:{:?}{{{}}}", n.id.as_u64(), labels, props.join(","))
        })
        .collect();
    nodes.sort();
    let mut edges: Vec<String> = g
        .all_edges()
        .iter()
        .map(|e| {
            let mut props: Vec<String> = e.properties.iter().map(|(k, v)| format!("{}={:?}", k, v)).collect();
            props.sort();
            format!("E{}:{}-[{}]->{}{{{}}}", e.id.as_u64(), e.source.as_u64(), e.edge_type.as_str(), e.target.as_u64(), props.join(","))
        })
        .collect();
    edges.sort();
    let show = |q: &str| -> String {
        match QueryEngine::new().execute(q, g) {
            Ok(b) => {
                let mut rows: Vec<String> =
                    b.records.iter().map(|r| b.columns.iter().map(|c| format!("{:?}", r.get(c))).collect::<Vec<_>>().join(",")).collect();
                rows.sort();
                rows.join(";")
            }
            Err(e) => format!("ERR {}", e),
        }
    };
    format!("{} | {} | idx[{}] cons[{}]", nodes.join(" "), edges.join(" "), show("SHOW INDEXES"), show("SHOW CONSTRAINTS"))
}

/// canonical outcome shared by the three front ends: scalar cells only
#[derive(PartialEq, Debug, Clone)]
enum Outcome {
    Rows(Vec<String>, Vec<String>),
    Error(String),
}

/// multi-line text (EXPLAIN output lists labels / edge types in hash order): lines sorted
fn text_cell(s: &str) -> String {
    if s.contains('\n') {
        let mut l: Vec<&str> = s.lines().collect();
        l.sort();
        format!("s:{}", l.join("\n"))
    } else {
        format!("s:{}", s)
    }
}

fn cell_engine(v: Option<&Value>) -> String {
    match v {
        Some(Value::Node(id, _)) | Some(Value::NodeRef(id)) => format!("node:{}", id.as_u64()),
        None | Some(Value::Null) => "null".to_string(),
        Some(Value::Property(PropertyValue::Integer(i))) => format!("i:{}", i),
        Some(Value::Property(PropertyValue::String(s))) => text_cell(s),
        Some(Value::Property(PropertyValue::Null)) => "null".to_string(),
        Some(other) => format!("other:{:?}", other),
    }
}
fn outcome_engine(r: &Result<RecordBatch, Box<dyn std::error::Error>>) -> Outcome {
    match r {
        Ok(b) => {
            let mut rows: Vec<String> =
                b.records.iter().map(|r| b.columns.iter().map(|c| cell_engine(r.get(c))).collect::<Vec<_>>().join(",")).collect();
            rows.sort();
            Outcome::Rows(b.columns.clone(), rows)
        }
        Err(e) => Outcome::Error(e.to_string()),
    }
}
fn cell_resp(v: &RespValue) -> String {
    match v {
        RespValue::Null | RespValue::BulkString(None) => "null".to_string(),
        RespValue::Integer(i) => format!("i:{}", i),
        RespValue::BulkString(Some(b)) => {
            let s = String::from_utf8_lossy(b).to_string();
            if s == "Null" {
                "null".to_string()
            } else if let Some(id) = s.strip_prefix("Node(NodeId(").and_then(|r| r.strip_suffix("))")) {
                format!("node:{}", id)
            } else {
                text_cell(&s)
            }
        }
        other => format!("other:{:?}", other),
    }
}
fn outcome_resp(v: &RespValue) -> Outcome {
    match v {
        RespValue::Error(e) => Outcome::Error(e.strip_prefix("ERR ").unwrap_or(e).to_string()),
        RespValue::Array(rows) if !rows.is_empty() => {
            let cols: Vec<String> = match &rows[0] {
                RespValue::Array(h) => h
                    .iter()
                    .map(|c| match c {
                        RespValue::BulkString(Some(b)) => String::from_utf8_lossy(b).to_string(),
                        o => format!("{:?}", o),
                    })
                    .collect(),
                o => vec![format!("{:?}", o)],
            };
            let mut out: Vec<String> = rows[1..]
                .iter()
                .map(|r| match r {
                    RespValue::Array(cells) => cells.iter().map(cell_resp).collect::<Vec<_>>().join(","),
                    o => format!("{:?}", o),
                })
                .collect();
            out.sort();
            Outcome::Rows(cols, out)
        }
        other => Outcome::Error(format!("unexpected reply {:?}", other)),
    }
}
fn cell_json(v: &serde_json::Value) -> String {
    match v {
        serde_json::Value::Null => "null".to_string(),
        serde_json::Value::Number(n) => format!("i:{}", n),
        serde_json::Value::String(s) => text_cell(s),
        serde_json::Value::Object(o) if o.contains_key("labels") && o.contains_key("id") => {
            format!("node:{}", o["id"].as_str().unwrap_or("?"))
        }
        other => format!("other:{}", other),
    }
}
fn outcome_http(status: u16, body: &str) -> Outcome {
    let j: serde_json::Value = match serde_json::from_str(body) {
        Ok(j) => j,
        Err(e) => return Outcome::Error(format!("bad json ({}): {}", e, body)),
    };
    if status != 200 {
        return Outcome::Error(j.get("error").and_then(|e| e.as_str()).unwrap_or(body).to_string());
    }
    let cols: Vec<String> = j["columns"].as_array().map(|a| a.iter().map(|c| c.as_str().unwrap_or("").to_string()).collect()).unwrap_or_default();
    let mut rows: Vec<String> = j["records"]
        .as_array()
        .map(|a| a.iter().map(|r| r.as_array().map(|cs| cs.iter().map(cell_json).collect::<Vec<_>>().join(",")).unwrap_or_default()).collect())
        .unwrap_or_default();
    rows.sort();
    Outcome::Rows(cols, rows)
}

async fn http_post(port: u16, query: &str) -> (u16, String) {
    let body = serde_json::json!({ "query": query }).to_string();
    let req = format!(
        "POST /api/query HTTP/1.1\r\nHost: 127.0.0.1\r\nContent-Type: application/json\r\nContent-Length: {}\r\nConnection: close\r\n\r\n{}",
        body.len(),
        body
    );
    let mut s = tokio::net::TcpStream::connect(("127.0.0.1", port)).await.expect("connect");
    s.write_all(req.as_bytes()).await.expect("write");
    let mut buf = Vec::new();
    s.read_to_end(&mut buf).await.expect("read");
    let text = String::from_utf8_lossy(&buf).to_string();
    let status: u16 = text.split_whitespace().nth(1).and_then(|c| c.parse().ok()).unwrap_or(0);
    let (head, payload) = match text.find("\r\n\r\n") {
        Some(p) => (text[..p].to_lowercase(), text[p + 4..].to_string()),
        None => (String::new(), String::new()),
    };
    let payload = if head.contains("transfer-encoding: chunked") {
        // de-chunk
        let mut out = String::new();
        let mut rest = payload.as_str();
        loop {
            let Some(nl) = rest.find("\r\n") else { break };
            let len = usize::from_str_radix(rest[..nl].trim(), 16).unwrap_or(0);
            if len == 0 {
                break;
            }
            let start = nl + 2;
            out.push_str(&rest[start..start + len]);
            rest = &rest[start + len + 2..];
        }
        out
    } else {
        payload
    };
    (status, payload)
}

const KW_CASE: &[fn(&str) -> String] = &[|s| s.to_string(), |s| s.to_lowercase(), |s| {
    let mut c = s.chars();
    match c.next() {
        Some(f) => f.to_string() + &c.as_str().to_lowercase(),
        None => String::new(),
    }
}];

/// statement = clauses (each a list of words beginning with its keyword), rendered with
/// random keyword case and separators
fn gen_statement(r: &mut Rng) -> (String, &'static str) {
    let lead: Vec<(&str, &str)> = vec![
        ("MATCH", "(n:Person)"),
        ("MATCH", "(n)"),
        ("MATCH", "(n:Person {name: 'Alice'})"),
        ("OPTIONAL MATCH", "(n:Person)"),
        ("UNWIND", "[1,2] AS i MATCH (n:Person)"),
        ("WITH", "1 AS i MATCH (n:Person)"),
        ("MATCH", "(n:Person) WHERE n.name = ' SET '"),
        ("MATCH", "(n:Person) WHERE n.x > 0 WITH n"),
        ("MATCH", "(n:Person)-[:KNOWS]->(m)"),
    ];
    let writes: Vec<(&str, &str)> = vec![
        ("SET", "n.x = 10"),
        ("SET", "n.tag = ' DELETE '"),
        ("SET", "n:Extra"),
        ("REMOVE", "n.x"),
        ("REMOVE", "n:Person"),
        ("CREATE", "(:T {v: 1})"),
        ("CREATE", "(n)-[:R]->(:T)"),
        ("MERGE", "(z:Z {k: 1})"),
        ("DETACH DELETE", "n"),
        ("FOREACH", "(k IN [1,2] | CREATE (:F {v: k}))"),
    ];
    let tails: Vec<(&str, &str)> = vec![("RETURN", "n.name"), ("RETURN", "n.x"), ("RETURN", "count(n)"), ("RETURN", "n.name, n.x"), ("RETURN", "n.x AS v ORDER BY v LIMIT 2")];
    let sep = |r: &mut Rng| -> &'static str { *r.pick(&[" ", " ", "\n", "\t", "  ", "\r\n", " \n "]) };
    let kw = |r: &mut Rng, k: &str| -> String { (KW_CASE[r.below(3) as usize])(k) };
    match r.below(20) {
        0..=8 => {
            // read lead + write (+ optional return)
            let (lk, lb) = *r.pick(&lead);
            let (wk, wb) = *r.pick(&writes);
            let mut s = format!("{}{}{}{}{}{}{}", kw(r, lk), sep(r), lb, sep(r), kw(r, wk), sep(r), wb);
            if r.chance(1, 2) && wk != "DETACH DELETE" && wk != "REMOVE" {
                s.push_str(sep(r));
                s.push_str(&format!("{}{}{}", kw(r, "RETURN"), sep(r), r.pick(&["n.name", "n.x", "count(n)"])));
            }
            (s, "write_after_read")
        }
        9..=13 => {
            let (lk, lb) = *r.pick(&lead);
            let (tk, tb) = *r.pick(&tails);
            (format!("{}{}{}{}{}{}{}", kw(r, lk), sep(r), lb, sep(r), kw(r, tk), sep(r), tb), "read")
        }
        14 => {
            // leading write / standalone forms
            let forms = [
                "CREATE (:T {v: 1})",
                "CREATE (a:T {v: 1})-[:R]->(b:T {v: 2}) RETURN a.v, b.v",
                "MERGE (z:Z {k: 1}) RETURN z.k",
                "UNWIND [1,2] AS i CREATE (:U {v: i})",
                "UNWIND [1,2] AS i MERGE (:U {v: i})",
                "WITH 1 AS i CREATE (:W {v: i})",
                "FOREACH (k IN [1,2] | CREATE (:F {v: k}))",
                "CREATE (:T {v: 1}) WITH 1 AS one MATCH (n:T) RETURN count(n)",
            ];
            let f = *r.pick(&forms);
            let s = f.replace(' ', if r.chance(1, 3) { "\n" } else { " " });
            (s, "leading_write")
        }
        15 => {
            let forms = [
                "CREATE INDEX ON :Person(name)",
                "DROP INDEX ON :Person(name)",
                "CREATE CONSTRAINT ON (p:Person) ASSERT p.name IS UNIQUE",
                "SHOW INDEXES",
                "SHOW CONSTRAINTS",
                "create index on :City(name)",
                "CREATE\nINDEX\nON :Person(x)",
            ];
            ((*r.pick(&forms)).to_string(), "ddl")
        }
        16 => {
            let forms = [
                "EXPLAIN MATCH (n) SET n.x = 1",
                "EXPLAIN CREATE (:T)",
                "EXPLAIN MATCH (n) RETURN n.x",
                "RETURN 1 AS one UNION RETURN 2 AS one",
                "MATCH (n:Person) RETURN n.x AS v UNION MATCH (n:City) RETURN n.name AS v",
                "CALL { MATCH (n:Person) RETURN n.x AS v } RETURN v",
                "CALL { CREATE (:T) RETURN 1 AS v } RETURN v",
                "CALL db.labels() YIELD label RETURN label",
                "MATCH (n:Person) RETURN n.x AS v UNION MATCH (n:Person) SET n.x = 5 RETURN n.x AS v",
            ];
            ((*r.pick(&forms)).to_string(), "explain_union_subquery")
        }
        17 => {
            // write keywords that are names, literals or comments: reads
            let forms = [
                "MATCH (n:Person) WHERE n.name = ' SET ' RETURN n.x",
                "MATCH (n:Person) WHERE n.name = 'x CREATE y' RETURN n.x",
                "MATCH (n:Person) RETURN n.x // SET n.x = 1",
                "MATCH (n:Person) /* DELETE n */ RETURN n.x",
                "MATCH (n:Person) RETURN n.set",
                "MATCH (n:Person) RETURN n.delete AS v",
                "MATCH (n:Create) RETURN n.x",
                "MATCH (n:Person {set: 1}) RETURN n.x",
                "RETURN ' MERGE ' AS s",
                "MATCH (n:Person)\nWHERE n.name = \"DELETE\"\nRETURN n.x",
            ];
            ((*r.pick(&forms)).to_string(), "keyword_as_name_or_text")
        }
        18 => {
            // does not parse / does not plan
            let forms = ["MATCH (n SET n.x = 1", "CREATE", "MATCH (n) RETURN", "SET n.x = 1", "DELETE n", "MATCH (n) RETURN m.x", "FOO BAR", "", "MATCH (n) SET", " MATCH (n) WHERE = SET "];
            ((*r.pick(&forms)).to_string(), "invalid")
        }
        _ => {
            // the documented witnesses and close variants
            let forms = [
                "MATCH (n)\nSET n.x = 1",
                "MATCH (n) REMOVE n.x",
                "UNWIND [1] AS x CREATE (:T {v: x})",
                "MATCH (n:Person)\tDETACH DELETE n",
                "MATCH (n:Person)\nREMOVE n.x\nRETURN n.name",
                "MATCH (n:Person) SET n.x=3",
                "MATCH (n:City)\r\nMERGE (z:Z {k: 1})",
                "OPTIONAL MATCH (n:Person) SET n.x = 4",
                // keywords have no word boundary in the grammar; write keywords as names
                "MATCH (n:Person)SET n.x = 3",
                "MATCH (n:Person) DETACHDELETE n",
                "MATCH (n:City) DETACH DELETEn",
                "MATCH (n:Person) RETURN n.x AS created",
                "MATCH (settings:Person) RETURN settings.x",
                "MATCH (n:Person) WHERE n.x > 0 RETURN n.x AS deleted ORDER BY deleted",
                "MATCH (n:Person) WITH n.x AS set RETURN set",
            ];
            ((*r.pick(&forms)).to_string(), "witness")
        }
    }
}

const REFUSAL: &str = "Cannot execute write query with read-only executor";

fn main() {
    let args = parse_args();
    let rt = tokio::runtime::Builder::new_multi_thread().worker_threads(2).enable_all().build().unwrap();
    // the shipped HTTP stack on a loopback port
    let http_store = Arc::new(RwLock::new(GraphStore::new()));
    let port = rt.block_on(async {
        let l = tokio::net::TcpListener::bind("127.0.0.1:0").await.unwrap();
        l.local_addr().unwrap().port()
    });
    {
        let st = http_store.clone();
        rt.spawn(async move {
            let server = HttpServer::new(st, port);
            let _ = server.start().await;
        });
    }
    rt.block_on(async {
        for _ in 0..200 {
            if tokio::net::TcpStream::connect(("127.0.0.1", port)).await.is_ok() {
                return;
            }
            tokio::time::sleep(std::time::Duration::from_millis(25)).await;
        }
        panic!("HTTP server did not start");
    });

    let mut out = Out::new(&args, "From Verif Require Import Routing.", "Routing.case", "Routing.check_case", if args.thorough { 600 } else { 100 });
    out.rule = "statements: read leads (MATCH, OPTIONAL MATCH, UNWIND…MATCH, WITH…MATCH, WHERE with a keyword in a literal, \
                WITH n) x write clauses (SET property/label, REMOVE property/label, CREATE, MERGE, DETACH DELETE, FOREACH) \
                x optional RETURN, with random keyword case and separators (space, tab, LF, CRLF); reads; leading writes \
                (CREATE, MERGE, UNWIND…CREATE/MERGE, WITH…CREATE, FOREACH, CREATE…WITH…MATCH); index/constraint DDL and SHOW; \
                EXPLAIN / UNION / CALL{} forms; write keywords as property, label, map key, literal, comment; invalid \
                text; the documented witnesses. Each on fresh identical graphs through the engine, CommandHandler \
                GRAPH.QUERY and POST /api/query. Non-trivial = parses."
        .to_string();

    let mut stmts: Vec<(String, &'static str)> = Vec::new();
    for w in [
        "MATCH (n)\nSET n.x = 1",
        "MATCH (n) REMOVE n.x",
        "UNWIND [1] AS x CREATE (:T {v: x})",
        "MATCH (n) WHERE n.name = ' SET ' RETURN n.x",
        "MATCH (n:Person) RETURN n.name",
        "CREATE (:T {v: 1})",
    ] {
        stmts.push((w.to_string(), "witness"));
    }
    let n = if args.thorough { 12000 } else { 1200 };
    for c in 0..n {
        let mut r = Rng::for_case(args.seed, c);
        stmts.push(gen_statement(&mut r));
    }

    let engine = QueryEngine::new();
    let handler = CommandHandler::new(None);
    for (q, kind) in &stmts {
        let idx = out.next_index();
        if !out.wants(idx) {
            out.skip();
            continue;
        }
        // (a) the engine
        let mut g_e = build_store();
        let decision = engine.statement_is_write(q, &g_e);
        let first = engine.execute(q, &g_e);
        let refused = matches!(&first, Err(e) if e.to_string().contains(REFUSAL));
        let res_e = if refused { engine.execute_mut(q, &mut g_e, "default") } else { first };
        let o_e = outcome_engine(&res_e);
        let d_e = dump(&g_e);
        // (b) RESP
        let g_r = Arc::new(RwLock::new(build_store()));
        let reply = rt.block_on(async {
            let cmd = RespValue::Array(vec![
                RespValue::BulkString(Some(b"GRAPH.QUERY".to_vec())),
                RespValue::BulkString(Some(b"default".to_vec())),
                RespValue::BulkString(Some(q.as_bytes().to_vec())),
            ]);
            handler.handle_command(&cmd, &g_r).await
        });
        let o_r = outcome_resp(&reply);
        let d_r = rt.block_on(async { dump(&*g_r.read().await) });
        // (c) HTTP
        let (status, body) = rt.block_on(async {
            *http_store.write().await = build_store();
            http_post(port, q).await
        });
        let o_h = outcome_http(status, &body);
        let d_h = rt.block_on(async { dump(&*http_store.read().await) });

        out.count(&format!("kind_{}", kind));
        match (&o_e, refused) {
            (Outcome::Rows(..), true) => out.count("engine_write_ok"),
            (Outcome::Rows(..), false) => out.count("engine_read_ok"),
            (Outcome::Error(_), _) => out.count("engine_error"),
        }
        if d_e != dump(&build_store()) {
            out.count("graph_changed");
        }
        if q.contains('\n') || q.contains('\t') {
            out.count("newline_or_tab_separated");
        }
        if refused {
            let up = q.trim().to_uppercase();
            let old_resp = up.starts_with("CREATE") || up.starts_with("DELETE") || up.starts_with("SET") || up.starts_with("MERGE")
                || up.contains(" CREATE ") || up.contains(" DELETE ") || up.contains(" SET ") || up.contains(" MERGE ");
            if !old_resp {
                out.count("writes_the_old_resp_guess_missed");
            }
            let old_http = up.starts_with("CREATE") || up.starts_with("SET") || up.starts_with("DELETE") || up.starts_with("MERGE")
                || (up.starts_with("MATCH") && (up.contains(" CREATE ") || up.contains(" SET ") || up.contains(" DELETE ") || up.contains(" MERGE ")
                    || up.contains(" REMOVE ") || up.ends_with(" CREATE") || up.ends_with(" SET") || up.ends_with(" DELETE") || up.ends_with(" MERGE")));
            if !old_http {
                out.count("writes_the_old_http_guess_missed");
            }
        }
        let human = format!("query={:?}", q);
        let mut bad: Option<String> = None;
        if o_r != o_e {
            bad = Some(format!("RESP outcome {:?} differs from the engine's {:?}", o_r, o_e));
        } else if o_h != o_e {
            bad = Some(format!("HTTP outcome {:?} (status {}) differs from the engine's {:?}", o_h, status, o_e));
        } else if d_r != d_e {
            bad = Some(format!("graph after RESP {} differs from graph after engine {}", d_r, d_e));
        } else if d_h != d_e {
            bad = Some(format!("graph after HTTP {} differs from graph after engine {}", d_h, d_e));
        } else if decision.is_some() && decision != Some(refused) {
            bad = Some(format!("statement_is_write = {:?} but the read-only executor refused = {}", decision, refused));
        }
        let g = format!("({}, {})", g_bytes(q.as_bytes()), g_opt(decision.map(|b| g_bool(b).to_string())));
        let i = out.case(g, human.clone(), decision.is_some());
        if let Some(b) = bad {
            out.fail(i, &human, &b, None);
        }
    }
    out.finish();
}
