//! C15 — WAL replays exactly the durable prefix, in order.
//!
//! Histories of append / reopen (drop + Wal::new) / checkpoint / crash (truncate the newest
//! file, then Wal::new); the files are read back and compared byte for byte with the model's
//! encoding (coq/model/Bincode.v, Wal.v); then the newest file is truncated at every offset and
//! every byte is changed in turn, and the log replayed each time.
use samyama::persistence::{Wal, WalEntry};
use std::path::{Path, PathBuf};
use vh::*;

#[derive(Clone, Debug)]
enum Op {
    Append(WalEntry),
    Reopen,
    Checkpoint(u64),
    Crash(u64),
}

// ---------- Gallina printing ----------
fn g_str(s: &str) -> String {
    g_bytes(s.as_bytes())
}
fn g_entry(e: &WalEntry) -> String {
    match e {
        WalEntry::CreateNode { tenant, node_id, labels, properties } => format!(
            "(CreateNode {} {} {} {})",
            g_str(tenant),
            node_id,
            g_list(labels.iter().map(|l| g_str(l))),
            g_bytes(properties)
        ),
        WalEntry::CreateEdge { tenant, edge_id, source, target, edge_type, properties } => format!(
            "(CreateEdge {} {} {} {} {} {})",
            g_str(tenant),
            edge_id,
            source,
            target,
            g_str(edge_type),
            g_bytes(properties)
        ),
        WalEntry::DeleteNode { tenant, node_id } => format!("(DeleteNode {} {})", g_str(tenant), node_id),
        WalEntry::DeleteEdge { tenant, edge_id } => format!("(DeleteEdge {} {})", g_str(tenant), edge_id),
        WalEntry::UpdateNodeProperties { tenant, node_id, properties, version } => format!(
            "(UpdateNodeProps {} {} {} {})",
            g_str(tenant),
            node_id,
            g_bytes(properties),
            version
        ),
        WalEntry::UpdateEdgeProperties { tenant, edge_id, properties, version } => format!(
            "(UpdateEdgeProps {} {} {} {})",
            g_str(tenant),
            edge_id,
            g_bytes(properties),
            version
        ),
        WalEntry::Checkpoint { sequence, timestamp } => {
            format!("(CheckpointE {} {})", sequence, g_z(*timestamp as i128))
        }
    }
}
fn dbg(e: &WalEntry) -> String {
    format!("{:?}", e)
}

// ---------- directory helpers ----------
fn wal_files(dir: &Path) -> Vec<(u64, PathBuf)> {
    let mut v = Vec::new();
    for e in std::fs::read_dir(dir).unwrap().flatten() {
        let name = e.file_name().to_str().unwrap().to_string();
        if let Some(h) = name.strip_prefix("wal-").and_then(|s| s.strip_suffix(".log")) {
            assert_eq!(h.len(), 16, "unexpected WAL file name {}", name);
            v.push((u64::from_str_radix(h, 16).unwrap(), e.path()));
        }
    }
    v.sort();
    v
}
fn read_dir_bytes(dir: &Path) -> Vec<(u64, Vec<u8>)> {
    wal_files(dir).into_iter().map(|(n, p)| (n, std::fs::read(p).unwrap())).collect()
}

/// The harness's own view of a file: frames by the 4-byte length prefix only.
/// Returns (start, end, sequence field) of every complete frame.
fn frames(b: &[u8]) -> Vec<(usize, usize, u64)> {
    let mut v = Vec::new();
    let mut p = 0usize;
    while p + 4 <= b.len() {
        let len = u32::from_le_bytes([b[p], b[p + 1], b[p + 2], b[p + 3]]) as usize;
        if p + 4 + len > b.len() || len < 8 {
            break;
        }
        let mut s = [0u8; 8];
        s.copy_from_slice(&b[p + 4..p + 12]);
        v.push((p, p + 4 + len, u64::from_le_bytes(s)));
        p += 4 + len;
    }
    v
}

struct Replayed {
    entries: Vec<WalEntry>,
    result: Option<u64>,
    err: String,
}
fn replay(w: &Wal, from: u64) -> Replayed {
    let mut entries = Vec::new();
    let r = w.replay(from, |e| {
        entries.push(e.clone());
        Ok(())
    });
    match r {
        Ok(l) => Replayed { entries, result: Some(l), err: String::new() },
        Err(e) => Replayed { entries, result: None, err: format!("{:?}", e).chars().take(80).collect() },
    }
}
fn is_prefix(a: &[WalEntry], orig: &[String]) -> bool {
    a.len() <= orig.len() && a.iter().zip(orig).all(|(x, y)| &dbg(x) == y)
}

// ---------- generators ----------
fn gen_string(r: &mut Rng, big: bool) -> String {
    const POOL: [&str; 9] = ["", "default", "t", "Person", "KNOWS", "tenant-ß", "日本", "a\u{0}b", "😀x"];
    if big && r.chance(1, 6) {
        let n = r.range(200, 900) as usize;
        return (0..n).map(|i| (b'a' + (i % 26) as u8) as char).collect();
    }
    r.pick(&POOL).to_string()
}
fn gen_bytes(r: &mut Rng, prev_frame: &Option<Vec<u8>>) -> Vec<u8> {
    match r.below(8) {
        0 | 1 => vec![],
        2 => {
            // adversarial payload: a whole valid frame of an earlier record inside the data
            prev_frame.clone().unwrap_or_else(|| vec![0, 0, 0, 0])
        }
        3 => vec![0; r.range(1, 12) as usize],
        _ => {
            let n = r.range(1, 24) as usize;
            (0..n).map(|_| r.next() as u8).collect()
        }
    }
}
fn gen_id(r: &mut Rng) -> u64 {
    match r.below(6) {
        0 => 0,
        1 => u64::MAX,
        2 => r.next(),
        3 => 1u64 << r.below(64),
        _ => r.below(300),
    }
}
fn gen_entry(r: &mut Rng, big: bool, pf: &Option<Vec<u8>>) -> WalEntry {
    match r.below(6) {
        0 => WalEntry::CreateNode {
            tenant: gen_string(r, big),
            node_id: gen_id(r),
            labels: (0..r.below(4)).map(|_| gen_string(r, false)).collect(),
            properties: gen_bytes(r, pf),
        },
        1 => WalEntry::CreateEdge {
            tenant: gen_string(r, big),
            edge_id: gen_id(r),
            source: gen_id(r),
            target: gen_id(r),
            edge_type: gen_string(r, false),
            properties: gen_bytes(r, pf),
        },
        2 => WalEntry::DeleteNode { tenant: gen_string(r, big), node_id: gen_id(r) },
        3 => WalEntry::DeleteEdge { tenant: gen_string(r, big), edge_id: gen_id(r) },
        4 => WalEntry::UpdateNodeProperties {
            tenant: gen_string(r, big),
            node_id: gen_id(r),
            properties: gen_bytes(r, pf),
            version: gen_id(r),
        },
        _ => WalEntry::UpdateEdgeProperties {
            tenant: gen_string(r, big),
            edge_id: gen_id(r),
            properties: gen_bytes(r, pf),
            version: gen_id(r),
        },
    }
}

struct Plan {
    n_ops: u64,
    p_reopen: u64,
    p_ckpt: u64,
    p_crash: u64,
    big: bool,
    max_probe: usize,
}

/// One history. Returns false when skipped.
fn run_history(out: &mut Out, root: &Path, r: &mut Rng, plan: &Plan, fixed: Option<Vec<Op>>) {
    let idx = out.next_index();
    if !out.wants(idx) {
        out.skip();
        return;
    }
    let dir = root.join(format!("h{}", idx));
    let _ = std::fs::remove_dir_all(&dir);
    std::fs::create_dir_all(&dir).unwrap();

    let mut wal = Some(Wal::new(&dir).unwrap());
    let mut ops: Vec<Op> = Vec::new();
    let mut seqs: Vec<u64> = Vec::new();
    // expected durable log: (sequence returned, entry text, file number, end offset in that file)
    let mut expected: Vec<(u64, String, u64, u64)> = Vec::new();
    let mut bad: Option<String> = None;
    let mut prev_frame: Option<Vec<u8>> = None;
    let mut had_crash = false;
    let mut tear_pending = 0u8;
    let mut body_tear_then_append = false;
    let mut len_tear_then_append = false;
    let mut had_reopen_after_append = false;
    let mut last_ret = 0u64;
    let n_ops = if let Some(f) = &fixed { f.len() as u64 } else { plan.n_ops };

    for i in 0..n_ops {
        let choice = if let Some(f) = &fixed {
            f[i as usize].clone()
        } else {
            let x = r.below(100);
            if x < plan.p_reopen {
                Op::Reopen
            } else if x < plan.p_reopen + plan.p_ckpt {
                Op::Checkpoint(gen_id(r))
            } else if x < plan.p_reopen + plan.p_ckpt + plan.p_crash {
                Op::Crash(0)
            } else {
                Op::Append(gen_entry(r, plan.big, &prev_frame))
            }
        };
        match choice {
            Op::Append(e) => {
                if tear_pending == 2 {
                    body_tear_then_append = true;
                } else if tear_pending == 1 {
                    len_tear_then_append = true;
                }
                tear_pending = 0;
                let w = wal.as_mut().unwrap();
                let s = w.append(e.clone()).unwrap();
                w.flush().unwrap();
                let fs = wal_files(&dir);
                let (fname, fpath) = fs.last().unwrap().clone();
                let end = std::fs::metadata(&fpath).unwrap().len();
                if s <= last_ret && bad.is_none() {
                    bad = Some(format!("append returned sequence {} after {} (not strictly increasing)", s, last_ret));
                }
                last_ret = s;
                expected.push((s, dbg(&e), fname, end));
                let b = std::fs::read(&fpath).unwrap();
                if let Some(f) = frames(&b).last() {
                    if f.1 - f.0 < 120 {
                        prev_frame = Some(b[f.0..f.1].to_vec());
                    }
                }
                ops.push(Op::Append(e));
            }
            Op::Reopen => {
                wal = None; // drop: BufWriter flushes
                wal = Some(Wal::new(&dir).unwrap());
                if !expected.is_empty() {
                    had_reopen_after_append = true;
                }
                ops.push(Op::Reopen);
            }
            Op::Checkpoint(arg) => {
                let w = wal.as_mut().unwrap();
                w.checkpoint(arg).unwrap();
                let s = w.current_sequence();
                let fs = wal_files(&dir);
                let (fname, fpath) = fs.last().unwrap().clone();
                let b = std::fs::read(&fpath).unwrap();
                // the timestamp is the implementation's clock: read it from the file
                let f = *frames(&b).last().unwrap();
                let body = &b[f.0 + 4..f.1];
                let mut ts = [0u8; 8];
                ts.copy_from_slice(&body[8 + 4 + 8..8 + 4 + 16]);
                let ts = i64::from_le_bytes(ts);
                if s <= last_ret && bad.is_none() {
                    bad = Some(format!("checkpoint got sequence {} after {}", s, last_ret));
                }
                last_ret = s;
                expected.push((s, dbg(&WalEntry::Checkpoint { sequence: arg, timestamp: ts }), fname, b.len() as u64));
                ops.push(Op::Checkpoint(arg));
                // remember ts in the op list through a side vector
                CKPT_TS.with(|c| c.borrow_mut().push(ts));
            }
            Op::Crash(kfix) => {
                wal = None;
                let fs = wal_files(&dir);
                let mut k = 0u64;
                if let Some((fname, fpath)) = fs.last() {
                    let len = std::fs::metadata(fpath).unwrap().len();
                    k = if fixed.is_some() { kfix.min(len) } else { match r.below(5) {
                        0 => len,
                        1 => len.saturating_sub(r.range(1, 4)),
                        2 => 0,
                        _ => r.range(0, len),
                    } };
                    // where does the tear fall? (frames of the newest file before the crash)
                    let before = std::fs::read(fpath).unwrap();
                    for fr in frames(&before) {
                        let (st, en) = (fr.0 as u64, fr.1 as u64);
                        if st + 4 <= k && k < en {
                            tear_pending = 2; // length prefix complete, body cut (incl. 0 body bytes)
                        } else if st < k && k < st + 4 {
                            tear_pending = 1; // inside the length prefix
                        }
                    }
                    let f = std::fs::OpenOptions::new().write(true).open(fpath).unwrap();
                    f.set_len(k.min(len)).unwrap();
                    drop(f);
                    expected.retain(|x| !(x.2 == *fname && x.3 > k));
                    // numbers of records lost in the crash may be given out again
                    last_ret = expected.last().map_or(0, |x| x.0);
                }
                wal = Some(Wal::new(&dir).unwrap());
                had_crash = true;
                ops.push(Op::Crash(k));
            }
        }
        seqs.push(wal.as_ref().unwrap().current_sequence());
    }
    drop(wal.take());

    // ---- read back, replay the intact log ----
    let files = read_dir_bytes(&dir);
    let paths = wal_files(&dir);
    let w = Wal::new(&dir).unwrap();
    let intact = replay(&w, 0);
    let orig: Vec<String> = intact.entries.iter().map(dbg).collect();

    // property predicate 1: every complete appended record, in order
    if bad.is_none() {
        let exp: Vec<&String> = expected.iter().map(|x| &x.1).collect();
        if intact.result.is_none() {
            bad = Some(format!("replay of the intact log failed: {}", intact.err));
        } else if orig.iter().collect::<Vec<_>>() != exp {
            bad = Some(format!("replay returned {} entries, {} durable appends expected (or different/reordered)", orig.len(), exp.len()));
        }
    }
    // property predicate 2: strictly increasing sequence numbers on disk, equal to what append returned
    let mut disk: Vec<(usize, usize, usize, u64)> = Vec::new(); // file index, start, end, seq
    for (fi, (_, b)) in files.iter().enumerate() {
        for f in frames(b) {
            disk.push((fi, f.0, f.1, f.2));
        }
    }
    if bad.is_none() {
        if let Some(wnd) = disk.windows(2).find(|w| w[0].3 >= w[1].3) {
            bad = Some(format!("sequence numbers in replay order not strictly increasing: {} then {}", wnd[0].3, wnd[1].3));
        } else if disk.iter().map(|d| d.3).collect::<Vec<_>>() != expected.iter().map(|x| x.0).collect::<Vec<_>>() {
            bad = Some("sequence numbers on disk differ from those returned by append".to_string());
        }
    }
    let known_class: Option<&str> = None;
    let mut known_hits = 0u64;
    let mut known_detail = String::new();

    // ---- fault probes ----
    let mut probes: Vec<String> = Vec::new();
    let total: usize = files.iter().map(|f| f.1.len()).sum();
    let clean = intact.result.is_some() && disk.len() == orig.len();
    if let (Some((lname, lbytes)), true) = (files.last(), clean) {
        let _ = lname;
        let lpath = &paths.last().unwrap().1;
        let n_before: usize = disk.iter().filter(|d| d.0 + 1 < files.len()).count();
        let lframes = frames(lbytes);
        // truncation at every offset of the newest file
        let len = lbytes.len();
        let stride_all = len + 1 <= plan.max_probe;
        let mut offs: Vec<usize> = if stride_all { (0..=len).collect() } else { Vec::new() };
        if !stride_all {
            for f in &lframes {
                for d in [0usize, 1, 3, 4, 5, 11, 12, 13] {
                    offs.push((f.0 + d).min(len));
                }
                offs.push(f.1.saturating_sub(1));
                offs.push(f.1);
            }
            while offs.len() < plan.max_probe {
                offs.push(r.range(0, len as u64) as usize);
            }
            offs.sort();
            offs.dedup();
        }
        for k in offs {
            let from = if r.chance(1, 10) { r.range(0, last_ret + 1) } else { 0 };
            std::fs::OpenOptions::new().write(true).open(lpath).unwrap().set_len(k as u64).unwrap();
            let got = replay(&w, from);
            std::fs::write(lpath, lbytes).unwrap();
            out.count("trunc_probes");
            let pre = is_prefix(&got.entries, &orig);
            probes.push(format!(
                "(Trunc {}, {}, ({}, {}, {}))",
                k,
                from,
                got.entries.len(),
                g_bool(pre),
                g_opt(got.result.map(g_n))
            ));
            if from == 0 && bad.is_none() {
                let fit = n_before + lframes.iter().filter(|f| f.1 <= k).count();
                if got.result.is_none() {
                    bad = Some(format!("newest file truncated to {} of {} bytes: replay failed ({})", k, len, got.err));
                } else if !pre || got.entries.len() != fit {
                    bad = Some(format!(
                        "newest file truncated to {} bytes: replay returned {} entries, longest complete prefix has {}",
                        k,
                        got.entries.len(),
                        fit
                    ));
                } else if fit > 0 && got.result != Some(disk[fit - 1].3) {
                    bad = Some(format!("truncated to {}: last sequence {:?}, expected {}", k, got.result, disk[fit - 1].3));
                }
            }
            if k > 0 && k < len && !lframes.iter().any(|f| f.1 == k) {
                out.count("trunc_inside_record");
            }
        }
        // every byte changed in turn
        let all = total <= plan.max_probe;
        let mut targets: Vec<(usize, usize)> = Vec::new();
        if all {
            for (fi, (_, b)) in files.iter().enumerate() {
                for p in 0..b.len() {
                    targets.push((fi, p));
                }
            }
        } else {
            for d in &disk {
                for o in 0..16usize {
                    if d.1 + o < d.2 {
                        targets.push((d.0, d.1 + o));
                    }
                }
                for o in 1..=5usize {
                    targets.push((d.0, d.2 - o));
                }
            }
            while targets.len() < plan.max_probe {
                let fi = r.below(files.len() as u64) as usize;
                if !files[fi].1.is_empty() {
                    targets.push((fi, r.below(files[fi].1.len() as u64) as usize));
                }
            }
        }
        for (fi, p) in targets {
            let (fname, fbytes) = &files[fi];
            let old = fbytes[p];
            let v = if r.chance(3, 4) { old ^ (1u8 << r.below(8)) } else { old.wrapping_add(r.range(1, 255) as u8) };
            let gi = match disk.iter().position(|d| d.0 == fi && d.1 <= p && p < d.2) {
                Some(g) => g,
                None => continue,
            };
            let d = disk[gi];
            let in_len = p < d.1 + 4;
            let in_seq = !in_len && p < d.1 + 12;
            let mut froms = vec![if r.chance(1, 12) { r.range(0, last_ret + 1) } else { 0 }];
            if in_seq {
                froms.push(d.3);
                froms.push(d.3 + 1);
            }
            let mut mutated = fbytes.clone();
            mutated[p] = v;
            std::fs::write(&paths[fi].1, &mutated).unwrap();
            for from in froms {
                let got = replay(&w, from);
                out.count("flip_probes");
                let pre = is_prefix(&got.entries, &orig);
                probes.push(format!(
                    "(Flip {} {} {}, {}, ({}, {}, {}))",
                    fname,
                    p,
                    v,
                    from,
                    got.entries.len(),
                    g_bool(pre),
                    g_opt(got.result.map(g_n))
                ));
                if got.result.is_none() {
                    out.count("flip_reported");
                } else if !in_seq {
                    out.count("flip_end_of_log");
                }
                // property predicate: the damaged record is reported or the log ends before it;
                // it is never delivered, and nothing delivered is altered
                let mut why = None;
                if from == 0 {
                    if !pre {
                        why = Some("delivered entries are not a prefix of the intact log".to_string());
                    } else if got.entries.len() > gi {
                        why = Some(format!(
                            "record #{} (sequence {}) has a changed byte but was delivered without an error (result {:?})",
                            gi, d.3, got.result
                        ));
                    }
                } else if in_seq {
                    // sequence filter on the damaged record: from = s keeps it, from = s+1 drops it
                    let want = if from == d.3 { orig.len() - gi } else { orig.len() - gi - 1 };
                    if got.result.is_some() && got.entries.len() != want {
                        why = Some(format!(
                            "replay(from={}) delivered {} entries, the intact log gives {} (sequence of record #{} altered)",
                            from,
                            got.entries.len(),
                            want,
                            gi
                        ));
                    }
                }
                if let Some(wy) = why {
                    let det = format!("file wal-{:016x}.log byte {} {:#04x}->{:#04x}: {}", fname, p, old, v, wy);
                    if in_seq {
                        known_hits += 1;
                        if known_detail.is_empty() {
                            known_detail = det;
                        }
                    } else if bad.is_none() {
                        bad = Some(det);
                    }
                }
            }
            std::fs::write(&paths[fi].1, fbytes).unwrap();
            if in_len {
                out.count("flip_in_length_prefix");
            }
            if in_seq {
                out.count("flip_in_sequence_field");
            }
        }
    }
    drop(w);
    let _ = known_class;

    // ---- emit the case ----
    let ts = CKPT_TS.with(|c| std::mem::take(&mut *c.borrow_mut()));
    let mut tsi = 0;
    let g_ops = g_list(ops.iter().map(|o| match o {
        Op::Append(e) => format!("Append {}", g_entry(e)),
        Op::Reopen => "Reopen".to_string(),
        Op::Checkpoint(a) => {
            tsi += 1;
            format!("Checkpoint {} {}", a, g_z(ts[tsi - 1] as i128))
        }
        Op::Crash(k) => format!("Crash {}", k),
    }));
    let g = format!(
        "({}, {}, {}, ({}, {}), {})",
        g_ops,
        g_list(seqs.iter().map(|s| g_n(*s))),
        g_list(files.iter().map(|(n, b)| format!("({}, {})", n, g_bytes(b)))),
        g_list(intact.entries.iter().map(g_entry)),
        g_opt(intact.result.map(g_n)),
        g_list(probes.into_iter())
    );
    let human = format!(
        "ops={} files={:?} bytes={} :: {}",
        ops.len(),
        files.iter().map(|f| (f.0, f.1.len())).collect::<Vec<_>>(),
        total,
        ops.iter()
            .map(|o| match o {
                Op::Append(e) => {
                    // ASCII only (the shared case writer cuts long texts at a byte index)
                    let s: String = dbg(e).chars().map(|c| if c.is_ascii() { c } else { '?' }).collect();
                    if s.len() > 90 {
                        format!("{}...", &s[..90])
                    } else {
                        s
                    }
                }
                o => format!("{:?}", o),
            })
            .collect::<Vec<_>>()
            .join("; ")
    );
    if had_crash {
        out.count("with_crash");
    }
    // crash with the tear inside a record body (resp. length prefix), appends afterwards, and the
    // final log read back + replayed (always done above)
    if body_tear_then_append {
        out.count("crash_body_tear_then_append");
    }
    if len_tear_then_append {
        out.count("crash_len_tear_then_append");
    }
    if had_reopen_after_append {
        out.count("reopen_after_append");
    }
    if files.len() > 1 {
        out.count("multi_file");
    }
    out.count_n("records", orig.len() as u64);
    let i = out.case(g, human.clone(), !ops.is_empty());
    if let Some(b) = bad {
        out.fail(i, &human, &b, None);
    }
    if known_hits > 0 {
        out.count_n("seq_field_flip_undetected", known_hits);
        out.fail(i, &human, &known_detail, Some("seq-field-flip"));
    }
    let _ = std::fs::remove_dir_all(&dir);
}

thread_local! {
    static CKPT_TS: std::cell::RefCell<Vec<i64>> = std::cell::RefCell::new(Vec::new());
}

/// The stored witness of the recorded finding, replayed on the implementation every run.
fn known_witness(root: &Path) -> KnownReplay {
    let dir = root.join("witness");
    let _ = std::fs::remove_dir_all(&dir);
    std::fs::create_dir_all(&dir).unwrap();
    let mut w = Wal::new(&dir).unwrap();
    w.append(WalEntry::DeleteNode { tenant: "t".to_string(), node_id: 7 }).unwrap();
    w.flush().unwrap();
    drop(w);
    let (_, p) = wal_files(&dir).pop().unwrap();
    let mut b = std::fs::read(&p).unwrap();
    b[4] = 3; // sequence 1 -> 3
    std::fs::write(&p, &b).unwrap();
    let w = Wal::new(&dir).unwrap();
    let got = replay(&w, 0);
    let fails = got.result.is_some() && got.entries.len() == 1;
    let k = KnownReplay {
        class: "seq-field-flip".to_string(),
        still_fails: fails,
        detail: format!(
            "append DeleteNode{{t,7}}; byte 4 (sequence) 0x01->0x03; replay(0) = {:?} with {} entries delivered",
            got.result,
            got.entries.len()
        ),
    };
    let _ = std::fs::remove_dir_all(&dir);
    k
}

fn main() {
    let args = parse_args();
    // scratch WAL directories: memory-backed when available (tens of thousands of small
    // file rewrites per run), else the system temp dir; removed at the end
    let base = if Path::new("/dev/shm").is_dir() { PathBuf::from("/dev/shm") } else { std::env::temp_dir() };
    let root = base.join(format!("verif-c15-{}", std::process::id()));
    std::fs::create_dir_all(&root).unwrap();
    let shard = if args.thorough { 12 } else { 6 };
    let mut out = Out::new(&args, "From Verif Require Import Bincode Wal.", "Wal.case", "Wal.check_case", shard);
    out.rule = "fixed small histories (single append of every entry kind, reopen after 1..3 appends, checkpoint, crash at \
                14 offsets of a two-record file incl. all boundaries; crash + append + reopen + append with the tear at \
                every byte offset of the second record of a file and of the only record of a file) then random histories of append (payload pool incl. empty, multi-byte \
                UTF-8, large strings, a valid frame embedded in a byte payload, boundary ids) / reopen / checkpoint / \
                crash+reopen; files read back and compared byte for byte with the model; newest file truncated at every \
                offset and every byte of every file changed in turn (sampled around record boundaries when the log is \
                larger than the per-history probe budget), replay observed each time. Non-trivial = at least one operation."
        .to_string();
    let plan_small = Plan { n_ops: 0, p_reopen: 0, p_ckpt: 0, p_crash: 0, big: false, max_probe: 700 };
    let mut r0 = Rng::new(args.seed ^ 0xC15);

    // fixed scope
    let mk = |i: u64| WalEntry::CreateNode { tenant: "default".into(), node_id: i, labels: vec![], properties: vec![] };
    let mut fixed: Vec<Vec<Op>> = vec![
        vec![],
        vec![Op::Reopen],
        vec![Op::Checkpoint(0)],
        vec![Op::Append(mk(1)), Op::Reopen, Op::Append(mk(2))],
        vec![Op::Append(mk(1)), Op::Append(mk(2)), Op::Reopen, Op::Append(mk(3)), Op::Append(mk(4)), Op::Reopen, Op::Append(mk(5))],
        vec![Op::Append(mk(1)), Op::Append(mk(2)), Op::Append(mk(3)), Op::Checkpoint(3), Op::Append(mk(4)), Op::Reopen, Op::Reopen, Op::Append(mk(5))],
        vec![Op::Append(WalEntry::DeleteNode { tenant: "t".into(), node_id: 7 })],
    ];
    for k in [0u64, 1, 3, 4, 5, 12, 58, 59, 60, 63, 64, 100, 117, 118] {
        fixed.push(vec![Op::Append(mk(1)), Op::Append(mk(2)), Op::Crash(k), Op::Append(mk(3))]);
    }
    for k in 0..6u64 {
        let none: Option<Vec<u8>> = None;
        let mut rr = Rng::for_case(args.seed, 9000 + k);
        let e = gen_entry(&mut rr, false, &none);
        fixed.push(vec![Op::Append(e)]);
    }
    for f in fixed {
        run_history(&mut out, &root, &mut r0, &plan_small, Some(f));
    }
    // crash-then-append-then-replay with the tear at EVERY byte offset of a record
    // (length prefix, every body offset, both boundaries), small probe budget per history:
    //  (a) second record of a two-record file (a complete record survives in the file),
    //  (b) the only record of the newest file (nothing survives in it: counter = file number)
    let plan_crash = Plan { n_ops: 0, p_reopen: 0, p_ckpt: 0, p_crash: 0, big: false, max_probe: 40 };
    let flen = 59u64; // frame of mk(i): 4 + 8 + (4 + 8+7 + 8 + 8 + 8) + 4
    for k in flen..=2 * flen {
        if k >= flen + 4 && k < 2 * flen {
            out.count("sweep_body_offsets");
        }
        let f = vec![Op::Append(mk(1)), Op::Append(mk(2)), Op::Crash(k), Op::Append(mk(3)), Op::Reopen, Op::Append(mk(4))];
        run_history(&mut out, &root, &mut r0, &plan_crash, Some(f));
    }
    for k in 0..=flen {
        if k >= 4 && k < flen {
            out.count("sweep_body_offsets");
        }
        let f = vec![Op::Append(mk(1)), Op::Reopen, Op::Append(mk(2)), Op::Crash(k), Op::Append(mk(3)), Op::Reopen, Op::Append(mk(4))];
        run_history(&mut out, &root, &mut r0, &plan_crash, Some(f));
    }

    // random histories
    let n = if args.thorough { 1000 } else { 34 };
    for c in 0..n {
        let mut r = Rng::for_case(args.seed, c);
        let big = r.chance(1, 8);
        let plan = Plan {
            n_ops: if big { r.range(2, 6) } else { r.range(1, 11) },
            p_reopen: 14,
            p_ckpt: 10,
            p_crash: if r.chance(1, 2) { 10 } else { 0 },
            big,
            max_probe: if args.thorough { 500 } else { 700 },
        };
        run_history(&mut out, &root, &mut r, &plan, None);
    }
    out.known.push(known_witness(&root));
    let _ = std::fs::remove_dir_all(&root);
    out.finish();
}
