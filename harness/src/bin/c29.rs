//! C29 probe (temporary): confirm the listed defects on the real code.
use samyama::graph::{GraphStore, Label, NodeId, PropertyValue};
use samyama::query::QueryEngine;
use samyama::vector::DistanceMetric;

fn show(engine: &QueryEngine, store: &GraphStore, q: &str) {
    match engine.execute(q, store) {
        Ok(b) => {
            let rows: Vec<String> = b
                .records
                .iter()
                .map(|r| b.columns.iter().map(|c| format!("{}={:?}", c, r.get(c))).collect::<Vec<_>>().join(","))
                .collect();
            println!("  {} -> cols {:?} rows {:?}", q, b.columns, rows);
        }
        Err(e) => println!("  {} -> ERR {}", q, e),
    }
}
fn exec(engine: &QueryEngine, store: &mut GraphStore, q: &str) {
    match engine.execute_mut(q, store, "default") {
        Ok(b) => {
            let rows: Vec<String> = b
                .records
                .iter()
                .map(|r| b.columns.iter().map(|c| format!("{}={:?}", c, r.get(c))).collect::<Vec<_>>().join(","))
                .collect();
            println!("  {} -> ok {:?}", q, rows);
        }
        Err(e) => println!("  {} -> ERR {}", q, e),
    }
}

fn main() {
    let engine = QueryEngine::new();
    let mut store = GraphStore::new();
    exec(&engine, &mut store, "CREATE VECTOR INDEX ix FOR (n:Doc) ON (n.emb) OPTIONS {dimensions: 2, similarity: 'l2'}");
    exec(&engine, &mut store, "CREATE (n:Doc {uid: 1, emb: [1.0, 0.0]}) RETURN id(n)");
    exec(&engine, &mut store, "CREATE (n:Doc {uid: 2, emb: [0.0, 1.0]}) RETURN n");
    exec(&engine, &mut store, "CREATE (n:Doc {uid: 3, emb: [10.0, 1.0]}) RETURN id(n)");
    let q = "CALL db.index.vector.queryNodes('Doc', 'emb', [2.0, 0.5], 5) YIELD node, score RETURN node, score";
    println!("L2 index, query [2,0.5]: L2 order should be 1 (1.118), 2 (2.06), 3 (8.0); cosine order 1? 3, 1, 2");
    show(&engine, &store, q);
    println!("update node 2's vector:");
    exec(&engine, &mut store, "MATCH (n) WHERE id(n) = 2 SET n.emb = [2.0, 0.5]");
    show(&engine, &store, q);
    println!("len = {}", store.vector_index.get_index("Doc", "emb").unwrap().read().unwrap().len());
    println!("remove property of node 1:");
    exec(&engine, &mut store, "MATCH (n) WHERE id(n) = 1 REMOVE n.emb");
    show(&engine, &store, q);
    println!("remove label of node 3:");
    exec(&engine, &mut store, "MATCH (n) WHERE id(n) = 3 REMOVE n:Doc");
    show(&engine, &store, q);
    println!("delete node 2:");
    exec(&engine, &mut store, "MATCH (n) WHERE id(n) = 2 DELETE n");
    show(&engine, &store, q);
    show(&engine, &store, "CALL db.index.vector.queryNodes('Doc', 'emb', [2.0, 0.5], 5) YIELD node, score RETURN node.uid, score");
    println!("create an unrelated node (id reuse):");
    exec(&engine, &mut store, "CREATE (n:Other {uid: 9}) RETURN id(n)");
    show(&engine, &store, "CALL db.index.vector.queryNodes('Doc', 'emb', [2.0, 0.5], 5) YIELD node, score RETURN node.uid, labels(node), score");
    println!("set to non-vector / wrong dimension:");
    exec(&engine, &mut store, "CREATE (n:Doc {uid: 10, emb: [3.0, 3.0]}) RETURN id(n)");
    exec(&engine, &mut store, "MATCH (n {uid: 10}) SET n.emb = 'hello'");
    show(&engine, &store, "CALL db.index.vector.queryNodes('Doc', 'emb', [2.0, 0.5], 5) YIELD node, score RETURN node.uid, node.emb, score");
    // API path
    let mut s2 = GraphStore::new();
    s2.create_vector_index("P", "e", 2, DistanceMetric::InnerProduct).unwrap();
    let mut props = std::collections::HashMap::new();
    props.insert("e".to_string(), PropertyValue::Vector(vec![1.0, 0.0]));
    let a = s2.create_node_with_properties("default", vec![Label::new("P")], props);
    s2.set_node_property("default", a, "e", PropertyValue::Vector(vec![0.0, 1.0])).unwrap();
    println!("API: {:?}", s2.vector_search("P", "e", &[1.0, 0.0], 5));
    let _ = NodeId::new(1);
}
